"""T2: nifty/cl/pointwise.py::ptw_dict  ->  lean/NiftyVerif/Gen/Pointwise.lean (regenerated every run).

For every table entry `name: (f, helper)` three Lean definitions are generated, polymorphic in the number type K:
    val_<name>  v params…   = f(v, params…)                     (what `Field.ptw` evaluates)
    hval_<name> v params…   = helper(v, params…)[0]             (the value a `Linearization.ptw` carries)
    der_<name>  v params…   = helper(v, params…)[1]             (the derivative a `Linearization.ptw` multiplies with)
NumPy array code is read *element-wise* by a small symbolic interpreter:
  * `x = np.empty_like(v)` is "undefined" (rendered as `Transc.nan` if it survives),
  * masked stores `x[sel] = e` become `if sel then e else <old x>` (later stores win, as in NumPy),
  * `v[sel]`, `fv[sel]` are the element itself, `~`, `np.logical_or`, comparisons are conditions,
  * `np.where(c, a, b)` is `if c then a else b`, `x**2` is `x*x` (NumPy's square fast path),
  * `np.<fn>` for fn in the `Transc` vocabulary maps to the class, derived NumPy functions to `NiftyVerif.Np.*`,
  * module-level helpers called with literal arguments are inlined, `if <literal>` is decided statically,
  * guards of the form `if <dtype/isinstance test>: raise TypeError` are recorded (`real_only`) and skipped,
  * `a if x is not None` style tests on parameters take the "parameter given" branch (recorded).
Anything else raises Untranslatable: the caller reports *correspondence broken*, never a crash.
"""
import ast
import os

from . import py2lean
from .py2lean import Untranslatable

VERIF = os.path.dirname(os.path.dirname(os.path.abspath(__file__)))
OUT = os.path.join(VERIF, "lean", "NiftyVerif", "Gen", "Pointwise.lean")

TRANSC = {"sqrt", "exp", "log", "sin", "cos", "tan", "sinh", "cosh", "tanh", "arctan"}
DERIVED = {"log1p", "expm1", "log10", "sinc", "sign", "abs", "absolute"}


class Num:
    def __init__(self, s):
        self.s = s


class Cond:
    def __init__(self, s):
        self.s = s


class Undef:
    pass


def lit(x):
    if isinstance(x, bool):
        raise Untranslatable("bool literal as number")
    if isinstance(x, int):
        return Num(f"({x}.0 : K)")
    if isinstance(x, float):
        r = repr(x)
        if "inf" in r or "nan" in r:
            raise Untranslatable(f"float literal {r}")
        if "." not in r and "e" not in r:
            r += ".0"
        return Num(f"({r} : K)")
    raise Untranslatable(f"literal {x!r}")


class Interp:
    def __init__(self, module):
        self.module = module
        self.funcs = {n.name: n for n in module.body if isinstance(n, ast.FunctionDef)}
        self.notes = set()

    # ---------------------------------------------------------------- expressions
    def num(self, v):
        if isinstance(v, Num):
            return v.s
        if isinstance(v, Undef):
            return "Transc.nan"
        if isinstance(v, (int, float)) and not isinstance(v, bool):
            return lit(v).s
        raise Untranslatable(f"number expected, got {v!r}")

    def cond(self, v):
        if isinstance(v, Cond):
            return v.s
        if isinstance(v, bool):
            return "True" if v else "False"
        raise Untranslatable(f"condition expected, got {v!r}")

    def expr(self, e, env):
        if isinstance(e, ast.Constant):
            if isinstance(e.value, bool) or e.value is None:
                return e.value
            if isinstance(e.value, (int, float)):
                return e.value            # python number; rendered lazily (so that `2*(x,)`, `**2` are seen)
            raise Untranslatable(f"constant {e.value!r}")
        if isinstance(e, ast.Name):
            if e.id in env:
                return env[e.id]
            raise Untranslatable(f"unknown name {e.id}")
        if isinstance(e, ast.Attribute) and isinstance(e.value, ast.Name) and e.value.id == "np":
            if e.attr == "nan":
                return Num("Transc.nan")
            if e.attr == "pi":
                return Num("Transc.pi")
            raise Untranslatable(f"np.{e.attr}")
        if isinstance(e, ast.Tuple):
            return tuple(self.expr(x, env) for x in e.elts)
        if isinstance(e, ast.Subscript):
            base = self.expr(e.value, env)
            idx = self.expr(e.slice, env)
            if isinstance(idx, Cond) and isinstance(base, (Num, Undef)):
                return base               # element-wise reading of a masked load
            raise Untranslatable("subscript")
        if isinstance(e, ast.UnaryOp):
            a = self.expr(e.operand, env)
            if isinstance(e.op, ast.USub):
                return Num(f"(-{self.num(a)})")
            if isinstance(e.op, ast.Invert):
                return Cond(f"(¬ {self.cond(a)})")
            raise Untranslatable(ast.dump(e.op))
        if isinstance(e, ast.BinOp):
            a = self.expr(e.left, env)
            b = self.expr(e.right, env)
            if isinstance(e.op, ast.Mult) and isinstance(a, int) and isinstance(b, tuple):
                return b * a
            if isinstance(e.op, ast.Mult) and isinstance(b, int) and isinstance(a, tuple):
                return a * b
            if isinstance(e.op, ast.Pow):
                if isinstance(b, int) and not isinstance(b, bool) and b == 2:
                    return Num(f"({self.num(a)} * {self.num(a)})")
                return Num(f"(Transc.pow {self.num(a)} {self.num(b)})")
            ops = {ast.Add: "+", ast.Sub: "-", ast.Mult: "*", ast.Div: "/"}
            o = ops.get(type(e.op))
            if o is None:
                raise Untranslatable(ast.dump(e.op))
            return Num(f"({self.num(a)} {o} {self.num(b)})")
        if isinstance(e, ast.Compare) and len(e.ops) == 1:
            op = e.ops[0]
            a = self.expr(e.left, env)
            b = self.expr(e.comparators[0], env)
            if isinstance(op, (ast.Is, ast.IsNot)):
                isnone = (a is None) if b is None else None
                if isnone is None:
                    raise Untranslatable("is-comparison")
                if isinstance(a, Num):
                    self.notes.add("optional parameter given")
                return (not isnone) if isinstance(op, ast.IsNot) else isnone
            x, y = self.num(a), self.num(b)
            if isinstance(op, ast.Lt):
                return Cond(f"({x} < {y})")
            if isinstance(op, ast.Gt):
                return Cond(f"({y} < {x})")
            if isinstance(op, ast.LtE):
                return Cond(f"({x} ≤ {y})")
            if isinstance(op, ast.GtE):
                return Cond(f"({y} ≤ {x})")
            if isinstance(op, ast.Eq):      # a == b on non-NaN floats
                return Cond(f"(¬ ({x} < {y}) ∧ ¬ ({y} < {x}))")
            if isinstance(op, ast.NotEq):
                return Cond(f"({x} < {y} ∨ {y} < {x})")
            raise Untranslatable(ast.dump(op))
        if isinstance(e, ast.Call):
            return self.call(e, env)
        if isinstance(e, ast.IfExp):
            c = self.expr(e.test, env)
            if isinstance(c, bool):
                return self.expr(e.body if c else e.orelse, env)
            return Num(f"(if {self.cond(c)} then {self.num(self.expr(e.body, env))} "
                       f"else {self.num(self.expr(e.orelse, env))})")
        raise Untranslatable(ast.dump(e)[:80])

    def np_call(self, fn, args):
        if fn in TRANSC and len(args) == 1:
            return Num(f"(Transc.{fn} {self.num(args[0])})")
        if fn in DERIVED and len(args) == 1:
            f = "abs" if fn == "absolute" else fn
            return Num(f"(Np.{f} {self.num(args[0])})")
        if fn == "power" and len(args) == 2:
            return Num(f"(Transc.pow {self.num(args[0])} {self.num(args[1])})")
        if fn == "clip" and len(args) == 3:
            return Num(f"(Np.clip {self.num(args[0])} {self.num(args[1])} {self.num(args[2])})")
        if fn == "where" and len(args) == 3:
            return Num(f"(if {self.cond(args[0])} then {self.num(args[1])} else {self.num(args[2])})")
        if fn == "logical_or" and len(args) == 2:
            return Cond(f"({self.cond(args[0])} ∨ {self.cond(args[1])})")
        if fn == "logical_and" and len(args) == 2:
            return Cond(f"({self.cond(args[0])} ∧ {self.cond(args[1])})")
        if fn == "empty_like" and len(args) == 1:
            return Undef()
        if fn == "ones_like" and len(args) == 1:
            return Num("(1.0 : K)")
        if fn == "zeros_like" and len(args) == 1:
            return Num("(0.0 : K)")
        raise Untranslatable(f"np.{fn}/{len(args)}")

    def call(self, e, env):
        f = e.func
        if e.keywords:
            raise Untranslatable("keyword arguments")
        args = [self.expr(a, env) for a in e.args]
        if isinstance(f, ast.Attribute) and isinstance(f.value, ast.Name) and f.value.id == "np":
            return self.np_call(f.attr, args)
        if isinstance(f, ast.Name) and f.id in self.funcs:
            return self.function(self.funcs[f.id], args)
        raise Untranslatable(f"call {ast.dump(f)[:60]}")

    # ---------------------------------------------------------------- statements
    @staticmethod
    def is_type_guard(s):
        """`if <test mentioning issubdtype / isinstance>: raise TypeError(...)`"""
        if not (isinstance(s, ast.If) and not s.orelse and len(s.body) == 1 and isinstance(s.body[0], ast.Raise)):
            return None
        src = ast.dump(s.test)
        if "issubdtype" in src and "complexfloating" in src:
            return "real_only"
        if "isinstance" in src:
            return "param_type"
        return None

    def block(self, stmts, env):
        for s in stmts:
            if isinstance(s, ast.Expr) and isinstance(s.value, ast.Constant):
                continue
            g = self.is_type_guard(s)
            if g:
                self.notes.add(g)
                continue
            if isinstance(s, ast.Assign) and len(s.targets) == 1:
                t = s.targets[0]
                v = self.expr(s.value, env)
                if isinstance(t, ast.Name):
                    env[t.id] = v
                    continue
                if isinstance(t, ast.Subscript) and isinstance(t.value, ast.Name):
                    sel = self.expr(t.slice, env)
                    old = env.get(t.value.id)
                    if old is None:
                        raise Untranslatable("store into unknown array")
                    env[t.value.id] = Num(f"(if {self.cond(sel)} then {self.num(v)} else {self.num(old)})")
                    continue
                raise Untranslatable("assignment target")
            if isinstance(s, ast.If):
                c = self.expr(s.test, env)
                if not isinstance(c, bool):
                    raise Untranslatable("data-dependent `if` statement")
                r = self.block(s.body if c else s.orelse, env)
                if r is not None:
                    return r
                continue
            if isinstance(s, ast.Return):
                return ("ret", self.expr(s.value, env))
            raise Untranslatable(f"statement {ast.dump(s)[:80]}")
        return None

    def function(self, fn, args):
        if isinstance(fn, ast.Lambda):
            names = [a.arg for a in fn.args.args]
            if len(names) != len(args):
                raise Untranslatable("lambda arity")
            return self.expr(fn.body, dict(zip(names, args)))
        names = [a.arg for a in fn.args.args]
        if len(names) != len(args):
            raise Untranslatable(f"arity of {fn.name}")
        r = self.block(fn.body, dict(zip(names, args)))
        if r is None:
            raise Untranslatable(f"{fn.name}: no return")
        return r[1]


NP_ARITY = {"power": 2, "clip": 3}


def entry_defs(it, name, f0, f1):
    """returns (params, val, hval, der) as Lean terms over `v` and the parameter names"""
    # parameters: from the helper's signature
    if isinstance(f1, ast.Name):
        h = it.funcs.get(f1.id)
        if h is None:
            raise Untranslatable(f"helper {f1.id} not found")
    elif isinstance(f1, ast.Lambda):
        h = f1
    else:
        raise Untranslatable("helper form")
    pnames = [a.arg for a in h.args.args]
    if not pnames:
        raise Untranslatable("helper without argument")
    params = pnames[1:]
    args = [Num("v")] + [Num(p) for p in params]
    it.notes = set()
    hv = it.function(h, args)
    if not (isinstance(hv, tuple) and len(hv) == 2):
        raise Untranslatable(f"{name}: helper does not return a pair")
    hval, der = it.num(hv[0]), it.num(hv[1])
    if isinstance(f0, ast.Attribute) and isinstance(f0.value, ast.Name) and f0.value.id == "np":
        val = it.num(it.np_call(f0.attr, args))
    elif isinstance(f0, ast.Name) and f0.id in it.funcs:
        val = it.num(it.function(it.funcs[f0.id], args))
    elif isinstance(f0, ast.Lambda):
        val = it.num(it.function(f0, args))
    else:
        raise Untranslatable(f"{name}: value function form")
    return params, val, hval, der, sorted(it.notes)


HEADER = """-- GENERATED by translators/t2_pointwise.py from nifty/cl/pointwise.py::ptw_dict. Do not edit.
-- val_f = ptw_dict[f][0], (hval_f, der_f) = ptw_dict[f][1], read element-wise (see the translator's docstring).
import NiftyVerif.Model.Transc
set_option linter.unusedVariables false
namespace NiftyVerif.Gen.Ptw
open NiftyVerif
variable {K : Type} [Transc K] [Add K] [Sub K] [Mul K] [Div K] [Neg K] [OfScientific K]
  [LT K] [DecidableLT K] [LE K] [DecidableLE K]

"""


def generate(repo):
    path = os.path.join(repo, "nifty/cl/pointwise.py")
    module = ast.parse(open(path).read())
    table = py2lean.find_assign(path, "ptw_dict")
    if not isinstance(table, ast.Dict):
        raise Untranslatable("ptw_dict is not a dict literal")
    it = Interp(module)
    out = [HEADER]
    names, meta = [], {}
    for k, v in zip(table.keys, table.values):
        if not (isinstance(k, ast.Constant) and isinstance(k.value, str)):
            raise Untranslatable("ptw_dict key")
        if not (isinstance(v, ast.Tuple) and len(v.elts) == 2):
            raise Untranslatable(f"ptw_dict[{k.value}] is not a pair")
        name = k.value
        params, val, hval, der, notes = entry_defs(it, name, v.elts[0], v.elts[1])
        sig = "(v : K)" + "".join(f" ({p} : K)" for p in params)
        out.append(f"/-- `{name}`: {', '.join(notes) if notes else 'no guards'} -/\n")
        out.append(f"def val_{name} {sig} : K :=\n  {val}\n")
        out.append(f"def hval_{name} {sig} : K :=\n  {hval}\n")
        out.append(f"def der_{name} {sig} : K :=\n  {der}\n\n")
        names.append(name)
        meta[name] = dict(params=params, notes=notes)
    # the table as an enumerated type (so that theorems can do `cases f`) + dispatch for the driver/model
    out.append("/-- the entries of `ptw_dict` -/\ninductive Fn where\n")
    for n in names:
        out.append(f"  | {n}\n")
    out.append("  deriving DecidableEq, Repr\n\n")
    out.append("def Fn.ofString (f : String) : Option Fn :=\n  match f with\n")
    for n in names:
        out.append(f'  | "{n}" => some .{n}\n')
    out.append("  | _ => none\n\n")
    out.append("def Fn.arity (f : Fn) : Nat :=\n  match f with\n")
    for n in names:
        out.append(f"  | .{n} => {len(meta[n]['params'])}\n")
    out.append("\n")
    for kind in ("val", "hval", "der"):
        out.append(f"/-- `{kind}` of an entry; parameter lists of the wrong length give 0 (the driver rejects them) -/\n")
        out.append(f"def Fn.{kind} [Zero K] (f : Fn) (p : List K) (v : K) : K :=\n  match f, p with\n")
        for n in names:
            ps = meta[n]["params"]
            pat = "[" + ", ".join(ps) + "]"
            out.append(f'  | .{n}, {pat} => {kind}_{n} v{"".join(" " + q for q in ps)}\n')
        out.append("  | _, _ => 0\n\n")
    # dispatch tables for the driver
    out.append("/-- names of the table, in source order -/\n")
    out.append("def names : List String := [" + ", ".join(f'"{n}"' for n in names) + "]\n\n")
    out.append("/-- number of extra parameters of an entry -/\ndef arity (f : String) : Option Nat :=\n  match f with\n")
    for n in names:
        out.append(f'  | "{n}" => some {len(meta[n]["params"])}\n')
    out.append("  | _ => none\n\n")
    for kind in ("val", "hval", "der"):
        out.append(f"def {kind}Of (f : String) (p : List K) (v : K) : Option K :=\n  match f, p with\n")
        for n in names:
            ps = meta[n]["params"]
            pat = "[" + ", ".join(ps) + "]"
            out.append(f'  | "{n}", {pat} => some ({kind}_{n} v{"".join(" " + p for p in ps)})\n')
        out.append("  | _, _ => none\n\n")
    out.append("end NiftyVerif.Gen.Ptw\n")
    return "".join(out), names, meta


def translate(repo):
    src, _, _ = generate(repo)
    py2lean.write_if_changed(OUT, src)
    return OUT


def table_meta(repo):
    """names, parameter lists and guard notes of the table (used by the harness generators)"""
    _, names, meta = generate(repo)
    return names, meta
