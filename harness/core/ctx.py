"""Run context handed to every property module: PRNG, model driver access, counters, findings."""
import json
import hashlib
import os
import random
import subprocess
import time
from collections import Counter

from . import leanrun

VERIF = os.path.dirname(os.path.dirname(os.path.dirname(os.path.abspath(__file__))))
REPO = os.environ.get("NIFTY_REPO", "/repo")


def canon(obj):
    """canonical JSON text (sorted keys, compact) used for hashing / distinct counting"""
    return json.dumps(obj, sort_keys=True, separators=(",", ":"), default=str)


class Counterexample(Exception):
    pass


class Ctx:
    def __init__(self, pid, tier, seed):
        self.pid = pid
        self.tier = tier
        self.seed = seed
        self.rng = random.Random((seed * 1000003) ^ int(hashlib.sha1(pid.encode()).hexdigest()[:8], 16))
        self.t0 = time.time()
        self.evaluations = 0
        self._distinct = set()
        self.samples = []
        self.dist = Counter()          # measured input distribution (sizes, ops, branches, error kinds)
        self.disagreements = []        # (case, impl, model, note)
        self.counterexamples = []      # dict(case, what, signature)
        self.broken = []               # dict(kind, name, detail)
        self.traces_validated = 0
        self.skipped_near_threshold = 0
        self.notes = []
        self.extra = {}                # extra coverage keys

    # ---- budget helpers -------------------------------------------------------------------
    @property
    def quick(self):
        return self.tier == "quick"

    def n(self, quick, thorough):
        """case budget by tier"""
        return quick if self.quick else thorough

    def elapsed(self):
        return time.time() - self.t0

    # ---- counting -------------------------------------------------------------------------
    def case(self, case, nontrivial=True, keep_sample=None):
        """register one explored case; `nontrivial` by the property's stated rule"""
        self.evaluations += 1
        if nontrivial:
            h = hashlib.sha1(canon(case).encode()).digest()[:10]
            self._distinct.add(h)
        if keep_sample is None:
            keep_sample = len(self.samples) < 3 or (len(self.samples) < 6 and self.rng.random() < 0.01)
        if keep_sample and len(self.samples) < 8:
            s = canon(case)
            if len(s) < 1500:
                self.samples.append(json.loads(s))

    @property
    def distinct_nontrivial(self):
        return len(self._distinct)

    def stat(self, key, k=1):
        self.dist[key] += k

    # ---- findings -------------------------------------------------------------------------
    def disagree(self, case, impl, model, note=""):
        self.disagreements.append(dict(case=case, impl=impl, model=model, note=note))

    def counterexample(self, case, what, signature=None):
        self.counterexamples.append(dict(case=case, what=what, signature=signature or {}))

    def broke(self, kind, name, detail=""):
        """kind: 'proof' | 'correspondence' | 'translator'"""
        self.broken.append(dict(kind=kind, name=name, detail=str(detail)[:2000]))

    # ---- model access ---------------------------------------------------------------------
    def model(self, driver, lines):
        """send JSON-able objects through the Lean line-protocol driver; returns list of parsed outputs"""
        return leanrun.run_driver(driver, lines)

    def compare(self, case, impl, model, note="", nontrivial=True):
        """register a case and compare canonicalised outputs of implementation and model"""
        self.case(case, nontrivial)
        if canon(impl) != canon(model):
            self.disagree(case, impl, model, note)
            return False
        return True
