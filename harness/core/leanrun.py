"""Everything that touches Lean: build under a lock, axiom audit, source hygiene grep, line-protocol driver."""
import fcntl
import json
import os
import re
import subprocess
import tempfile
import time

VERIF = os.path.dirname(os.path.dirname(os.path.dirname(os.path.abspath(__file__))))
LEAN_DIR = os.path.join(VERIF, "lean")
LOCK = os.path.join(LEAN_DIR, ".vcheck.lock")
ALLOWED_AXIOMS = {"propext", "Classical.choice", "Quot.sound"}
FORBIDDEN = re.compile(r"\bsorry\b|\badmit\b|^\s*axiom\s|native_decide|bv_decide|implemented_by|\bunsafe\s|maxHeartbeats\s+0\b")


class InfraError(Exception):
    pass


def _env():
    e = dict(os.environ)
    e.pop("LEAN_PATH", None)
    return e


class lake_lock:
    def __enter__(self):
        self.f = open(LOCK, "w")
        fcntl.flock(self.f, fcntl.LOCK_EX)
        return self

    def __exit__(self, *a):
        fcntl.flock(self.f, fcntl.LOCK_UN)
        self.f.close()


def build(modules, timeout=3000):
    """lake build the given modules. Returns (ok, output)."""
    with lake_lock():
        try:
            p = subprocess.run(["lake", "build"] + list(modules), cwd=LEAN_DIR, env=_env(),
                               capture_output=True, text=True, timeout=timeout)
        except FileNotFoundError as e:
            raise InfraError(f"lake not found: {e}")
        except subprocess.TimeoutExpired:
            raise InfraError("lake build timed out")
    out = (p.stdout or "") + (p.stderr or "")
    return p.returncode == 0, out


def strip_comments(src):
    """remove Lean block comments (nested) and line comments"""
    out = []
    i, depth, n = 0, 0, len(src)
    while i < n:
        if src.startswith("/-", i):
            depth += 1
            i += 2
        elif depth and src.startswith("-/", i):
            depth -= 1
            i += 2
        elif depth:
            if src[i] == "\n":
                out.append("\n")
            i += 1
        elif src.startswith("--", i):
            while i < n and src[i] != "\n":
                i += 1
        else:
            out.append(src[i])
            i += 1
    return "".join(out)


def hygiene():
    """grep all Lean sources for forbidden constructs (comment hits discarded). Returns list of hits."""
    hits = []
    for root, _, files in os.walk(LEAN_DIR):
        if ".lake" in root:
            continue
        for fn in files:
            if not fn.endswith(".lean"):
                continue
            path = os.path.join(root, fn)
            src = strip_comments(open(path).read())
            for ln, line in enumerate(src.split("\n"), 1):
                if FORBIDDEN.search(line):
                    hits.append(f"{os.path.relpath(path, LEAN_DIR)}:{ln}: {line.strip()[:120]}")
    return hits


def module_files(modules):
    return [os.path.join(LEAN_DIR, m.replace(".", "/") + ".lean") for m in modules]


def audit(modules, theorems, timeout=900):
    """#print axioms for every theorem; returns dict name -> (ok, axioms or error text)."""
    if not theorems:
        return {}
    src = "".join(f"import {m}\n" for m in modules)
    for t in theorems:
        src += f"#print axioms {t}\n"
    with tempfile.NamedTemporaryFile("w", suffix=".lean", dir=LEAN_DIR, prefix=".audit_", delete=False) as f:
        f.write(src)
        path = f.name
    try:
        p = subprocess.run(["lake", "env", "lean", path], cwd=LEAN_DIR, env=_env(),
                           capture_output=True, text=True, timeout=timeout)
    except subprocess.TimeoutExpired:
        raise InfraError("axiom audit timed out")
    finally:
        os.unlink(path)
    out = (p.stdout or "") + (p.stderr or "")
    res = {}
    # messages look like: 'Thm' depends on axioms: [propext, Quot.sound]   |   'Thm' does not depend on any axioms
    flat = re.sub(r"\s+", " ", out)
    for t in theorems:
        m = re.search(r"'" + re.escape(t) + r"' depends on axioms: \[([^\]]*)\]", flat)
        if m:
            axs = [a.strip() for a in m.group(1).split(",") if a.strip()]
            bad = [a for a in axs if a not in ALLOWED_AXIOMS]
            res[t] = (not bad, axs)
            continue
        if re.search(r"'" + re.escape(t) + r"' does not depend on any axioms", flat):
            res[t] = (True, [])
            continue
        res[t] = (False, "not found / error: " + out[-600:])
    return res


def leanchecker(modules, timeout=3000):
    with lake_lock():
        p = subprocess.run(["lake", "env", "leanchecker"] + list(modules), cwd=LEAN_DIR, env=_env(),
                           capture_output=True, text=True, timeout=timeout)
    return p.returncode == 0, ((p.stdout or "") + (p.stderr or ""))[-2000:]


def run_driver(driver, lines, timeout=1800):
    """Pipe JSON lines to `lake env lean --run <driver>`; return parsed output objects (one per line)."""
    if not lines:
        return []
    inp = "\n".join(json.dumps(l, separators=(",", ":")) for l in lines) + "\n"
    try:
        p = subprocess.run(["lake", "env", "lean", "--run", driver], cwd=LEAN_DIR, env=_env(),
                           input=inp, capture_output=True, text=True, timeout=timeout)
    except subprocess.TimeoutExpired:
        raise InfraError(f"driver {driver} timed out")
    if p.returncode != 0:
        raise DriverError(f"driver {driver} failed rc={p.returncode}: {(p.stderr or p.stdout)[-1500:]}")
    outs = [l for l in p.stdout.split("\n") if l.strip()]
    if len(outs) != len(lines):
        raise DriverError(f"driver {driver}: {len(lines)} lines in, {len(outs)} out; stderr={p.stderr[-800:]}")
    res = []
    for l in outs:
        try:
            res.append(json.loads(l))
        except Exception:
            res.append({"error": "unparsable", "raw": l[:200]})
    return res


class DriverError(Exception):
    """the model driver does not compile or crashed: correspondence cannot be established"""
    pass
