"""known_findings.json: committed, never written at run time.
Entry: {property, kind: "known"|"fixed", id, what, match: {key: value,...}, commit?}
A counterexample is downgraded to KNOWN-FINDING only if a `known` entry's `match` is a sub-dict of its signature."""
import json
import os

VERIF = os.path.dirname(os.path.dirname(os.path.dirname(os.path.abspath(__file__))))


def load(pid):
    path = os.path.join(VERIF, "known_findings.json")
    if not os.path.exists(path):
        return []
    data = json.load(open(path))
    return [e for e in data.get("findings", []) if e.get("property") == pid and e.get("kind") == "known"]


def match(entries, ce):
    sig = ce.get("signature") or {}
    for e in entries:
        m = e.get("match") or {}
        if m and all(sig.get(k) == v for k, v in m.items()):
            return e
    return None
