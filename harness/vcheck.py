#!/venv/bin/python
"""vcheck.py <Cxx> --tier quick|thorough [--replay file]

One check = regenerate (translators) -> prove (lake build + axiom audit + hygiene) -> correspond
(model driver vs. real code) -> oracle on the real code -> decide -> evidence.   See DESIGN.md §1.2.
Exit 0: property held on everything explored; 1: VIOLATION line(s) printed; 2: infrastructure failure.
"""
import argparse
import hashlib
import importlib
import json
import os
import sys
import time
import traceback

HERE = os.path.dirname(os.path.abspath(__file__))
VERIF = os.path.dirname(HERE)
sys.path.insert(0, HERE)
sys.path.insert(0, VERIF)
REPO = os.environ.get("NIFTY_REPO", "/repo")
if REPO not in sys.path:
    sys.path.insert(0, REPO)
os.environ.setdefault("JAX_PLATFORMS", "cpu")
os.environ.setdefault("OMP_NUM_THREADS", "2")
os.environ.setdefault("NIFTY_VERIF", "1")

from core import leanrun, findings  # noqa: E402
from core.ctx import Ctx, canon  # noqa: E402


def load_prop(pid):
    return importlib.import_module(f"props.{pid.lower()}")


def write_replay(pid, rec):
    d = os.path.join(VERIF, "replays", pid)
    os.makedirs(d, exist_ok=True)
    h = hashlib.sha1(canon(rec).encode()).hexdigest()[:12]
    path = os.path.join(d, f"{h}.json")
    with open(path, "w") as f:
        json.dump(rec, f, indent=1, sort_keys=True, default=str)
    return os.path.relpath(path, VERIF)


def shrink(mod, case, what, sig):
    """greedy shrinking with the property's own candidate generator while the oracle still fails"""
    if not hasattr(mod, "shrink") or not hasattr(mod, "oracle"):
        return case, what, sig
    budget = 200
    improved = True
    while improved and budget > 0:
        improved = False
        for cand in mod.shrink(case):
            budget -= 1
            if budget <= 0:
                break
            try:
                r = mod.oracle(cand)
            except Exception:
                r = None
            if r is not None:
                w2, s2 = r
                if s2 == sig or not sig:
                    case, what, sig = cand, w2, s2
                    improved = True
                    break
    return case, what, sig


def run_check(pid, tier, seed):
    mod = load_prop(pid)
    ctx = Ctx(pid, tier, seed)
    obligations = list(getattr(mod, "OBLIGATIONS", []))
    modules = list(getattr(mod, "LEAN_MODULES", []))
    discharged = []
    checker_cmd = "cd lean && lake build " + " ".join(modules) + "  &&  #print axioms <each obligation> (lake env lean)"

    # 1. regenerate -----------------------------------------------------------------------------
    for tr in getattr(mod, "TRANSLATORS", []):
        try:
            tr(REPO)
        except Exception as e:  # a translator that cannot find its construct: correspondence broken
            ctx.broke("translator", getattr(tr, "__name__", str(tr)), f"{type(e).__name__}: {e}")

    # 2. prove ------------------------------------------------------------------------------------
    ok, out = leanrun.build(modules)
    if not ok:
        errs = [l for l in out.split("\n") if "error" in l.lower()][:12]
        ctx.broke("proof", "lake build " + " ".join(modules), "\n".join(errs) or out[-1500:])
    hy = leanrun.hygiene()
    if hy:
        ctx.broke("proof", "hygiene", "; ".join(hy[:10]))
    if ok:
        aud = leanrun.audit(modules, obligations)
        for t in obligations:
            good, info = aud.get(t, (False, "missing"))
            if good and not hy:
                discharged.append(t)
            else:
                ctx.broke("proof", t, f"axioms/err: {info}")
        if tier == "thorough" and modules:
            okc, outc = leanrun.leanchecker(modules)
            ctx.extra["leanchecker"] = "ok" if okc else outc
            if not okc:
                ctx.broke("proof", "leanchecker", outc)

    # 3./4. correspond + oracle -----------------------------------------------------------------
    try:
        mod.run(ctx)
    except leanrun.DriverError as e:
        ctx.broke("correspondence", "model driver", str(e))

    # disagreements: re-examine against the property on the real code
    for d in ctx.disagreements:
        ctx.broke("correspondence", d.get("note") or "model/implementation disagreement",
                  canon(dict(case=d["case"], impl=d["impl"], model=d["model"]))[:1500])
        if hasattr(mod, "oracle"):
            try:
                r = mod.oracle(d["case"])
            except Exception as e:
                r = None
                ctx.notes.append(f"oracle crashed on disagreeing case: {type(e).__name__}: {e}")
            if r is not None:
                ctx.counterexample(d["case"], r[0], r[1])

    # 5. search when something broke and no failing input is known yet ------------------------
    if ctx.broken and not ctx.counterexamples and hasattr(mod, "search"):
        try:
            mod.search(ctx)
        except leanrun.DriverError:
            pass

    return mod, ctx, obligations, discharged, checker_cmd


def decide_and_report(pid, mod, ctx, obligations, discharged, checker_cmd, tier, seed):
    kf = findings.load(pid)
    lines = []
    nviol = 0
    seen_sigs = set()
    known_hit = {}
    new_ce = []
    for ce in ctx.counterexamples:
        key = canon(ce["signature"]) if ce["signature"] else canon(ce["case"])
        if key in seen_sigs:
            continue
        seen_sigs.add(key)
        m = findings.match(kf, ce)
        if m is not None:
            known_hit.setdefault(m["id"], (m, ce))
        else:
            new_ce.append(ce)
    for fid, (m, ce) in sorted(known_hit.items()):
        lines.append(f"KNOWN-FINDING: property={pid} {m['what']}")
    for ce in new_ce[:5]:
        case, what, sig = shrink(mod, ce["case"], ce["what"], ce["signature"])
        path = write_replay(pid, dict(property=pid, kind="counterexample", case=case, what=what, signature=sig))
        lines.append(f"VIOLATION property={pid} replay={path}")
        nviol += 1
    if ctx.broken and not new_ce:
        path = write_replay(pid, dict(property=pid, kind="broken", broken=ctx.broken[:20],
                                      note="proof obligation or model/code correspondence no longer checks; "
                                           "search on the real code found no failing input"))
        lines.append(f"VIOLATION property={pid} replay={path} no-failing-input-found")
        nviol += 1

    # evidence ------------------------------------------------------------------------------------
    cov = dict(
        obligations=max(len(obligations), 0),
        discharged=len(discharged),
        checker_cmd=checker_cmd,
        trusted_base=list(getattr(mod, "TRUSTED_BASE", [])),
        evaluations=ctx.evaluations,
        distinct_nontrivial=ctx.distinct_nontrivial,
        rule=getattr(mod, "RULE", ""),
        samples=ctx.samples[:8] if ctx.samples else [{"obligations": obligations[:5]}],
        traces_validated_against_impl=ctx.traces_validated,
        disagreements=len(ctx.disagreements),
        counterexamples=len(ctx.counterexamples),
        known_findings_reported=sorted(known_hit.keys()),
        broken=[f"{b['kind']}:{b['name']}" for b in ctx.broken][:20],
        input_distribution=dict(sorted(ctx.dist.items())),
        skipped_near_threshold=ctx.skipped_near_threshold,
        obligation_names=obligations,
        exhaustive=bool(ctx.extra.get("exhaustive", False)),
    )
    for k, v in ctx.extra.items():
        cov.setdefault(k, v)
    ev = dict(property_id=pid, tier=tier, seed=seed, level="proof", coverage=cov,
              assumptions=list(getattr(mod, "ASSUMPTIONS", [])) + ctx.notes[:10],
              wall_s=round(ctx.elapsed(), 2), violations=nviol)
    os.makedirs(os.path.join(VERIF, "evidence"), exist_ok=True)
    with open(os.path.join(VERIF, "evidence", f"{pid}.json"), "w") as f:
        json.dump(ev, f, indent=1, sort_keys=True, default=str)
    for l in lines:
        print(l)
    print(f"[{pid}] tier={tier} seed={seed} obligations={len(discharged)}/{len(obligations)} "
          f"evaluations={ctx.evaluations} distinct={ctx.distinct_nontrivial} disagreements={len(ctx.disagreements)} "
          f"counterexamples={len(ctx.counterexamples)} broken={len(ctx.broken)} wall={ctx.elapsed():.1f}s")
    for b in ctx.broken[:6]:
        print(f"  broken {b['kind']}: {b['name']}: {b['detail'][:300]}")
    return 1 if nviol else 0


def replay(pid, path):
    mod = load_prop(pid)
    rec = json.load(open(path if os.path.isabs(path) else os.path.join(VERIF, path)))
    if rec.get("kind") == "counterexample" and hasattr(mod, "oracle"):
        r = mod.oracle(rec["case"])
        if r is None:
            print(f"[{pid}] replay: the property holds on this input now")
            return 0
        print(f"replay: {r[0]}")
        kf = findings.load(pid)
        m = findings.match(kf, dict(case=rec["case"], what=r[0], signature=r[1]))
        if m is not None:
            print(f"KNOWN-FINDING: property={pid} {m['what']}")
            return 0
        print(f"VIOLATION property={pid} replay={path}")
        return 1
    # broken proof/correspondence: the replay is the check itself
    seed = int(os.environ.get("VERIF_SEED", "0"))
    mod, ctx, ob, di, cmd = run_check(pid, "quick", seed)
    return decide_and_report(pid, mod, ctx, ob, di, cmd, "quick", seed)


def main():
    ap = argparse.ArgumentParser()
    ap.add_argument("pid")
    ap.add_argument("--tier", default=os.environ.get("VERIF_TIER", "quick"), choices=["quick", "thorough"])
    ap.add_argument("--replay")
    a = ap.parse_args()
    pid = a.pid.upper()
    seed = int(os.environ.get("VERIF_SEED", "0") or 0)
    try:
        if a.replay:
            sys.exit(replay(pid, a.replay))
        mod, ctx, ob, di, cmd = run_check(pid, a.tier, seed)
        sys.exit(decide_and_report(pid, mod, ctx, ob, di, cmd, a.tier, seed))
    except leanrun.InfraError as e:
        print(f"[{pid}] infrastructure failure: {e}", file=sys.stderr)
        sys.exit(2)
    except SystemExit:
        raise
    except Exception:
        traceback.print_exc()
        print(f"[{pid}] harness crashed (infrastructure failure, not a violation)", file=sys.stderr)
        sys.exit(2)


if __name__ == "__main__":
    main()
