"""C19 — The sampled KL energy is the sample average of the Hamiltonian (DESIGN.md §5 C19).

Tie (class T): generated non-quadratic Hamiltonians on three-key latent spaces; every split of the keys into constants and
point estimates; mirrored / unmirrored (classic).  The real `SampledKLEnergyClass.value/gradient/apply_metric` and the real
`OptimizeVI.kl_value_and_grad/kl_metric` are compared with explicit averaging done by the harness with the REAL Hamiltonian
on the REAL samples (oracle), and with the Lean model's exact average of the per-sample numbers (correspondence).
Constants stay bit-identical through `kl_minimize` / classic `optimize_kl`; moving the expansion point keeps the residuals."""
import itertools
import logging
from fractions import Fraction

import numpy as np

from ._prob_util import jax_setup, fr, rs, fl, fll, dyadic, allclose, maxerr, safe, is_err

ID = "C19"
LEAN_MODULES = ["NiftyVerif.Core.Proto", "NiftyVerif.Model.Kl", "NiftyVerif.Model.LinAlg", "NiftyVerif.Model.Vi",
                "NiftyVerif.Props.C19"]
DRIVER = "Driver/C19.lean"
OBLIGATIONS = ["NiftyVerif.C19." + t for t in (
    "kl_value_avg", "hasFDerivAt_list_sum", "kl_grad_avg", "kl_metric_avg", "kl_grad_constants", "insert_remove_inverse",
    "constants_removed_and_fixed", "at_keeps_residuals", "mirrored_average_symmetric", "classic_local_item")]
RULE = ("case = (implementation classic/JAX, three latent keys a,b,c with 1..2 entries, data size, integer response, "
        "non-linear forward model exp/tanh/quadratic, constants ⊆ keys, point estimates ⊊ keys, mirrored or not (classic), "
        "1..2 sample seeds, expansion point, tangent); every (constants, point_estimates) split is enumerated in the "
        "thorough tier; non-trivial = at least one sample; distinct by canonical case")
TRUSTED_BASE = [
    "Lean 4.33 kernel + Mathlib (FDeriv); axioms propext/Classical.choice/Quot.sound only (audited every run)",
    "the Hamiltonian's own value/gradient/metric (C03/C11/C12) — here it is only *averaged*",
    "floating-point summation order of the average (class T, 1e-11 relative)",
]
ASSUMPTIONS = ["JAX OptimizeVI always mirrors (mirror_samples=False raises NotImplementedError)",
               "classic, constants: the averaged quantity is the Hamiltonian reduced to the non-constant keys — the prior "
               "energy ½|s_const|² of the constant keys (independent of the optimised position) is dropped by "
               "StandardHamiltonian.simplify_for_constant_input; the JAX KL keeps it"]
KEYS = ("a", "b", "c")
TOL = 1e-11


def gen_case(rng, quick=True, impl=None, consts=None, pes=None):
    sizes = [rng.randint(1, 2) for _ in KEYS]
    n = sum(sizes)
    m = rng.randint(1, 3)
    R = [[rng.randint(-2, 2) for _ in range(n)] for _ in range(m)]
    if consts is None:
        consts = [k for k in KEYS if rng.random() < 0.35]
    if pes is None:
        pes = [k for k in KEYS if rng.random() < 0.3]
    if set(pes) == set(KEYS):
        pes = pes[:-1]
    return dict(impl=impl or rng.choice(["cl", "jax"]), sizes=sizes, m=m, R=[[rs(x) for x in r] for r in R],
                N=[rs(rng.choice([Fraction(1, 4), Fraction(1), Fraction(4)])) for _ in range(m)],
                d=[rs(rng.randint(-2, 2)) for _ in range(m)], model=rng.choice(["exp", "tanh", "quad"]),
                pos=[rs(dyadic(rng, -1, 1, 2)) for _ in range(n)], tangent=[rs(dyadic(rng, -1, 1, 2)) for _ in range(n)],
                newpos=[rs(dyadic(rng, -1, 1, 2)) for _ in range(n)],
                constants=sorted(consts), point_estimates=sorted(pes), mirror=rng.random() < 0.7,
                n_samples=rng.randint(1, 2), seed=rng.randint(0, 2 ** 31 - 1),
                kl_map=rng.choice(["vmap", "lmap", "smap"]), ovi_jit=rng.random() < 0.4, driver=False)


def _split(c, v):
    out, o = {}, 0
    for k, s in zip(KEYS, c["sizes"]):
        out[k] = np.asarray(v[o:o + s], dtype=float)
        o += s
    return out


def _arrs(c):
    n = sum(c["sizes"])
    return (np.array([fll(r) for r in c["R"]], dtype=float).reshape(c["m"], n), np.array(fll(c["N"])),
            np.array(fll(c["d"])))


def _nl(c, y, xp):
    if c["model"] == "exp":
        return xp.exp(0.25 * y)
    if c["model"] == "tanh":
        return y + 0.5 * xp.tanh(y)
    return y + 0.125 * y * y


# ------------------------------------------------------------------------------------------------ classic
def real_cl(c):
    def go():
        import nifty.cl as ift
        from nifty.cl import random as nrandom
        ift.logger.setLevel(logging.ERROR)
        R, N, d = _arrs(c)
        doms = {k: ift.UnstructuredDomain(s) for k, s in zip(KEYS, c["sizes"])}
        dd = ift.UnstructuredDomain(c["m"])

        class Dense(ift.LinearOperator):
            def __init__(self, dom, tgt, mat):
                self._domain, self._target = ift.DomainTuple.make(dom), ift.DomainTuple.make(tgt)
                self._capability = self.TIMES | self.ADJOINT_TIMES
                self._mat = mat

            def apply(self, x, mode):
                self._check_input(x, mode)
                v = x.asnumpy() if hasattr(x, "asnumpy") else x.val
                return ift.makeField(self._tgt(mode), (self._mat if mode == self.TIMES else self._mat.T) @ v)
        o, y = 0, None
        for k, s in zip(KEYS, c["sizes"]):
            t = Dense(doms[k], dd, R[:, o:o + s]).ducktape(k)
            y = t if y is None else y + t
            o += s
        if c["model"] == "exp":
            y = (0.25 * y).ptw("exp")
        elif c["model"] == "tanh":
            y = y + 0.5 * y.ptw("tanh")
        else:
            y = y + 0.125 * y * y
        Nop = ift.DiagonalOperator(ift.makeField(dd, N.copy()), sampling_dtype=np.float64)
        lh = ift.GaussianEnergy(ift.makeField(dd, d), inverse_covariance=Nop.inverse) @ y
        ic = ift.AbsDeltaEnergyController(1e-14, iteration_limit=200, convergence_level=3)
        H = ift.StandardHamiltonian(lh, ic, prior_sampling_dtype=np.float64)
        mk = lambda v: ift.MultiField.from_dict({k: ift.makeField(doms[k], a) for k, a in _split(c, v).items()})
        val = lambda f: np.asarray(f.asnumpy() if hasattr(f, "asnumpy") else f.val, dtype=float).reshape(-1)
        flat = lambda mf, keys: np.concatenate([val(mf[k]) for k in keys]) if keys else np.zeros(0)
        p = mk(fll(c["pos"]))
        var = [k for k in KEYS if k not in c["constants"]]
        nrandom.push_sseq_from_seed(c["seed"] % 2 ** 31)
        try:
            kl = ift.SampledKLEnergy(p, H, c["n_samples"], None, mirror_samples=c["mirror"],
                                     constants=c["constants"], point_estimates=c["point_estimates"])
        finally:
            nrandom.pop_sseq()
        out = dict(poskeys=sorted(kl.position.keys()) if hasattr(kl.position, "keys") else [])
        smp = list(kl.samples.iterator())
        out["n"] = len(smp)
        out["samples"] = np.array([flat(s, KEYS) for s in smp])
        out["value"] = float(kl.value)
        out["grad"] = flat(kl.gradient, var)
        tfull = mk(fll(c["tangent"]))
        if var:
            tvar = tfull.extract_by_keys(var)
            out["metric"] = flat(kl.apply_metric(tvar), var)
        # explicit averaging with the REAL Hamiltonian on the REAL samples
        vals, grads, mets = [], [], []
        tz = ift.MultiField.from_dict({k: (tfull[k] if k in var else 0 * tfull[k]) for k in KEYS})
        for s in smp:
            lin = H(ift.Linearization.make_var(s, want_metric=True))
            # the reduced Hamiltonian (StandardHamiltonian._simplify_for_constant_input_nontrivial) carries the prior only
            # on the non-constant keys: the prior energy of the constant keys is a position-independent offset it drops
            # Two reduction steps: first the invariant keys (constants ∩ point estimates), then the remaining constants;
            # a step that covers *all* keys of its operator collapses it to a constant holding the full value instead.
            inv = [k for k in c["constants"] if k in c["point_estimates"]]
            rest = [k for k in KEYS if k not in inv]
            cst2 = [k for k in c["constants"] if k not in inv]
            dropped = (inv if len(inv) < len(KEYS) else []) + (cst2 if len(cst2) < len(rest) else [])
            off = 0.5 * float(np.sum(flat(s, dropped) ** 2)) if dropped else 0.0
            vals.append(float(val(lin.val)[0]) - off)
            grads.append(flat(lin.gradient, var))
            mets.append(flat(lin.metric(tz), var))
        out.update(vals=vals, grads=np.array(grads), mets=np.array(mets))
        # moving the expansion point keeps the residuals
        q = mk(fll(c["newpos"]))
        qv = q.extract_by_keys(var) if var else None
        if var:
            kl2 = kl.at(qv)
            smp2 = np.array([flat(s, KEYS) for s in kl2.samples.iterator()])
            out["mean2"] = flat(kl2.samples.mean, KEYS) if hasattr(kl2.samples, "mean") else None
            out["samples2"] = smp2
        out["mean"] = flat(kl.samples.mean, KEYS)
        if c.get("driver") and var:
            # the classic driver end to end: constants must come back bit-identical, the other keys move
            nrandom.push_sseq_from_seed(c["seed"] % 2 ** 31)
            try:
                mini = ift.NewtonCG(ift.AbsDeltaEnergyController(1e-10, iteration_limit=3, convergence_level=2))
                sl, pos2 = ift.optimize_kl(lh, 1, c["n_samples"], mini, ic, nonlinear_sampling_minimizer=None,
                                           constants=list(c["constants"]), point_estimates=list(c["point_estimates"]),
                                           initial_position=p, output_directory=None, plot_energy_history=False,
                                           plot_minisanity_history=False, return_final_position=True, sanity_checks=False)
            finally:
                nrandom.pop_sseq()
            out["okl_pos"] = flat(pos2, KEYS)
            out["okl_mean"] = flat(sl.mean, KEYS) if hasattr(sl, "mean") else None
        return out
    return safe(go)


# ------------------------------------------------------------------------------------------------ JAX
def real_jax(c):
    def go():
        jax = jax_setup()
        import jax.numpy as jnp
        import nifty.re as jft
        jft.logger.setLevel(logging.ERROR)
        R, N, d = _arrs(c)
        Rj, dv = jnp.array(R), jnp.array(1.0 / N)
        fwd = lambda x: _nl(c, Rj @ jnp.concatenate([x[k] for k in KEYS]), jnp)
        dom = jft.Vector({k: jft.ShapeWithDtype((s,)) for k, s in zip(KEYS, c["sizes"])})
        lh = jft.Gaussian(jnp.array(d), noise_cov_inv=lambda x: dv * x, noise_std_inv=lambda x: jnp.sqrt(dv) * x)
        lh = lh.amend(fwd, domain=dom)
        mk = lambda v: jft.Vector({k: jnp.array(a) for k, a in _split(c, v).items()})
        flat = lambda v, keys: np.concatenate([np.broadcast_to(np.asarray(getattr(v, "tree", v)[k], dtype=float).reshape(-1),
                                                               (c["sizes"][KEYS.index(k)],)) for k in keys]) \
            if keys else np.zeros(0)
        p = mk(fll(c["pos"]))
        pe = tuple(c["point_estimates"])
        var = [k for k in KEYS if k not in c["constants"]]
        kmap = {"vmap": jax.vmap, "lmap": "lmap", "smap": "smap"}[c.get("kl_map", "vmap")]
        ovi = jft.OptimizeVI(lh, n_total_iterations=1, jit=bool(c.get("ovi_jit", False)), linear_minimizer_jit=False,
                             kl_map=kmap)
        keys = jax.random.split(jax.random.PRNGKey(c["seed"]), c["n_samples"])
        cg_kw = dict(absdelta=1e-14, maxiter=200, miniter=2)
        smp, _ = ovi.draw_linear_samples(p, keys, point_estimates=pe, cg_kwargs=cg_kw)
        t = mk(fll(c["tangent"]))
        v, g = ovi.kl_value_and_grad(p, primals_samples=smp)
        met = ovi.kl_metric(p, t, primals_samples=smp)
        out = dict(n=len(smp), value=float(v), grad_full=flat(g, KEYS), metric_full=flat(met, KEYS))
        ss = [s for s in smp]
        out["samples"] = np.array([flat(s, KEYS) for s in ss])
        ham = lambda s: lh(s) + 0.5 * jft.vdot(s, s)
        vals, grads, mets = [], [], []
        for s in ss:
            vv, gg = jax.value_and_grad(ham)(s)
            vals.append(float(vv))
            grads.append(flat(gg, KEYS))
            mets.append(flat(lh.metric(s, t) + t, KEYS))
        out.update(vals=vals, grads_full=np.array(grads), mets_full=np.array(mets))
        # constants through kl_minimize: frozen leaves must come back bit-identical; gradient restricted
        mkw = dict(name=None, xtol=1e-10, absdelta=1e-12, maxiter=3, cg_kwargs=dict(name=None, absdelta=1e-12, maxiter=50))
        if len(var) > 0:
            st = ovi.kl_minimize(smp, constants=tuple(c["constants"]), minimize_kwargs=mkw)
            xnew = st.x
        else:
            xnew = p        # nothing to minimise over (the real code rejects an empty liquid tree)
        out["x_after"] = flat(xnew, KEYS)
        out["pos"] = flat(p, KEYS)
        smp2 = smp.at(xnew)
        out["res_before"] = np.array([flat(jax.tree_util.tree_map(lambda a: a[i], smp._samples), KEYS) for i in range(len(smp))])
        out["res_after"] = np.array([flat(jax.tree_util.tree_map(lambda a: a[i], smp2._samples), KEYS) for i in range(len(smp2))])
        out["samples2"] = np.array([flat(s, KEYS) for s in smp2])
        return out
    return safe(go)


_CACHE = {}


def real(c):
    from core.ctx import canon
    k = canon(c)
    if k not in _CACHE:
        _CACHE[k] = real_cl(c) if c["impl"] == "cl" else real_jax(c)
    return _CACHE[k]


def _idx(c, keys):
    o, out = 0, []
    for k, s in zip(KEYS, c["sizes"]):
        if k in keys:
            out += list(range(o, o + s))
        o += s
    return out


def oracle(case):
    r = real(case)
    sig = dict(impl=case["impl"])
    if is_err(r):
        return (f"{case['impl']} sampled KL raised {r['error']}", dict(sig, what="error", error=r["error"]))
    n = r["n"]
    want_n = case["n_samples"] * (2 if (case["mirror"] or case["impl"] == "jax") else 1)
    if n != want_n:
        return (f"{n} samples instead of {want_n}", dict(sig, what="count"))
    var = [k for k in KEYS if k not in case["constants"]]
    vi = _idx(case, var)
    ci = _idx(case, case["constants"])
    sc = lambda a: max(1.0, float(np.max(np.abs(a)))) if np.size(a) else 1.0
    vavg = float(np.mean(r["vals"]))
    if not abs(r["value"] - vavg) <= TOL * max(1.0, abs(vavg)):
        return (f"KL value {r['value']!r} is not the average {vavg!r} of the Hamiltonian over the {n} samples",
                dict(sig, what="value"))
    if case["impl"] == "cl":
        g, gref = r["grad"], r["grads"].mean(axis=0)
        mt, mref = r.get("metric"), r["mets"].mean(axis=0)
    else:
        g, gref = r["grad_full"], r["grads_full"].mean(axis=0)
        mt, mref = r["metric_full"], r["mets_full"].mean(axis=0)
    if g.shape != gref.shape or not np.max(np.abs(g - gref), initial=0.0) <= TOL * sc(gref):
        return ("KL gradient is not the average of the Hamiltonian's gradients over the samples "
                f"(max deviation {np.max(np.abs(g - gref), initial=0.0):.3g})", dict(sig, what="gradient"))
    if mt is not None and (mt.shape != mref.shape or not np.max(np.abs(mt - mref), initial=0.0) <= TOL * sc(mref)):
        return ("KL metric application is not the average of the Hamiltonian's metric over the samples "
                f"(max deviation {np.max(np.abs(mt - mref), initial=0.0):.3g})", dict(sig, what="metric"))
    pos = np.array(fll(case["pos"]))
    if case["impl"] == "cl":
        if sorted(r["poskeys"]) != sorted(var):
            return (f"optimised position has keys {r['poskeys']}, constants {case['constants']} should be removed",
                    dict(sig, what="constants_removed"))
        if "samples2" in r:
            newpos = np.array(fll(case["newpos"]))
            mean2 = pos.copy()
            mean2[vi] = newpos[vi]
            res1 = r["samples"] - pos
            res2 = r["samples2"] - mean2
            if not np.max(np.abs(res1 - res2)) <= 1e-13 * sc(r["samples"]):
                return ("moving the expansion point (Energy.at) changed the residuals", dict(sig, what="at"))
            if ci and not np.array_equal(r["samples2"][:, ci] - res2[:, ci], np.broadcast_to(pos[ci], (n, len(ci)))):
                pass  # constants of the mean are checked bitwise below through the mean itself
        if not np.array_equal(r["mean"], pos):
            return ("sample list mean differs from the expansion point", dict(sig, what="mean"))
        if "okl_pos" in r:
            if ci and not np.array_equal(r["okl_pos"][ci], pos[ci]):
                return (f"classic optimize_kl changed the constant keys {case['constants']}", dict(sig, what="constants_fixed"))
            if vi and np.array_equal(r["okl_pos"][vi], pos[vi]) and np.max(np.abs(gref)) > 1e-6:
                return ("classic optimize_kl did not move the non-constant keys although the gradient is non-zero",
                        dict(sig, what="no_progress"))
            if r.get("okl_mean") is not None and not np.array_equal(r["okl_mean"], r["okl_pos"]):
                return ("classic optimize_kl: the returned sample list is not centred on the returned position",
                        dict(sig, what="mean"))
    else:
        if ci and not np.array_equal(r["x_after"][ci], r["pos"][ci]):
            return (f"kl_minimize changed constant keys {case['constants']}", dict(sig, what="constants_fixed"))
        if not np.array_equal(r["res_before"], r["res_after"]):
            return ("Samples.at changed the residuals", dict(sig, what="at"))
        if vi and np.array_equal(r["x_after"][vi], r["pos"][vi]) and np.max(np.abs(gref[vi])) > 1e-6:
            return ("kl_minimize did not move the non-constant keys although the gradient is non-zero",
                    dict(sig, what="no_progress"))
    return None


def shrink(case):
    if case["n_samples"] > 1:
        yield dict(case, n_samples=1)
    if case["constants"]:
        yield dict(case, constants=case["constants"][1:])
    if case["point_estimates"]:
        yield dict(case, point_estimates=case["point_estimates"][1:])
    if case["model"] != "quad":
        yield dict(case, model="quad")


def run(ctx):
    rng = ctx.rng
    cases = [gen_case(rng, ctx.quick) for _ in range(ctx.n(3, 30))]
    # every split of keys into constants / point estimates (thorough: all 8×7; quick: a rotating sample)
    subsets = [list(s) for k in range(4) for s in itertools.combinations(KEYS, k)]
    splits = [(cs, ps) for cs in subsets for ps in subsets if len(ps) < 3]
    if ctx.quick:
        splits = rng.sample(splits, 5)
    for cs, ps in splits:
        for impl in (("cl", "jax") if not ctx.quick else (rng.choice(["cl", "jax"]),)):
            cases.append(gen_case(rng, ctx.quick, impl=impl, consts=cs, pes=ps))
    for _ in range(ctx.n(1, 6)):
        c = gen_case(rng, ctx.quick, impl="cl", consts=[rng.choice(KEYS)], pes=rng.choice([[], [rng.choice(KEYS)]]))
        c["driver"] = True
        cases.append(c)
    lines, meta = [], []
    for c in cases:
        ctx.case(c, True)
        ctx.stat(f"impl={c['impl']}")
        ctx.stat(f"constants={len(c['constants'])},pe={len(c['point_estimates'])}")
        ctx.stat(f"mirror={c['mirror'] or c['impl'] == 'jax'}")
        if c["impl"] == "jax":
            ctx.stat(f"options:kl_map={c['kl_map']},jit={c['ovi_jit']}")
        res = oracle(c)
        if res is not None:
            ctx.counterexample(c, *res)
        r = real(c)
        if is_err(r):
            continue
        lines.append(dict(op="average", values=[rs(v) for v in r["vals"]], n=r["n"]))
        meta.append((c, "value", r["value"]))
        G = r["grads"] if c["impl"] == "cl" else r["grads_full"]
        if G.shape[1]:
            lines.append(dict(op="avgvec", values=[[rs(x) for x in row] for row in G], n=r["n"]))
            meta.append((c, "grad", r["grad"] if c["impl"] == "cl" else r["grad_full"]))
        if c["impl"] == "cl" and c["mirror"]:
            # classic list: (mean, residual, neg) -> items, residual taken from the un-negated sample
            pos = np.array(fll(c["pos"]))
            resid = [list(r["samples"][2 * i] - pos) for i in range(c["n_samples"]) for _ in (0, 1)]
            lines.append(dict(op="items", mean=[rs(x) for x in pos], residuals=[[rs(x) for x in row] for row in resid],
                              neg=[bool(i % 2) for i in range(2 * c["n_samples"])]))
            meta.append((c, "items", r["samples"]))
    outs = ctx.model(DRIVER, lines)
    for (c, kind, impl), m in zip(meta, outs):
        if is_err(m):
            ctx.disagree(c, "value", m, f"model {kind}")
            continue
        if kind == "value":
            ok = abs(impl - float(fr(m["avg"]))) <= TOL * max(1.0, abs(impl))
        elif kind == "grad":
            mv = [float(fr(x)) for x in m["avg"]]
            ok = allclose(impl, mv, max(1.0, max(abs(x) for x in mv)), TOL)
        else:
            mv = np.array([[float(fr(x)) for x in row] for row in m["items"]])
            ok = mv.shape == impl.shape and np.max(np.abs(mv - impl)) <= 1e-13 * max(1.0, np.max(np.abs(impl)))
        if not ok:
            ctx.disagree(c, dict(kind=kind, impl=np.asarray(impl).tolist()), m,
                         f"class T: {kind} vs the model's exact average of the recorded per-sample numbers")
    ctx.traces_validated += len(lines)


def search(ctx):
    rng = ctx.rng
    for _ in range(ctx.n(20, 100)):
        c = gen_case(rng, True)
        r = oracle(c)
        if r is not None:
            ctx.counterexample(c, *r)
            return
