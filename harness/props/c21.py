"""C21 — Runs are reproducible and independent of execution strategy (DESIGN.md §5 C21).

Proof part: Model/Rng.lean (stack machine of nifty/cl/random.py) with theorems context_restores (also when the body
raises), unbalanced_body_raises, ctx_only_balanced, nested_contexts_restore, draws_depend_only_on_seed,
spawn_children_distinct, vi_key_schedule.
Tie (class E): generated programs (nested contexts, raw pushes/pops, draws of several kinds, spawns, raised exceptions)
are interpreted on the REAL module and by the model; compared: outcome (ok / IndexError / RuntimeError / user exception),
the stack bottom->top (identity class of the seed-sequence object, entropy, spawn_key, n_children_spawned) and the
partition of all draws into equality classes (two real draws are equal iff the model gives them the same
(entropy, spawn_key, stream offset, size); draws are uniform float64 arrays, which consume a fixed amount of the stream).
Oracle (real code only): a context entered from an arbitrary pre-history restores the identical generator object with
the identical bit-generator state when left normally or by an exception, and the values drawn inside equal those drawn
in a pristine process state with the same seed.
Runtime part (TESTS, labelled as such in the evidence): a tiny classic VI run and a tiny JAX VI run repeated in fresh
processes give identical digests; JAX VI across vmap/lmap/smap x jit agrees to 1e-9 relative (observed noise 3e-12).
"""
import json
import os
import subprocess
import sys

from core.ctx import REPO, canon

ID = "C21"
LEAN_MODULES = ["NiftyVerif.Props.C21", "NiftyVerif.Core.Proto", "NiftyVerif.Model.Rng"]
DRIVER = "Driver/C21.lean"
OBLIGATIONS = ["NiftyVerif.C21." + t for t in (
    "context_restores", "unbalanced_body_raises", "ctx_only_balanced", "nested_contexts_restore", "draws_out",
    "draws_depend_only_on_seed", "ctx_out", "draws_depend_only_on_seed_full", "draws_same_from_any_two_states",
    "ctx_result", "draws_depend_only_on_seed_general", "dipping_body_depends_on_history", "outer_spawn_depends_on_history",
    "spawn_children_distinct", "vi_key_schedule")]
RULE = ("program = nested command list of <= 40 ops over {draw(kind,shape), spawn(n), ctx(seed|spawned child){body}, raise, "
        "raw push, raw pop}; 70% use contexts only, 30% also raw push/pop; non-trivial = contains a context and a draw; "
        "distinct by program")
TRUSTED_BASE = ["Lean 4.33 kernel; axioms propext/Classical.choice/Quot.sound only (audited every run)",
                "Model/Rng.lean is a hand transcription of nifty/cl/random.py (push_sseq, push_sseq_from_seed, pop_sseq, "
                "spawn_sseq, Context.__enter__/__exit__) and of NumPy's SeedSequence.spawn bookkeeping",
                "NumPy: default_rng(sseq) is determined by (entropy, spawn_key); distinct streams do not collide on the "
                "drawn arrays (equality classes of draws are compared, not values)"]
ASSUMPTIONS = ["bit-reproducibility across processes and XLA determinism are observations of the runtime (tests)",
               "draw values are an uninterpreted function of (entropy, spawn_key, requests so far)"]

HERE = os.path.dirname(os.path.abspath(__file__))
RUNS = os.path.join(HERE, "_mpi_c21_runs.py")
MAP_TOL = 1e-9


class UserExc(Exception):
    def __init__(self, tag):
        super().__init__(tag)
        self.tag = tag


# ------------------------------------------------------------------------------------------------------
def _reset():
    import numpy as np
    import nifty.cl.random as rnd
    ss = np.random.SeedSequence(42)
    rnd._sseq = [ss]
    rnd._rng = [np.random.default_rng(ss)]


def _size(req):
    return 1 + req % 4


def _draw(req):
    """uniform float64 draws only: they consume a FIXED amount of the bit stream (one 64-bit word per element), so the
    position in the stream — and with it equality of two draws — is computable from the request history.  (A normal
    draw consumes a data-dependent amount: `normal(1); uniform(1)` and `uniform(1); uniform(1)` may or may not end at
    the same position, so no sound 'different history => different value' statement exists for them.)"""
    import numpy as np
    from nifty.cl.random import Random
    return Random.uniform(np.float64, (_size(req),)).tobytes()


def _interp(cmds, env):
    """run a command list on the real module; exceptions propagate like in user code"""
    import nifty.cl.random as rnd

    def spec(sp):
        if "seed" in sp:
            return sp["seed"]
        return env["last"][sp["last"]]          # IndexError if out of range

    for c in cmds:
        op = c[0]
        if op == "draw":
            env["draws"].append(_draw(c[1]))
        elif op == "spawn":
            env["last"] = rnd.spawn_sseq(c[1])
        elif op == "push":
            sp = spec(c[1])
            if isinstance(sp, int):
                rnd.push_sseq_from_seed(sp)
            else:
                rnd.push_sseq(sp)
        elif op == "pop":
            rnd.pop_sseq()
        elif op == "raise":
            raise UserExc(c[1])
        elif op == "ctx":
            with rnd.Context(spec(c[1])):
                _interp(c[2], env)
        else:
            raise ValueError(op)


def _classes(xs):
    seen = {}
    return [seen.setdefault(x, len(seen)) for x in xs]


def _impl(prog):
    import nifty.cl.random as rnd
    saved = (rnd._sseq, rnd._rng)
    try:
        _reset()
        env = dict(draws=[], last=[])
        try:
            _interp(prog, env)
            outcome = "ok"
        except UserExc as e:
            outcome = ["user", e.tag]
        except IndexError:
            outcome = "IndexError"
        except RuntimeError:
            outcome = "RuntimeError"
        ids = _classes([id(s) for s in rnd._sseq])
        stack = [[i, int(s.entropy), [int(k) for k in s.spawn_key], int(s.n_children_spawned)]
                 for i, s in zip(ids, rnd._sseq)]
        gens_ok = len(rnd._rng) == len(rnd._sseq)
        return dict(outcome=outcome, stack=stack, draw_classes=_classes(env["draws"]), stacks_parallel=gens_ok)
    finally:
        rnd._sseq, rnd._rng = saved


def _model_view(m):
    if "error" in m:
        return m
    ids = _classes([f[0] for f in m["stack"]])
    return dict(outcome=m["outcome"], stack=[[i, f[1], f[2], f[3]] for i, f in zip(ids, m["stack"])],
                draw_classes=_classes([canon([t[0], t[1], sum(_size(r) for r in t[2][:-1]), _size(t[2][-1])])
                                       for t in m["tokens"]]), stacks_parallel=True)


# ------------------------------------------------------------------------------------------------------
def _gen_cmds(rng, budget, depth, raw, nspawned):
    cmds = []
    while budget[0] > 0 and rng.random() < (0.85 if depth == 0 else 0.7):
        budget[0] -= 1
        x = rng.random()
        if x < 0.35:
            cmds.append(["draw", rng.randrange(9)])
        elif x < 0.47:
            n = rng.randrange(0, 4)
            cmds.append(["spawn", n])
            nspawned[0] = n
        elif x < 0.80 and depth < 5:
            sp = {"seed": rng.choice([1, 2, 3, 7, 7, 42])} if (rng.random() < 0.6 or nspawned[0] == 0) else \
                {"last": rng.randrange(0, nspawned[0] + (1 if rng.random() < 0.1 else 0))}
            save = list(nspawned)
            body = _gen_cmds(rng, budget, depth + 1, raw, nspawned)
            cmds.append(["ctx", sp, body])
            if rng.random() < 0.5:
                nspawned[0] = save[0]
        elif x < 0.86:
            cmds.append(["raise", rng.randrange(5)])
            break
        elif raw and x < 0.93:
            sp = {"seed": rng.choice([1, 2, 7])} if (rng.random() < 0.7 or nspawned[0] == 0) else {"last": rng.randrange(nspawned[0])}
            cmds.append(["push", sp])
        elif raw:
            cmds.append(["pop"])
        else:
            cmds.append(["draw", rng.randrange(9)])
    return cmds


def _gen_prog(rng):
    return _gen_cmds(rng, [rng.randrange(4, 40)], 0, rng.random() < 0.3, [0])


def _has(prog, op):
    return any(c[0] == op or (c[0] == "ctx" and _has(c[2], op)) for c in prog)


# ------------------------------------------------------------------------------------------------------
def _oracle_variants(case):
    """further statements of the property on the real module: spawned children belong to the context's own sequence,
    a nested context on the SAME sequence object starts a fresh generator and leaves the outer one alone, an unbalanced
    body is reported (RuntimeError), never silently accepted"""
    import numpy as np
    import nifty.cl.random as rnd
    sig = {"site": "random.Context"}

    def pre():
        _reset()
        try:
            _interp(case["pre"], dict(draws=[], last=[]))
        except (UserExc, IndexError, RuntimeError):
            pass
        return bool(rnd._sseq)

    def spawn_body():
        with rnd.Context(case["seed"]):
            ch = rnd.spawn_sseq(2)
            keys = [(int(c.entropy), tuple(int(k) for k in c.spawn_key)) for c in ch]
            with rnd.Context(ch[1]):
                return keys, _draw(0)

    _reset()
    ref = spawn_body()
    if not pre():
        return None
    got = spawn_body()
    if got != ref:
        return ("seed sequences spawned inside Context(seed) (and draws from them) depend on the history before the context",
                dict(sig, what="spawn-depends-on-history"))
    if ref[0] != [(case["seed"], (0,)), (case["seed"], (1,))]:
        return (f"spawn_sseq(2) inside a fresh Context({case['seed']}) returns children {ref[0]}, not the context's own children",
                dict(sig, what="spawn-not-from-top"))
    # successive spawns of the same sequence give different children
    _reset()
    with rnd.Context(case["seed"]):
        k1 = [tuple(int(k) for k in c.spawn_key) for c in rnd.spawn_sseq(2)]
        k2 = [tuple(int(k) for k in c.spawn_key) for c in rnd.spawn_sseq(2)]
    if len(set(k1 + k2)) != 4:
        return (f"two successive spawn_sseq(2) calls inside one context return children {k1} and {k2}: not all distinct",
                dict(sig, what="spawn-children-repeat"))
    # same sequence object nested
    if not pre():
        return None
    s = np.random.SeedSequence(case["seed"])
    with rnd.Context(s):
        a = _draw(0)
        with rnd.Context(s):
            b = _draw(0)
        c = _draw(0)
    _reset()
    with rnd.Context(np.random.SeedSequence(case["seed"])):
        a0 = _draw(0)
        c0 = _draw(0)
    if (a, b, c) != (a0, a0, c0):
        return ("a nested context on the same seed sequence does not start a fresh generator or disturbs the outer generator",
                dict(sig, what="nested-same-sequence"))
    # unbalanced body
    if not pre():
        return None
    depth = len(rnd._sseq)
    try:
        with rnd.Context(case["seed"]):
            rnd.push_sseq_from_seed(3)
        return (f"a context body that leaves an extra frame on the stack (depth {depth} -> {len(rnd._sseq)}) ends without "
                "RuntimeError: inconsistent RNG usage goes unnoticed", dict(sig, what="unbalanced-not-detected"))
    except RuntimeError:
        pass
    return None


def oracle(case):
    """property on the real module only: a context entered after `pre` restores the generator; draws depend on the seed"""
    if "pre" not in case:
        return None
    import numpy as np
    import nifty.cl.random as rnd
    saved = (rnd._sseq, rnd._rng)
    sig = {"site": "random.Context"}
    try:
        if case.get("variants"):
            r = _oracle_variants(case)
            if r:
                return r
        # reference: pristine state
        _reset()
        ref = []
        try:
            with rnd.Context(case["seed"]):
                for r in case["reqs"]:
                    ref.append(_draw(r))
        except Exception as e:  # noqa: BLE001
            return (f"a plain context with draws raises {type(e).__name__}", dict(sig, what="plain-raises"))
        _reset()
        env = dict(draws=[], last=[])
        try:
            _interp(case["pre"], env)
        except (UserExc, IndexError, RuntimeError):
            pass
        if not rnd._sseq:
            return None
        before = ([id(s) for s in rnd._sseq], [id(g) for g in rnd._rng],
                  [canon(g.bit_generator.state) for g in rnd._rng], [s.n_children_spawned for s in rnd._sseq])
        got, exc = [], None
        try:
            with rnd.Context(case["seed"]):
                for r in case["reqs"]:
                    got.append(_draw(r))
                if case.get("nested"):
                    with rnd.Context(case["seed"] + 1):
                        _draw(0)
                        if case.get("raise_inner"):
                            raise UserExc(1)
                if case.get("raise"):
                    raise UserExc(2)
        except UserExc as e:
            exc = e.tag
        except Exception as e:  # noqa: BLE001
            return (f"context after pre-history raises {type(e).__name__}: {e}", dict(sig, what="unexpected-exception"))
        after = ([id(s) for s in rnd._sseq], [id(g) for g in rnd._rng],
                 [canon(g.bit_generator.state) for g in rnd._rng], [s.n_children_spawned for s in rnd._sseq])
        want_exc = 1 if (case.get("nested") and case.get("raise_inner")) else (2 if case.get("raise") else None)
        if exc != want_exc:
            return (f"exception raised in the body: expected tag {want_exc}, observed {exc} (swallowed or replaced)",
                    dict(sig, what="exception-not-propagated"))
        if before != after:
            what = "depth" if len(before[0]) != len(after[0]) else ("identity" if before[:2] != after[:2] else "generator-state")
            return (f"leaving the context ({'exception' if want_exc else 'normal'}) does not restore the previous RNG stack: {what} changed",
                    dict(sig, what="not-restored:" + what))
        if got != ref[:len(got)] or (want_exc is None and got != ref):
            return ("draws inside Context(seed) differ between a pristine state and after a pre-history",
                    dict(sig, what="draws-depend-on-history"))
        return None
    finally:
        rnd._sseq, rnd._rng = saved


def shrink(case):
    if "pre" in case:
        pre = case["pre"]
        for i in range(len(pre)):
            yield dict(case, pre=pre[:i] + pre[i + 1:])
        for k in ("nested", "raise", "raise_inner"):
            if case.get(k):
                yield dict(case, **{k: False})
        if len(case["reqs"]) > 1:
            yield dict(case, reqs=case["reqs"][:1])
    elif "prog" in case:
        p = case["prog"]
        for i in range(len(p)):
            yield dict(case, prog=p[:i] + p[i + 1:])


# ------------------------------------------------------------------------------------------------------
def _spawn_run(mode, seed):
    env = dict(os.environ, JAX_PLATFORMS="cpu", OMP_NUM_THREADS="2")
    return subprocess.Popen(["/venv/bin/python", RUNS, REPO, mode, str(seed)], stdout=subprocess.PIPE,
                            stderr=subprocess.DEVNULL, text=True, env=env, cwd="/tmp")


def _collect(p, timeout):
    try:
        out, _ = p.communicate(timeout=timeout)
    except subprocess.TimeoutExpired:
        p.kill()
        return {"error": "timeout"}
    for line in out.split("\n"):
        if line.startswith("RESULT "):
            return json.loads(line[7:])
    return {"error": "no-result", "rc": p.returncode}


def run(ctx):
    import numpy  # noqa: F401
    import nifty.cl  # noqa: F401
    rng = ctx.rng
    # ---- runtime tests start first, in fresh processes, and run while the rest is checked -----------------
    seed_c, seed_j = rng.randrange(1, 1000), rng.randrange(1, 1000)
    # quick: 4 processes (the map comparison — jitted maps only — rides in the first JAX process); thorough: all maps x jit
    procs = {"classic_a": _spawn_run("classic", seed_c), "classic_b": _spawn_run("classic", seed_c),
             "jax_a": _spawn_run("jaxq" if ctx.quick else "jax", seed_j), "jax_b": _spawn_run("jaxd", seed_j)}
    if not ctx.quick:
        procs["jaxmaps"] = _spawn_run("jaxmaps", seed_j)
        procs["jaxkeys"] = _spawn_run("jaxkeys", seed_j)
    # ---- stack machine: model vs real module ------------------------------------------------------------------
    progs = [_gen_prog(rng) for _ in range(ctx.n(400, 4000))]
    progs += [[["ctx", {"seed": 7}, [["push", {"seed": 9}]]]],                       # unbalanced: RuntimeError
              [["pop"], ["pop"]], [["pop"], ["draw", 0]], [["pop"], ["spawn", 1]],  # empty stack: IndexError
              [["ctx", {"seed": 7}, [["pop"], ["pop"]]]],                              # exit pops an empty stack
              [["ctx", {"last": 0}, [["draw", 0]]]],                                   # sseq[i] IndexError before enter
              [["spawn", 2], ["ctx", {"last": 0}, [["spawn", 2], ["draw", 1]]], ["ctx", {"last": 0}, [["spawn", 1], ["draw", 1]]]],
              [["ctx", {"seed": 7}, [["draw", 0], ["raise", 3]]], ["draw", 0]],
              [["push", {"seed": 1}], ["ctx", {"seed": 7}, [["pop"], ["pop"], ["push", {"seed": 3}], ["push", {"seed": 4}]]]]]
    outs = ctx.model(DRIVER, [dict(op="prog", prog=p) for p in progs])
    for p, m in zip(progs, outs):
        impl = _impl(p)
        mv = _model_view(m)
        oc = impl["outcome"] if isinstance(impl["outcome"], str) else "user-exception"
        ctx.stat("outcome:" + oc)
        ctx.stat("raw-push-pop" if (_has(p, "push") or _has(p, "pop")) else "contexts-only")
        ctx.stat("depth", max(len(impl["stack"]), 0))
        ctx.compare(dict(prog=p), impl, mv, note="nifty.cl.random on a generated program vs Model/Rng",
                    nontrivial=_has(p, "ctx") and _has(p, "draw"))
    ctx.traces_validated += len(progs)
    # ---- the two decided witnesses of Props/C21 (why the general theorem excludes dipping bodies and outer seed
    # sequences), replayed on the real module: the draws inside the context DO depend on the history there -------------
    dip = [["pop"], ["draw", 0], ["push", {"seed": 9}]]
    outer = [["ctx", {"last": 0}, [["spawn", 1], ["ctx", {"last": 0}, [["draw", 0]]]]]]
    for name, body, preA, preB in (("dipping-body", dip, [], [["draw", 0]]),
                                   ("outer-spawn", outer, [["spawn", 1]], [["spawn", 1], ["ctx", {"last": 0}, [["spawn", 2]]]])):
        got = []
        for pre in (preA, preB):
            import nifty.cl.random as rnd
            saved = (rnd._sseq, rnd._rng)
            try:
                _reset()
                env = dict(draws=[], last=[])
                _interp(pre, env)
                n0 = len(env["draws"])
                try:
                    _interp([["ctx", {"seed": 7}, body]], env)
                except (RuntimeError, IndexError):
                    pass
                got.append(env["draws"][n0:])
            finally:
                rnd._sseq, rnd._rng = saved
        ctx.stat("witness:" + name)
        ctx.case(dict(witness=name), nontrivial=True)
        if got[0] == got[1]:
            ctx.broke("correspondence", f"witness {name}: the model says the draws differ between the two histories, the real "
                                        f"module draws the same values", name)
    # ---- oracle: restoration and seed-dependence on the real module ---------------------------------------------
    for i in range(ctx.n(150, 1500)):
        case = dict(pre=_gen_prog(rng), seed=rng.choice([1, 5, 7, 42]), reqs=[rng.randrange(9) for _ in range(rng.randrange(1, 5))],
                    nested=rng.random() < 0.5, **{"raise": rng.random() < 0.4}, raise_inner=rng.random() < 0.3,
                    variants=(i % 3 == 0))
        ctx.stat("oracle:" + ("raise" if case["raise"] or (case["nested"] and case["raise_inner"]) else "normal"))
        ctx.case(case, nontrivial=True)
        r = oracle(case)
        if r:
            ctx.counterexample(case, *r)
    # ---- runtime tests (TESTS, not proofs) ------------------------------------------------------------------------
    # quick tier: a wall-clock budget; a run that has not finished by then is NOT evaluated (noted in the evidence)
    import time
    res = {}
    for k, p in procs.items():
        left = max(5.0, ctx.n(120, 2400) - ctx.elapsed()) if ctx.quick else 2400
        res[k] = _collect(p, left)
    ctx.extra["runtime_tests"] = {k: (v if "error" in v else {kk: vv for kk, vv in v.items() if kk not in ("deviations", "runs")})
                                  for k, v in res.items()}
    for a, b, what in (("classic_a", "classic_b", "classic"), ("jax_a", "jax_b", "jax")):
        ra, rb = res[a], res[b]
        if "error" in ra or "error" in rb:
            ctx.notes.append(f"runtime test {what}: could not run ({ra.get('error') or rb.get('error')}); not evaluated")
            ctx.stat(f"runtime:{what}:not-run")
            continue
        ctx.stat(f"runtime:{what}:ran")
        if ra["digest"] != rb["digest"]:
            ctx.counterexample(dict(runtime=what, seed=seed_c if what == "classic" else seed_j),
                               f"two fresh processes running the same tiny {what} VI run with the same seed give different results",
                               {"site": "runtime", "what": what + "-not-reproducible"})
        if what == "classic" and ra.get("depth") != 2:
            ctx.notes.append(f"classic run leaves RNG stack depth {ra.get('depth')} (expected 2: base + the pushed seed)")
        if what == "jax":
            # tie of theorem vi_key_schedule: the keys OptimizeVI.update hands to draw_samples, RECORDED, must be
            # sk_i = split(key_i)[1] with key_{i+1} = split(key_i)[0], also across iterations that reuse samples
            ctx.traces_validated += len(ra.get("recorded_keys", []))
            if not ra.get("key_schedule_ok", True):
                ctx.counterexample(dict(runtime="jax-key-schedule", seed=seed_j, recorded=ra.get("recorded_keys"),
                                        predicted=ra.get("predicted_keys")),
                                   "the keys OptimizeVI.update passes to draw_samples are not split(key_i)[1] of a key that is "
                                   "split once per iteration (the schedule depends on the sample mode)",
                                   {"site": "runtime", "what": "key-schedule"})
    rk = res.get("jaxkeys")
    if rk is not None and "error" not in rk:
        ctx.stat("runtime:jaxkeys:ran")
        ctx.traces_validated += sum(len(v["recorded"]) for v in rk["runs"].values())
        if not rk["key_schedule_ok"]:
            ctx.counterexample(dict(runtime="jax-key-schedule", seed=seed_j, runs=rk["runs"]),
                               "recorded sampling keys of OptimizeVI.update differ from the key-schedule model",
                               {"site": "runtime", "what": "key-schedule"})
    rm = res["jaxmaps"] if "jaxmaps" in res else res["jax_a"]
    if "error" in rm or "deviations" not in rm:
        ctx.notes.append(f"runtime test jaxmaps could not run ({rm.get('error')}); not evaluated")
        ctx.stat("runtime:jaxmaps:not-run")
    else:
        ctx.stat("runtime:jaxmaps:ran")
        unsupported = {k: v for k, v in rm["deviations"].items() if isinstance(v, str)}
        ctx.extra["jax_map_deviations"] = {k: v for k, v in rm["deviations"].items() if not isinstance(v, str)}
        ctx.extra["jax_map_unsupported"] = unsupported
        for k, v in rm["deviations"].items():
            if not isinstance(v, str) and v > MAP_TOL:
                ctx.counterexample(dict(runtime="jaxmaps", combo=k, seed=seed_j),
                                   f"JAX VI result with residual_map/kl_map/jit = {k} deviates by {v:.2e} (relative) from vmap/vmap/jit",
                                   {"site": "runtime", "what": "map-or-jit-dependence"})
    ctx.extra["exhaustive"] = False


def search(ctx):
    rng = ctx.rng
    for _ in range(400):
        case = dict(pre=_gen_prog(rng), seed=7, reqs=[0, 3], nested=True, **{"raise": rng.random() < 0.5}, raise_inner=False)
        r = oracle(case)
        if r:
            ctx.counterexample(case, *r)
            return
