"""C31 — Multi-grid index maps are consistent at every level (DESIGN.md §5 C31, design.d/C31.md).

Correspondence (class E, coordinates/volumes class T): for generated regular, open, HEALPix, product (MGrid) and
flattened (serial / nest) grids, EVERY index of EVERY level is sent through the real `Grid.at(level)` methods and
through the Lean model (Driver/C31.lean): shapes and shifts per level, children, parent, refined indices,
neighbourhoods, coordinates, coordinate round trip, volumes, flat index maps and the flattened children / parent /
neighbourhood maps.  Oracle (real code only): the property statement itself (parent of child, children partition
the next level, coordinate and flat round trips, neighbourhoods in range / centred / translation-consistent,
refinement never creates volume).
"""
import glob
import json
import os
from fractions import Fraction

import numpy as np

from core.ctx import VERIF
from translators import t_gridweights

ID = "C31"
LEAN_MODULES = ["NiftyVerif.Core.Proto", "NiftyVerif.Props.C31"]
DRIVER = "Driver/C31.lean"
TRANSLATORS = [t_gridweights.translate]
OBLIGATIONS = ["NiftyVerif.C31." + t for t in (
    "parent_child", "parent_child_open", "children_partition", "children_partition_open", "healpix_parent_child",
    "parent_child_vec", "children_cover_vec", "mgrid_componentwise", "open_shape_shift_step",
    "ravelSerial_lt", "flat_roundtrip_serial", "flat_roundtrip_serial_inv",
    "flat_parent_commutes", "flat_children_commute", "flat_parent_commutes_serial",
    "flat_roundtrip_nest", "flat_roundtrip_nest_inv", "nest_children_contiguous", "nest_bound_is_shape",
    "flat_parent_commutes_nest", "weights_serial_translated",
    "coord_roundtrip", "coord_roundtrip_rint", "volume_conserved_axis", "volume_conserved", "edges_refine",
    "simple_coord_roundtrip",
    "neighbourhood_in_range", "neighbourhood_centre", "neighbourhood_wraps", "open_neighbourhood_eq")]
RULE = ("grid specifications (regular 1-3 D, open with per-level padding, HEALPix nside<=4, MGrid products, FlatGrid "
        "serial/nest, SimpleOpenGrid / LogGrid / BrokenLogGrid) generated with depth<=3 and at most ~600 (quick) / ~4000 (thorough) pixels on the finest level; every "
        "index of every level is evaluated; non-trivial = depth>=1 and some split>1; distinct by the canonical spec")
TRUSTED_BASE = ["Lean 4.33 kernel; axioms propext/Classical.choice/Quot.sound only (audited every run)",
                "Model/Grid.lean is hand-written from grid.py/grid_impl.py; tied by exhaustive per-level differential "
                "comparison on the generated grids (class E; coordinates and volumes class T, 1e-12)",
                "jhealpix pixel geometry (pix2vec/vec2pix/neighbours) is executed, not modelled; only the nested "
                "children/parent arithmetic of HEALPix grids is in the model"]
ASSUMPTIONS = ["float64 coordinates are compared to the exact rational model with relative tolerance 1e-12; the coordinate "
               "round trip (an integer result) is compared exactly"]

TOL = 1e-12


def _jax():
    import jax
    jax.config.update("jax_enable_x64", True)
    # optional persistent XLA cache (pure speed-up: hundreds of tiny kernels are compiled per run; content-addressed)
    try:
        d = os.path.join(os.environ.get("TMPDIR", "/tmp"), "nifty_verif_jaxcache")
        os.makedirs(d, exist_ok=True)
        jax.config.update("jax_compilation_cache_dir", d)
        jax.config.update("jax_persistent_cache_min_compile_time_secs", 0.0)
        jax.config.update("jax_persistent_cache_min_entry_size_bytes", 0)
    except Exception:
        pass


# ---- building the real grids ------------------------------------------------------------------------------------
def build(spec):
    _jax()
    from nifty.re.multi_grid.grid import FlatGrid, Grid, MGrid, OpenGrid
    from nifty.re.multi_grid.grid_impl import HEALPixGrid
    k = spec["kind"]
    if k == "regular":
        return Grid(shape0=tuple(spec["shape0"]), splits=tuple(tuple(s) for s in spec["splits"]))
    if k == "open":
        return OpenGrid(shape0=tuple(spec["shape0"]), splits=tuple(tuple(s) for s in spec["splits"]),
                        padding=tuple(tuple(p) for p in spec["padding"]))
    if k == "hp":
        return HEALPixGrid(nside0=spec["nside0"], depth=spec["depth"])
    if k == "mgrid":
        return MGrid(*[build(g) for g in spec["grids"]])
    if k == "flat":
        return FlatGrid(build(spec["grid"]), ordering=spec["ordering"])
    if k in PHYS_KINDS:
        from nifty.re.multi_grid.grid_impl import BrokenLogGrid, LogGrid, SimpleOpenGrid
        kw = dict(min_shape=tuple(spec["min_shape"]), window_size=spec.get("window", 3), splits=spec.get("splits", 2),
                  depth=spec["depth"])
        if k == "simpleopen":
            return SimpleOpenGrid(distances=spec.get("distances"), **kw)
        if k == "log":
            return LogGrid(r_min=spec["r_min"], r_max=spec["r_max"], **kw)
        return BrokenLogGrid(r_min=spec["r_min"], r_linthresh=spec["r_linthresh"], r_max=spec["r_max"], **kw)
    raise ValueError(k)


PHYS_KINDS = ("simpleopen", "log", "brokenlog")


def derive_open(spec, grid):
    """the OpenGrid a SimpleOpenGrid / LogGrid / BrokenLogGrid really is (its index maps are those of an OpenGrid)"""
    return dict(kind="open", phys=spec["kind"], shape0=[int(x) for x in grid.shape0],
                splits=[[int(x) for x in s_] for s_ in grid.splits], padding=[[int(x) for x in p] for p in grid.padding])


def depth_of(spec):
    k = spec["kind"]
    if k in ("regular", "open"):
        return len(spec["splits"])
    if k == "hp" or k in PHYS_KINDS:
        return spec["depth"]
    if k == "mgrid":
        return depth_of(spec["grids"][0])
    return depth_of(spec["grid"])


def leaves(spec):
    if spec["kind"] == "mgrid":
        out = []
        for g in spec["grids"]:
            out += leaves(g)
        return out
    return [spec]


def leaf_axes(leaf, level, at):
    """model axes of one leaf grid at one level; `at` = model output of op "at" per level (shape, shifts)"""
    d = depth_of(leaf)
    if leaf["kind"] == "hp":
        n = 12 * leaf["nside0"] ** 2 * 4 ** level
        return [dict(n=n, s=4 if level < d else 0, ps=4 if level > 0 else 0, pad=0, ppad=0, sh=0, hp=True)]
    nd = len(leaf["shape0"])
    pads = leaf.get("padding") or [[0] * nd for _ in range(d)]
    out = []
    for k in range(nd):
        out.append(dict(n=at[level]["shape"][k], s=leaf["splits"][level][k] if level < d else 0,
                        ps=leaf["splits"][level - 1][k] if level > 0 else 0,
                        pad=pads[level][k] if level < d else 0, ppad=pads[level - 1][k] if level > 0 else 0,
                        sh=at[level]["shifts"][k], hp=False))
    return out


def _fs(x):
    f = Fraction(float(x))
    return str(f.numerator) if f.denominator == 1 else f"{f.numerator}/{f.denominator}"


def _strip(ax):
    return [{k: v for k, v in a.items() if k != "hp"} for a in ax]


def at_requests(leaf):
    if leaf["kind"] == "hp":
        return []
    d = depth_of(leaf)
    nd = len(leaf["shape0"])
    pads = leaf.get("padding") or [[0] * nd for _ in range(d)]
    return [dict(op="at", shape0=leaf["shape0"], splits=leaf["splits"][:l], padding=pads[:l]) for l in range(d + 1)]


def allidx(shape):
    return np.mgrid[tuple(slice(int(s)) for s in shape)].reshape(len(shape), -1)


def _err(e):
    return {"error": type(e).__name__}


def padded(idx):
    """pad the index batch to a power of two (repeating column 0) so that JAX re-uses compiled kernels across grids;
    every index is still evaluated, results are cut back to the first N columns"""
    n = idx.shape[1]
    p = 1
    while p < n:
        p *= 2
    if p == n:
        return idx
    return np.concatenate([idx, np.repeat(idx[:, :1], p - n, axis=1)], axis=1)


# ---- real side ----------------------------------------------------------------------------------------------------
class LevelData:
    """everything the real `grid.at(level)` says about ALL its indices, computed once (jitted batch calls, lazily)
    and shared by the correspondence and the oracle"""

    def __init__(self, grid, level):
        self.grid, self.level = grid, level
        self.ga = grid.at(level)
        self.d = grid.depth
        self.shape = [int(s) for s in self.ga.shape]
        self.nd = len(self.shape)
        self.idx = allidx(self.shape)
        self.N = self.idx.shape[1]
        self.pidx = padded(self.idx)
        self.P = self.pidx.shape[1]
        self._c = {}

    def _jit(self, f, *args):
        import jax
        return jax.jit(f)(*args)

    def get(self, key, fn):
        if key not in self._c:
            self._c[key] = fn()
        return self._c[key]

    def children(self):     # (nd, N, C)
        return self.get("ch", lambda: np.asarray(self._jit(self.ga.children, self.pidx)).reshape(self.nd, self.P, -1)[:, :self.N])

    def parent(self):       # (nd, N)
        return self.get("pa", lambda: np.asarray(self._jit(self.ga.parent, self.pidx))[:, :self.N])

    def nbh(self, win):     # (nd, N, W)
        win = tuple(int(w) for w in win)
        return self.get(("nb", win), lambda: np.asarray(self._jit(lambda i: self.ga.neighborhood(i, win), self.pidx)).reshape(self.nd, self.P, -1)[:, :self.N])

    def refined_mask(self):
        return self.get("rf", lambda: np.broadcast_to(np.asarray(self._jit(self.ga._is_index_refined, self.pidx)).astype(bool), (self.P,))[:self.N])

    def refined_indices(self):
        return self.get("ri", lambda: np.asarray(self.ga.refined_indices()).reshape(self.nd, -1))

    def coords_padded(self):
        return self.get("cop", lambda: np.asarray(self._jit(self.ga.index2coord, self.pidx), dtype=np.float64))

    def coords(self):
        return self.coords_padded()[:, :self.N]

    def roundtrip(self):
        # eager: GridAtLevel.coord2index uses np.rint (not traceable)
        return self.get("rt", lambda: np.asarray(self.ga.coord2index(self.coords_padded())).astype(np.int64)[:, :self.N])

    def vols(self):
        def f():
            v = np.asarray(self.ga.index2volume(self.pidx), dtype=np.float64)
            return np.full(self.N, float(v.reshape(-1)[0])) if v.size == 1 else v.reshape(-1)[:self.N]
        return self.get("vol", f)

    # flattened grids only
    def flat_of_inner(self):
        def f():
            iidx = allidx(self.grid.grid.at(self.level).shape)
            return iidx, np.asarray(self._jit(self.ga.index2flatindex, padded(iidx)))[0][:iidx.shape[1]]
        return self.get("fl", f)

    def unflat(self):
        return self.get("ufl", lambda: np.asarray(self._jit(self.ga.flatindex2index, self.pidx))[:, :self.N])


_LD = {}


def level_data(grid, level):
    key = (id(grid), level)
    if key not in _LD:
        if len(_LD) > 64:
            _LD.clear()
        _LD[key] = (grid, LevelData(grid, level))
    return _LD[key][1]


def real_level(grid, level, ax, win):
    """the same record as Driver/C31 `level`, from the real code; coordinates as floats"""
    L = level_data(grid, level)
    nd, N = L.nd, L.N
    has_c, has_p = level < L.d, level > 0
    ch = L.children() if has_c else None
    pa = L.parent() if has_p else None
    nb = L.nbh(win)
    rf = L.refined_mask() if has_c else np.zeros(N, bool)
    hp = [a["hp"] for a in ax]
    co = rt = None
    if not any(hp):
        co, rt = L.coords(), L.roundtrip()
    items = []
    for j in range(N):
        it = dict(i=L.idx[:, j].tolist(),
                  children=ch[:, j, :].T.tolist() if has_c else None,
                  parent=pa[:, j].tolist() if has_p else None,
                  refined=bool(rf[j]),
                  nbh=nb[:, j, :].T.tolist())
        if co is not None:
            it["coord"] = co[:, j].tolist()
            it["rt"] = rt[:, j].tolist()
        items.append(it)
    return dict(shape=L.shape, items=items, refinedIndices=L.refined_indices().T.tolist() if has_c else None,
                volume=float(L.vols()[0]))


def real_flat(fgrid, level, win):
    L = level_data(fgrid, level)
    size = L.N
    has_c, has_p = level < L.d, level > 0
    flat = L.flat_of_inner()[1].tolist()
    ind = L.unflat()
    ch = L.children()[0] if has_c else None
    pa = L.parent()[0] if has_p else None
    nb = L.nbh(win)[0]
    items = [dict(f=j, index=ind[:, j].tolist(), children=ch[j].tolist() if has_c else None,
                  parent=int(pa[j]) if has_p else None, nbh=nb[j].tolist()) for j in range(size)]
    return dict(flat=flat, items=items)


# ---- comparison ------------------------------------------------------------------------------------------------------
def _frac(s):
    return Fraction(s)


def compare_level(ctx, spec, level, real, model):
    """E on everything discrete; T on coordinates and volume"""
    if "error" in model:
        ctx.compare(dict(spec=spec, level=level), real.get("shape"), model, note="C31 level: model rejected")
        return
    ri, mi = real["items"], model["items"]
    disc_r = [{k: v for k, v in it.items() if k != "coord"} for it in ri]
    disc_m = [{k: v for k, v in it.items() if k != "coord"} for it in mi]
    if "rt" not in ri[0]:
        for it in disc_m:
            it.pop("rt", None)
    ok = ctx.compare(dict(spec={k: v for k, v in spec.items() if not k.startswith("_")}, level=level), dict(items=disc_r, refinedIndices=real["refinedIndices"]),
                     dict(items=disc_m, refinedIndices=model["refinedIndices"]),
                     note=f"C31 level {level}: children/parent/refined/neighbourhood/coordinate round trip, real vs model",
                     nontrivial=depth_of(spec) >= 1)
    if not ok:
        return
    phys = spec.get("phys")
    if "coord" in ri[0] and phys != "brokenlog":
        for a, b in zip(ri, mi):
            for x, y in zip(a["coord"], b["coord"]):
                ym = float(_frac(y))
                if phys == "log":
                    # radial map exp(scale * c + offset): compare in the exponent
                    x, ym = float(np.log(x)), spec["_scale"] * ym + spec["_offset"]
                if abs(x - ym) > (1e-10 if phys == "log" else TOL) * (abs(ym) + 1):
                    ctx.disagree(dict(spec={k: v for k, v in spec.items() if not k.startswith("_")}, level=level, i=a["i"]), x, y,
                                 "C31 index2coord (class T)")
                    return
    if phys in ("log", "brokenlog"):
        return                      # pixel volumes of radial grids: oracle (never more than the parent), not the model
    # HEALPix product grids have surface 4 pi per sphere factor: the model volume is per unit factor
    nhp = sum(1 for lf in leaves(spec if spec["kind"] != "flat" else spec["grid"]) if lf["kind"] == "hp")
    vm = float(_frac(model["volume"])) * (4 * np.pi) ** nhp
    if abs(real["volume"] - vm) > 1e-11 * abs(vm):
        ctx.disagree(dict(spec=spec, level=level), real["volume"], model["volume"], "C31 index2volume (class T)")


# ---- oracle: the property on the real code ------------------------------------------------------------------------
def oracle(case, grid=None):
    """the property statement on the real code only (all indices of all levels of the grid described by case["spec"])"""
    spec = case["spec"]
    win = case.get("win")
    if grid is None:
        try:
            grid = build(spec)
        except Exception:
            return None
    d = grid.depth
    nd = int(grid.at(0).ndim)
    if not win:
        inner_nd = int(grid.grid.at(0).ndim) if spec["kind"] == "flat" else nd
        lv = leaves(spec["grid"] if spec["kind"] == "flat" else spec)
        win = []
        for lf in lv:
            win += [1] if lf["kind"] == "hp" else [3] * len(lf["shape0"])
        assert len(win) == inner_nd
    try:
        return _oracle_levels(spec, grid, d, nd, win)
    except Exception as e:
        return (f"the real grid code raised {type(e).__name__} on a valid grid: {str(e)[:120]}",
                dict(kind=spec["kind"], what="exception:" + type(e).__name__))


def _oracle_levels(spec, grid, d, nd, win):
    vol_prev = None
    for level in range(d + 1):
        L = level_data(grid, level)
        shape, idx, N = L.shape, L.idx, L.N
        sig = dict(kind=spec["kind"], level_has_children=level < d)
        # neighbourhoods: in range, centre present, translation consistent
        try:
            nb = L.nbh(win)
        except NotImplementedError:
            nb = None
        if nb is not None:
            shp = np.array(shape)[:, None, None]
            if (nb < 0).any() or (nb >= shp).any():
                return (f"level {level}: neighbourhood leaves the grid", dict(sig, what="nbh-range"))
            if not (nb == idx[:, :, None]).all(axis=0).any(axis=1).all():
                return (f"level {level}: neighbourhood does not contain its centre", dict(sig, what="nbh-centre"))
            if spec["kind"] in ("regular", "open") and N > 1:
                # (i + c - w//2) mod n: moving the centre by one along an axis moves every neighbour by one (mod n);
                # all indices are in the batch already, so this is a re-indexing of `nb`
                for axn in range(nd):
                    if shape[axn] < 2:
                        continue
                    sh = idx.copy()
                    sh[axn] = (sh[axn] + 1) % shape[axn]
                    pos = np.ravel_multi_index(tuple(sh), shape)
                    exp = nb.copy()
                    exp[axn] = (exp[axn] + 1) % shape[axn]
                    if not np.array_equal(nb[:, pos, :], exp):
                        return (f"level {level}: neighbourhoods do not wrap consistently along axis {axn}",
                                dict(sig, what="nbh-wrap"))
        # coordinates round trip
        try:
            if not np.array_equal(L.roundtrip(), idx):
                return (f"level {level}: coord2index(index2coord(i)) != i", dict(sig, what="coord-roundtrip"))
        except Exception as e:
            return (f"level {level}: coordinate round trip raised {type(e).__name__}", dict(sig, what="coord-exc"))
        vol = float(L.vols().sum())
        if vol_prev is not None and vol > vol_prev * (1 + 1e-9):
            return (f"level {level}: total volume {vol} exceeds the previous level's {vol_prev}", dict(sig, what="volume"))
        vol_prev = vol
        if spec["kind"] == "flat":
            iidx, fl = L.flat_of_inner()
            if sorted(fl.tolist()) != list(range(iidx.shape[1])):
                return (f"level {level}: index2flatindex is not a bijection onto range(size)", dict(sig, what="flat-bijection"))
            if not np.array_equal(L.unflat()[:, fl], iidx):
                return (f"level {level}: flatindex2index(index2flatindex(i)) != i", dict(sig, what="flat-roundtrip"))
        if level < d:
            Lc = level_data(grid, level + 1)
            ref = L.refined_indices()
            pos = np.ravel_multi_index(tuple(ref), shape)
            if not (L.refined_mask()[pos].all() and int(L.refined_mask().sum()) == ref.shape[1]):
                return (f"level {level}: refined_indices() and _is_index_refined disagree", dict(sig, what="refined"))
            ch = L.children()[:, pos, :]                       # (nd, R, C)
            cpos = np.ravel_multi_index(tuple(ch.reshape(nd, -1)), Lc.shape)
            par = Lc.parent()[:, cpos].reshape(nd, ref.shape[1], -1)
            if not (par == ref[:, :, None]).all():
                return (f"level {level}: parent(children(i)) != i for a refined index", dict(sig, what="parent-child"))
            if len(set(cpos.tolist())) != cpos.size:
                return (f"level {level}: two refined indices share a child", dict(sig, what="children-overlap"))
            if cpos.size != Lc.N:
                return (f"level {level}: children of the refined indices do not cover level {level + 1}",
                        dict(sig, what="children-cover"))
            # per parent: the children never have more volume than the parent ("refinement never creates volume")
            vp = L.vols()[pos]
            vc = Lc.vols()[cpos].reshape(ref.shape[1], -1).sum(axis=1)
            if (vc > vp * (1 + 1e-9)).any():
                return (f"level {level}: the children of a pixel have more volume than the pixel",
                        dict(sig, what="volume-children"))
    return None


def shrink(case):
    spec = case["spec"]

    def cut(s):
        k = s["kind"]
        if k in ("regular", "open"):
            d = len(s["splits"])
            if d > 1:
                t = dict(s, splits=s["splits"][:-1])
                if k == "open":
                    t["padding"] = s["padding"][:-1]
                yield t
            if len(s["shape0"]) > 1:
                for ax in range(len(s["shape0"])):
                    t = dict(s, shape0=s["shape0"][:ax] + s["shape0"][ax + 1:], splits=[r[:ax] + r[ax + 1:] for r in s["splits"]])
                    if k == "open":
                        t["padding"] = [r[:ax] + r[ax + 1:] for r in s["padding"]]
                    yield t
        elif k == "hp" and s["depth"] > 1:
            yield dict(s, depth=s["depth"] - 1)
        elif k == "flat":
            for g in cut(s["grid"]):
                yield dict(s, grid=g)
        elif k == "mgrid":
            for g in s["grids"]:
                yield g
    for s in cut(spec):
        c = dict(case, spec=s)
        c.pop("win", None)
        yield c


# ---- generators ------------------------------------------------------------------------------------------------------
def gen_regular(rng, depth, maxsize):
    for _ in range(50):
        nd = rng.choice([1, 1, 2, 2, 3])
        shape0 = [rng.randrange(1, 5) for _ in range(nd)]
        splits = [[rng.choice([1, 2, 2, 3, 4]) for _ in range(nd)] for _ in range(depth)]
        size = int(np.prod(shape0)) * int(np.prod([np.prod(s) for s in splits]) if splits else 1)
        if size <= maxsize:
            return dict(kind="regular", shape0=shape0, splits=splits)
    return dict(kind="regular", shape0=[2], splits=[[2]] * depth)


def gen_open(rng, depth, maxsize):
    for _ in range(200):
        nd = rng.choice([1, 1, 2, 2, 3])
        shape0 = [rng.randrange(2, 8) for _ in range(nd)]
        splits = [[rng.choice([1, 2, 2, 3]) for _ in range(nd)] for _ in range(depth)]
        padding = [[rng.choice([0, 1, 1, 2]) for _ in range(nd)] for _ in range(depth)]
        shp = list(shape0)
        ok = True
        for s, p in zip(splits, padding):
            shp = [si * (n - 2 * pi) for si, n, pi in zip(s, shp, p)]
            ok = ok and all(n > 0 for n in shp)
        if ok and int(np.prod(shp)) <= maxsize:
            return dict(kind="open", shape0=shape0, splits=splits, padding=padding)
    return dict(kind="open", shape0=[4], splits=[[2]] * depth, padding=[[1]] * depth)


def gen_spec(rng, quick):
    maxsize = 200 if quick else 1500
    depth = rng.choice([0, 1, 1, 2, 2, 3]) if quick else rng.choice([0, 1, 2, 2, 3, 3])
    kind = rng.choice(["regular", "open", "open", "hp", "mgrid", "mgrid", "flat", "flat", "flat", "phys", "phys"])
    if kind == "phys":
        return gen_phys(rng, min(depth, 2))
    if kind == "regular":
        return gen_regular(rng, depth, maxsize)
    if kind == "open":
        return gen_open(rng, depth, maxsize)
    if kind == "hp":
        d = min(depth, 2)
        return dict(kind="hp", nside0=rng.choice([1, 2]) if d < 2 else 1, depth=d)
    if kind == "mgrid":
        depth = min(depth, 2)
        parts = []
        budget = maxsize
        for _ in range(rng.choice([2, 2, 3])):
            sub = rng.choice(["regular", "open", "hp"])
            if sub == "hp" and any(p["kind"] == "hp" for p in parts):
                sub = "regular"
            if sub == "hp":
                g = dict(kind="hp", nside0=1, depth=min(depth, 1) if depth <= 1 else depth)
                if depth > 1:
                    sub = "regular"
            if sub == "regular":
                g = gen_regular(rng, depth, max(4, int(budget ** 0.5)))
            elif sub == "open":
                g = gen_open(rng, depth, max(6, int(budget ** 0.5)))
            parts.append(g)
        return dict(kind="mgrid", grids=parts)
    ordering = rng.choice(["serial", "nest"])
    inner_kind = rng.choice(["regular", "regular", "open", "mgrid", "hp"])
    if ordering == "nest" and inner_kind == "open":
        inner_kind = "regular"
    if inner_kind == "regular":
        g = gen_regular(rng, depth, maxsize)
    elif inner_kind == "open":
        g = gen_open(rng, depth, maxsize)
    elif inner_kind == "hp":
        g = dict(kind="hp", nside0=1, depth=min(depth, 2))
    else:
        depth = min(depth, 2)
        g = dict(kind="mgrid", grids=[gen_regular(rng, depth, 20), gen_regular(rng, depth, 20)])
    return dict(kind="flat", ordering=ordering, grid=g)


def gen_phys(rng, depth):
    k = rng.choice(PHYS_KINDS)
    if k == "simpleopen":
        nd = rng.choice([1, 1, 2])
        sp = dict(kind=k, min_shape=[rng.randrange(3, 7) for _ in range(nd)], depth=depth, window=rng.choice([3, 3, 5]),
                  splits=rng.choice([2, 2, 3]))
        sp["distances"] = rng.choice([None, [rng.choice([0.5, 0.25, 1.5]) for _ in range(nd)]])
        return sp
    sp = dict(kind=k, min_shape=[rng.randrange(4, 9)], depth=depth, window=rng.choice([3, 3, 5]), splits=2,
              r_min=rng.choice([0.5, 1.0, 0.1]), r_max=rng.choice([20.0, 50.0, 8.0]))
    if k == "brokenlog":
        sp["r_linthresh"] = rng.choice([2.0, 4.0, 1.5])
    return sp


def gen_win(rng, spec, nd_axes):
    wins = []
    for a in nd_axes:
        if a["hp"]:
            wins.append(1)
        else:
            wins.append(rng.choice([1, 2, 3, 3, 4, 5]))
    return wins


def _corpus():
    out = []
    for p in sorted(glob.glob(os.path.join(VERIF, "corpus", ID, "*.json"))):
        try:
            d = json.load(open(p))
            out.append(d.get("case", d))
        except Exception:
            pass
    return out


# systematic small families: 1-, 2-, 3- and 4-axis grids with pairwise different axis lengths and different splits per axis,
# for every grid kind and both flat orderings (all indices of all levels are evaluated)
_REG = {
    1: dict(kind="regular", shape0=[3], splits=[[2], [3]]),
    2: dict(kind="regular", shape0=[3, 2], splits=[[2, 3], [1, 2]]),
    3: dict(kind="regular", shape0=[2, 1, 3], splits=[[1, 3, 2], [2, 1, 1]]),
    4: dict(kind="regular", shape0=[1, 2, 3, 2], splits=[[2, 1, 1, 3]]),
}
_OPEN = {
    1: dict(kind="open", shape0=[5], splits=[[2], [3]], padding=[[1], [1]]),
    2: dict(kind="open", shape0=[5, 7], splits=[[2, 3], [2, 1]], padding=[[1, 2], [1, 0]]),
    3: dict(kind="open", shape0=[4, 3, 5], splits=[[1, 2, 3]], padding=[[1, 0, 2]]),
    4: dict(kind="open", shape0=[3, 2, 4, 3], splits=[[2, 1, 1, 2]], padding=[[1, 0, 1, 0]]),
}
FIXED = [_REG[n] for n in (2, 3, 4)] + [_OPEN[n] for n in (2, 3, 4)] + [
    dict(kind="hp", nside0=1, depth=2),
    dict(kind="mgrid", grids=[_REG[1], _OPEN[1]]),
    dict(kind="mgrid", grids=[dict(kind="regular", shape0=[2], splits=[[2]]), dict(kind="hp", nside0=1, depth=1),
                              dict(kind="regular", shape0=[1, 3], splits=[[3, 1]])]),
] + [dict(kind="flat", ordering=o, grid=_REG[n]) for o in ("serial", "nest") for n in (1, 2, 3, 4)] + [
    dict(kind="flat", ordering="serial", grid=_OPEN[n]) for n in (2, 3, 4)] + [
    dict(kind="flat", ordering="nest", grid=dict(kind="hp", nside0=1, depth=1)),
    dict(kind="flat", ordering="serial", grid=dict(kind="mgrid", grids=[_REG[2], dict(kind="regular", shape0=[2], splits=[[3], [1]])])),
    dict(kind="flat", ordering="nest", grid=dict(kind="mgrid", grids=[_REG[2], dict(kind="regular", shape0=[2], splits=[[3], [1]])])),
    dict(kind="simpleopen", min_shape=[5, 4], depth=2, window=3, splits=2, distances=None),
    dict(kind="log", min_shape=[6], depth=2, window=3, splits=2, r_min=0.5, r_max=20.0),
    dict(kind="brokenlog", min_shape=[6], depth=1, window=3, splits=2, r_min=0.5, r_linthresh=2.0, r_max=20.0),
]


class _Job:
    pass


def plan_specs(ctx, specs):
    """phase 1: build the real grids, one batched model call for all `at` requests"""
    jobs, reqs = [], []
    for spec in specs:
        j = _Job()
        j.spec = spec
        j.inner = spec["grid"] if spec["kind"] == "flat" else spec
        j.lvs = leaves(j.inner)
        j.d = depth_of(spec)
        try:
            j.grid = build(spec)
        except Exception as e:     # every generated specification is valid: the real constructor failing is a disagreement
            ctx.compare(dict(spec=spec, what="build"), {"error": type(e).__name__ + ":" + str(e)[:80]}, "ok",
                        note="C31 real grid constructor raised on a valid specification")
            continue
        j.igrid = j.grid.grid if spec["kind"] == "flat" else j.grid
        if spec["kind"] in PHYS_KINDS:
            j.inner = derive_open(spec, j.grid)
            if spec["kind"] == "log":
                j.inner["_offset"] = float(np.log(spec["r_min"]))
                j.inner["_scale"] = float(np.log(spec["r_max"]) - np.log(spec["r_min"]))
            j.lvs = [j.inner]
        j.at_slices = []
        for lf in j.lvs:
            rq = at_requests(lf)
            j.at_slices.append((len(reqs), len(reqs) + len(rq)))
            reqs += rq
        jobs.append(j)
    outs = ctx.model(DRIVER, reqs) if reqs else []
    for j in jobs:
        j.ats = [outs[a:b] for a, b in j.at_slices]
    return jobs


def check_ats(ctx, j):
    subs = j.igrid.grids if j.inner["kind"] == "mgrid" else [j.igrid]
    for li, (lf, sg) in enumerate(zip(j.lvs, subs)):
        if lf["kind"] == "hp":
            continue
        for l in range(j.d + 1):
            ga = sg.at(l)
            real = dict(shape=[int(x) for x in ga.shape],
                        shifts=[int(x) for x in ga.shifts] if hasattr(ga, "shifts") else [0] * len(lf["shape0"]))
            mod = j.ats[li][l]
            if lf.get("phys"):       # physical shifts are real numbers (checked through the coordinates): compare shapes
                real, mod = dict(shape=real["shape"]), dict(shape=mod.get("shape"))
            ctx.compare(dict(spec=lf, level=l, what="at"), real, mod, note="C31 Grid.at: shape / shifts",
                        nontrivial=l > 0)


def level_requests(j, win_rng):
    d, spec = j.d, j.spec
    j.axes = []
    for l in range(d + 1):
        ax = []
        for li, lf in enumerate(j.lvs):
            ax += leaf_axes(lf, l, j.ats[li])
        if j.inner.get("phys"):
            ga = j.igrid.at(l)
            for k_, a in enumerate(ax):
                a["csh"], a["cdist"] = _fs(ga.shifts[k_]), _fs(ga.distances[k_])
        j.axes.append(ax)
    j.win = gen_win(win_rng, spec, j.axes[0])
    reqs = []
    for l in range(d + 1):
        reqs.append(dict(op="level", axes=_strip(j.axes[l]), hasChildren=l < d, hasParent=l > 0, win=j.win))
    if spec["kind"] == "flat":
        for l in range(d + 1):
            reqs.append(dict(op="flat", o=spec["ordering"], axes=_strip(j.axes[l]),
                             bases=[[a["s"] for a in j.axes[m]] for m in range(l)],
                             childShape=[a["n"] for a in j.axes[l + 1]] if l < d else [],
                             parentShape=[a["n"] for a in j.axes[l - 1]] if l > 0 else [],
                             hasChildren=l < d, hasParent=l > 0, win=j.win))
    return reqs


def check_levels(ctx, j, outs):
    d, spec = j.d, j.spec
    for l in range(d + 1):
        try:
            real = real_level(j.igrid, l, j.axes[l], j.win)
        except Exception as e:
            ctx.compare(dict(spec=spec, level=l), _err(e), "ok", note="C31 real code raised on a valid grid level")
            continue
        compare_level(ctx, j.inner, l, real, outs[l])
        ctx.stat("level-size<%d" % (10 ** len(str(max(1, len(real["items"]) - 1)))))
    if spec["kind"] == "flat":
        for l in range(d + 1):
            try:
                real = real_flat(j.grid, l, j.win)
            except Exception as e:
                ctx.compare(dict(spec=spec, level=l), _err(e), "ok", note="C31 real FlatGrid raised on a valid level")
                continue
            ctx.compare(dict(spec=spec, level=l, what="flat"), real, outs[d + 1 + l],
                        note=f"C31 FlatGrid({spec['ordering']}) level {l}: flat index maps, children, parent, neighbourhood",
                        nontrivial=d >= 1)
    ctx.stat("kind:" + spec["kind"] + (":" + spec["ordering"] if spec["kind"] == "flat" else ""))
    ctx.stat("depth=%d" % d)
    r = oracle(dict(spec=spec, win=j.win), grid=j.grid)
    if r:
        ctx.counterexample(dict(spec=spec, win=j.win), *r)


def check_specs(ctx, specs):
    jobs = plan_specs(ctx, specs)
    reqs, slices = [], []
    for j in jobs:
        check_ats(ctx, j)
        rq = level_requests(j, ctx.rng)
        slices.append((len(reqs), len(reqs) + len(rq)))
        reqs += rq
    mreqs, mreals = misc_requests(ctx)
    treqs, treals = translator_requests()
    mreqs, mreals = mreqs + treqs, mreals + treals
    outs = ctx.model(DRIVER, reqs + mreqs)
    for j, (a, b) in zip(jobs, slices):
        check_levels(ctx, j, outs[a:b])
    for rq, re_, mo in zip(mreqs, mreals, outs[len(reqs):]):
        ctx.compare(rq, re_, mo, note="C31 " + rq["op"], nontrivial=True)
        ctx.stat("misc:" + rq["op"])


def translator_requests():
    """validate translators/t_gridweights.py: generated Lean definition vs the Python original on a grid of shapes"""
    _jax()
    from nifty.re.multi_grid.grid import FlatGrid, Grid
    import itertools
    reqs, reals = [], []
    for nd in (1, 2, 3, 4):
        for shape in itertools.product((1, 2, 3), repeat=nd):
            fa = FlatGrid(Grid(shape0=shape, splits=()), ordering="serial").at(0)
            reals.append([int(x) for x in fa._weights_serial(0)])
            reqs.append(dict(op="weightsSerialGen", shape=list(shape)))
    return reqs, reals


def misc_requests(ctx):
    """_parse_index (negative / out-of-range indices) and coord2index on arbitrary rationals (class F)"""
    _jax()
    from nifty.re.multi_grid.grid import GridAtLevel, OpenGridAtLevel
    reqs, reals = [], []
    for n in range(1, 9):
        is_ = list(range(-2 * n - 2, 2 * n + 3))
        g = GridAtLevel(shape=(n,))
        reals.append(np.asarray(g._parse_index(np.array([is_]))).reshape(-1).tolist())
        reqs.append(dict(op="parseIndex", n=n, **{"is": is_}))
    for _ in range(ctx.n(40, 300)):
        n, sh = ctx.rng.randrange(1, 12), ctx.rng.randrange(0, 6)
        g = OpenGridAtLevel(shape=(n,), shifts=(sh,))
        xs = [ctx.rng.randrange(-64, 192) / 128.0 for _ in range(16)]
        # keep away from rounding ties: float(coord*(n+2sh)) is not exact, compare only with margin
        keep = []
        for x in xs:
            raw = Fraction(x) * (n + 2 * sh) - sh - Fraction(1, 2)
            frac = raw - np.floor(float(raw))
            if abs(float(frac) - 0.5) > 1e-6:
                keep.append(x)
            else:
                ctx.skipped_near_threshold += 1
        if not keep:
            continue
        reals.append(np.asarray(g.coord2index(np.array([keep]))).reshape(-1).astype(int).tolist())
        reqs.append(dict(op="coord2index", n=n, sh=sh, xs=[str(Fraction(x)) for x in keep]))
    return reqs, reals


def run(ctx):
    _jax()
    specs = [c["spec"] for c in _corpus()] + FIXED
    for _ in range(ctx.n(2, 50)):
        specs.append(gen_spec(ctx.rng, ctx.quick))
    check_specs(ctx, specs)
    ctx.extra["exhaustive_per_grid"] = "every index of every level of every generated grid"


def search(ctx):
    for _ in range(40):
        spec = gen_spec(ctx.rng, True)
        r = oracle(dict(spec=spec))
        if r:
            ctx.counterexample(dict(spec=spec), *r)
            return
