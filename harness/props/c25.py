"""C25 — The classic VI driver resumes after a crash with identical results (DESIGN.md §5 C25)."""
import hashlib
import json
import os
import shutil
import tempfile

from core.ctx import REPO
from props import _crash_fsfault as F

ID = "C25"
VOLATILE = ("minisanity.txt", "counting_report.txt")      # contain datetime.now(): never compared byte-wise


# ------------------------------------------------------------------------------------------------ inside the workers
def _setup(cfg):
    """build the tiny model; return drive(odir, resume, copy_to=None) -> result dict (runs the REAL nifty.cl.optimize_kl)"""
    import numpy as np
    import nifty.cl as ift

    sp = ift.RGSpace(4)
    xi = ift.ducktape(sp, None, "xi")
    sig = (0.5 * xi).exp() + xi
    rng = np.random.default_rng(int(cfg.get("seed", 0)))
    data = ift.makeField(sp, rng.integers(-2, 3, size=4).astype(np.float64))
    lh = ift.GaussianEnergy(data=data, inverse_covariance=ift.ScalingOperator(sp, 4.0, sampling_dtype=np.float64)) @ sig
    ic = ift.AbsDeltaEnergyController(deltaE=0.1, iteration_limit=5)
    mini = ift.NewtonCG(ift.AbsDeltaEnergyController(deltaE=0.1, iteration_limit=3))
    nl = ift.NewtonCG(ift.AbsDeltaEnergyController(deltaE=0.1, iteration_limit=2)) if cfg.get("geovi") else None
    n_it = [0]
    orig_min = ift.NewtonCG.__call__

    def counting_call(self, energy, *a, **kw):   # iterations really performed by one call of the driver
        if self is mini:
            n_it[0] += 1
        return orig_min(self, energy, *a, **kw)
    ift.NewtonCG.__call__ = counting_call
    n_samples = int(cfg.get("n_samples", 1))

    def drive(odir, resume, copy_to=None):
        # a fresh process: module-level RNG state as after import, then the user's seed
        ift.random._sseq[:] = [np.random.SeedSequence(42)]
        ift.random._rng[:] = [np.random.default_rng(ift.random._sseq[-1])]
        ift.random.push_sseq_from_seed(int(cfg.get("seed", 0)) + 11)
        depth0 = len(ift.random._sseq)
        n_it[0] = 0
        kw = {}
        if copy_to:
            def cb(sl, iglobal):  # reference run only: keep every iteration's directory content (outside odir)
                shutil.copytree(odir, os.path.join(copy_to, str(iglobal)))
            kw["inspect_callback"] = cb
        sl, mean = ift.optimize_kl(
            lh, int(cfg["n"]), n_samples, mini, ic if n_samples else None, nonlinear_sampling_minimizer=nl,
            export_operator_outputs={"sig": sig} if cfg.get("export") else {}, output_directory=odir,
            save_strategy=cfg.get("strategy", "latest"), resume=bool(resume), return_final_position=True,
            plot_energy_history=bool(cfg.get("plots")), plot_minisanity_history=bool(cfg.get("plots")), **kw)
        h = hashlib.sha1()
        for k in sorted(mean.keys()):
            h.update(k.encode())
            h.update(np.ascontiguousarray(mean[k].val.asnumpy()).tobytes())
        hs = hashlib.sha1()
        ns = 0
        for s in sl.iterator():
            ns += 1
            for k in sorted(s.keys()):
                hs.update(np.ascontiguousarray(s[k].val.asnumpy()).tobytes())
        return dict(mean=h.hexdigest(), samples=hs.hexdigest(), n_samples=ns, iterations=n_it[0],
                    sseq_depth=len(ift.random._sseq) - depth0)
    return drive


def worker(args):
    """one real process = one call of the driver (killed by os._exit at the point given to the injector)"""
    drive = _setup(args["cfg"])
    res = drive(args["odir"], args["resume"])
    with open(args["result"], "w") as fh:
        json.dump(res, fh)


def _load_ref(cp, n):
    """reference copies: {iteration: {relpath: bytes}} of the directory after each iteration"""
    ref = {}
    for i in range(n):
        d = os.path.join(cp, str(i))
        ref[i] = {}
        for root, _, files in os.walk(d):
            for fn in files:
                p = os.path.join(root, fn)
                ref[i][os.path.relpath(p, d)] = open(p, "rb").read()
    return ref


def _classify(rel, b, ref):
    """status class of one file: value:<text> for the marker, complete:<i> / partial / empty / garbage for pickles"""
    if rel.startswith("last_finished_iteration"):
        t = b.decode("latin1")
        return "empty" if t == "" else f"value:{t}"
    if not b:
        return "empty"
    base = os.path.basename(rel)
    cand = [rel]
    if base.startswith(".") and base.endswith(".tmp"):      # sample temp file  .NAME.tmp  -> NAME
        cand.append(os.path.join(os.path.dirname(rel), base[1:-4]))
    elif rel.endswith(".tmp"):
        cand.append(rel[:-4])
    its = [i for i in sorted(ref) for c in cand if ref[i].get(c) == b]
    if its:
        return f"complete:{its[0]}" if "nifty_random_state" not in rel else "complete"
    if any(ref[i].get(c, b"").startswith(b) for i in ref for c in cand):
        return "partial"
    return "garbage"


def _files(odir, ref):
    out = {}
    if not os.path.isdir(odir):
        return out
    for root, _, files in os.walk(odir):
        for fn in files:
            p = os.path.join(root, fn)
            rel = os.path.relpath(p, odir)
            if rel in VOLATILE:
                out[rel] = "present"
            elif rel.endswith((".png", ".hdf5")):
                out[rel] = "opaque"
            else:
                out[rel] = _classify(rel, open(p, "rb").read(), ref)
    return dict(sorted(out.items()))


def _snap(odir):
    """sha1 per file, without the files that contain wall-clock time"""
    if not os.path.isdir(odir):
        return {}
    return {k: v for k, v in F.snapshot(odir).items() if k not in VOLATILE and not k.endswith((".png", ".hdf5"))}


def session(args):
    """one process, many scenarios, SIMULATED kills (F.simulate): reference run first, then for every scenario the
    successive killed runs and the final unkilled resume.  Output (json) -> args['out']."""
    cfg = args["cfg"]
    drive = _setup(cfg)
    w = args["work"]
    cp = os.path.join(w, "copies")
    shutil.rmtree(cp, ignore_errors=True)
    os.makedirs(cp)
    rdir = os.path.join(w, "ref", "out")
    r = F.simulate(lambda: drive(rdir, cfg.get("r0", False), copy_to=cp), rdir)
    out = dict(ref=dict(status=r["status"], exc=r["exc"], res=r["value"], ops=r["ops"], coarse=F.coarse(r["ops"])), scen={})
    if r["status"] != "done":
        json.dump(out, open(args["out"], "w"))
        return
    ref = _load_ref(cp, cfg["n"])
    out["ref"]["files"] = _files(rdir, ref)
    for sc in args["scenarios"]:
        odir = os.path.join(w, f"s{sc['sid']}", "out")
        shutil.rmtree(os.path.dirname(odir), ignore_errors=True)
        os.makedirs(os.path.dirname(odir))
        kills = sc["kills"]
        stages, resume = [], bool(cfg.get("r0", False))
        for kill in kills:
            k = F.simulate(lambda: drive(odir, resume), odir, kill)
            stages.append(dict(status=k["status"], exc=k["exc"], files=_files(odir, ref), snap=_snap(odir),
                               coarse=F.coarse(k["ops"]), killed=k["killed"], kill=kill, res=k["value"]))
            resume = True
            if k["status"] == "error":
                break
        k = F.simulate(lambda: drive(odir, True), odir, None)
        final = dict(status=k["status"], exc=k["exc"], res=k["value"], files=_files(odir, ref), snap=_snap(odir),
                     coarse=F.coarse(k["ops"]),
                     reads=sorted({q["path"] for q in k["queries"] if q["q"] == "read"}))
        out["scen"][str(sc["sid"])] = dict(kills=kills, stages=stages, final=final)
        shutil.rmtree(os.path.dirname(odir), ignore_errors=True)
    json.dump(out, open(args["out"], "w"))


# ------------------------------------------------------------------------------------------------ harness side
_WORK = None
_POOL = None
_SESS = {}


class Infra(Exception):
    pass


def _cleanup():
    if _POOL is not None:
        _POOL.close()
    if _WORK and not os.environ.get("VERIF_KEEP"):
        shutil.rmtree(_WORK, ignore_errors=True)


def _work():
    global _WORK
    if _WORK is None:
        import atexit
        _WORK = tempfile.mkdtemp(prefix="c25_")
        atexit.register(_cleanup)
    return _WORK


def _pool():
    global _POOL
    if _POOL is None:
        _POOL = F.Pool(int(os.environ.get("VERIF_WORKERS", "6")), preload=("numpy", "scipy.sparse.linalg", "nifty.cl"),
                       env={"NIFTY_REPO": REPO})
    return _POOL


def _run_session(tag, cfg, scenarios):
    w = os.path.join(_work(), "sess_" + tag)
    shutil.rmtree(w, ignore_errors=True)
    os.makedirs(w)
    outp = os.path.join(w, "out.json")
    job = dict(root=os.path.join(w, "unused_root"), log=os.path.join(w, "log"), target="props.c25:session", repo=REPO,
               kill_at=None, args=dict(cfg=cfg, scenarios=scenarios, out=outp, work=w))
    rc, err = _pool().run(job, timeout=1500)
    if rc != 0 or not os.path.exists(outp):
        e = open(job["log"] + ".err").read() if os.path.exists(job["log"] + ".err") else ""
        raise Infra(f"session {tag} failed rc={rc} {e} {err[-400:]}")
    return json.load(open(outp))


def _run_real(tag, odir, cfg, resume, kill=None):
    w = _work()
    log = os.path.join(w, tag + ".log")
    resf = os.path.join(w, tag + ".res")
    for f in (log, resf, log + ".err"):
        if os.path.exists(f):
            os.unlink(f)
    job = dict(root=odir, log=log, target="props.c25:worker", repo=REPO,
               kill_at=None if kill is None else kill["at"], when=(kill or {}).get("when", "before"),
               frac=(kill or {}).get("frac", [1, 2]), args=dict(cfg=cfg, odir=odir, resume=resume, result=resf))
    rc, err = _pool().run(job, timeout=900)
    ops, qs, killed = F.read_log(log)
    res = json.load(open(resf)) if os.path.exists(resf) else None
    e = json.load(open(log + ".err")) if os.path.exists(log + ".err") else None
    return dict(rc=rc, err=err, res=res, ops=ops, killed=killed, exc=e)


def _scenario_real(sid, cfg, kills):
    odir = os.path.join(_work(), f"real{sid}", "out")
    shutil.rmtree(os.path.dirname(odir), ignore_errors=True)
    os.makedirs(os.path.dirname(odir))
    stages, resume = [], bool(cfg.get("r0", False))
    st_of = {0: "done", F.EXIT_KILLED: "killed", F.EXIT_ERROR: "error"}
    for j, kill in enumerate(kills):
        r = _run_real(f"real{sid}_k{j}", odir, cfg, resume, kill)
        stages.append(dict(status=st_of.get(r["rc"], f"rc={r['rc']}"), exc=r["exc"], snap=_snap(odir), killed=r["killed"],
                           coarse=F.coarse(r["ops"])))
        resume = True
        if r["rc"] not in (0, F.EXIT_KILLED):
            break
    r = _run_real(f"real{sid}_fin", odir, cfg, True)
    final = dict(status=st_of.get(r["rc"], f"rc={r['rc']}"), exc=r["exc"], res=r["res"], snap=_snap(odir),
                 coarse=F.coarse(r["ops"]))
    shutil.rmtree(os.path.dirname(odir), ignore_errors=True)
    return dict(kills=kills, stages=stages, final=final)


def _window(cfg, sc):
    """where (in the driver's protocol) the first kill hit: used in the signature of a failure"""
    k = (sc["stages"][0].get("killed") or {}).get("killed", "") if sc["stages"] else ""
    return k


def _judge(cfg, sc, refres):
    """the property on the real code: every restart gets past loading, the unkilled resume finishes and returns the same
    (samples, mean) as the uninterrupted run.  -> None | (what, signature)"""
    fin = sc["final"]
    where = "; ".join(f"{(st.get('killed') or {}).get('killed', 'not killed')}" for st in sc["stages"])
    strat = cfg.get("strategy", "latest")
    for st in list(sc["stages"]) + [fin]:
        if str(st["status"]).startswith("rc="):
            raise Infra(f"worker failed: {st['status']}")
        if st["status"] == "error":
            e = (st["exc"] or {}).get("error", "?")
            return (f"[{strat}] optimize_kl(resume=True) raised {e} ({(st['exc'] or {}).get('msg', '')[:80]}) after an "
                    f"earlier kill [{where}]: resuming is impossible",
                    dict(driver="cl.optimize_kl", strategy=strat, phase="resume", error=e,
                         site=(st["exc"] or {}).get("site", "")))
    for st in sc["stages"]:
        if st["status"] == "done" and st.get("res") is not None and (
                st["res"]["mean"] != refres["mean"] or st["res"]["samples"] != refres["samples"]):
            return (f"[{strat}] a resumed run after kill [{where}] finished with different (samples, mean)",
                    dict(driver="cl.optimize_kl", strategy=strat, phase="result", error="different-result"))
    r = fin["res"]
    if r is None or r["mean"] != refres["mean"] or r["samples"] != refres["samples"] or r["n_samples"] != refres["n_samples"]:
        return (f"[{strat}] resume=True after kill [{where}] finished with different (samples, mean) than the "
                f"uninterrupted run (mean equal: {bool(r) and r['mean'] == refres['mean']}, samples equal: "
                f"{bool(r) and r['samples'] == refres['samples']}): silently wrong",
                dict(driver="cl.optimize_kl", strategy=strat, phase="result", error="different-result"))
    return None
