"""C25 — The classic VI driver resumes after a crash with identical results (DESIGN.md §5 C25)."""
import hashlib
import json
import os
import shutil
import tempfile

from core.ctx import REPO
from props import _crash_fsfault as F

ID = "C25"
LEAN_MODULES = ["NiftyVerif.Props.C25"]
DRIVER = "Driver/C25.lean"
OBLIGATIONS = ["NiftyVerif.C25." + t for t in (
    "crash_safe_all", "crash_safe_all_single", "marker_implies_complete", "uninterrupted_all", "natSys_lawful",
    "natSys_map_lawful",
    "asFound_marker_truncated", "asFound_marker_before_history", "asFound_marker_before_minisanity_history",
    "asFound_latest_in_place", "atomicOnly_latest_window_witness", "crash_safe_latest", "crash_safe_latest_single",
    "marker_implies_complete_latest")]
RULE = ("case = (configuration incl. save strategy, kill points of successive runs, then an unkilled resume); ALL single "
        "kill points of the MODEL's byte-granular operation sequence (every op boundary and every position inside a "
        "write) plus random double kills are mapped to the real run and executed on the real driver with simulated "
        "kills; a sample and every distinct failure is re-executed with real process kills (os._exit) and must give "
        "byte-identical directories; non-trivial = first kill strictly inside the run; distinct by (cfg, kills)")
TRUSTED_BASE = [
    "Lean 4.33 kernel; axioms propext/Classical.choice/Quot.sound only (audited every run)",
    "hand-written model Model/CrashCl.lean of optimize_kl's file protocol, ResidualSampleList.save/load and the resume "
    "branch, tied by (a) equality of the recorded real op sequence with the model's for the first and every resumed "
    "run, (b) equality of the per-file status class (absent/empty/partial/complete:i, marker value) after every kill "
    "and after the resumed run, (c) equality of the outcome (finished / kind of exception)",
    "Lawful: pickle round trip of the sample/mean files, histories and random state; str/int round trip of the marker; "
    "an iteration is a deterministic function of (iteration index, sample list, mean) once the random state is restored "
    "— observed by the oracle (bitwise equal samples and mean), not proved",
    "fault injector harness/props/_crash_fsfault.py (see C24)",
]
ASSUMPTIONS = [
    "a crash is a process kill; power loss is outside the model", "os.replace is atomic",
    "single task (comm=None); the restarted call gets the same arguments",
    "MAP runs (n_samples = 0: one sample file, no mean file, resume through SampleList.load) are instances of the model "
    "(encMean = none); runs mixing VI and MAP iterations are covered by the oracle only",
]
VOLATILE = ("minisanity.txt", "counting_report.txt")      # contain datetime.now(): never compared byte-wise


# ------------------------------------------------------------------------------------------------ inside the workers
def _setup(cfg):
    """build the tiny model; return drive(odir, resume, copy_to=None) -> result dict (runs the REAL nifty.cl.optimize_kl)"""
    import numpy as np
    import nifty.cl as ift

    sp = ift.RGSpace(4)
    xi = ift.ducktape(sp, None, "xi")
    sig = (0.5 * xi).exp() + xi
    rng = np.random.default_rng(int(cfg.get("seed", 0)))
    data = ift.makeField(sp, rng.integers(-2, 3, size=4).astype(np.float64))
    lh = ift.GaussianEnergy(data=data, inverse_covariance=ift.ScalingOperator(sp, 4.0, sampling_dtype=np.float64)) @ sig
    ic = ift.AbsDeltaEnergyController(deltaE=0.1, iteration_limit=5)
    mini = ift.NewtonCG(ift.AbsDeltaEnergyController(deltaE=0.1, iteration_limit=3))
    nl = ift.NewtonCG(ift.AbsDeltaEnergyController(deltaE=0.1, iteration_limit=2)) if cfg.get("geovi") else None
    n_it = [0]
    orig_min = ift.NewtonCG.__call__

    def counting_call(self, energy, *a, **kw):   # iterations really performed by one call of the driver
        if self is mini:
            n_it[0] += 1
        return orig_min(self, energy, *a, **kw)
    ift.NewtonCG.__call__ = counting_call
    n_samples = int(cfg.get("n_samples", 1))
    ns_list = cfg.get("ns_list")      # per-iteration n_samples (0 = MAP iteration without sampling controller)

    def drive(odir, resume, copy_to=None):
        # a fresh process: module-level RNG state as after import, then the user's seed
        ift.random._sseq[:] = [np.random.SeedSequence(42)]
        ift.random._rng[:] = [np.random.default_rng(ift.random._sseq[-1])]
        ift.random.push_sseq_from_seed(int(cfg.get("seed", 0)) + 11)
        depth0 = len(ift.random._sseq)
        n_it[0] = 0
        kw = {}
        if copy_to:
            def cb(sl, iglobal):  # reference run only: keep every iteration's directory content (outside odir)
                shutil.copytree(odir, os.path.join(copy_to, str(iglobal)))
            kw["inspect_callback"] = cb
        ns_arg, ic_arg = n_samples, (ic if n_samples else None)
        if ns_list:
            ns_arg, ic_arg = (lambda i: ns_list[i]), (lambda i: ic if ns_list[i] else None)
        sl, mean = ift.optimize_kl(
            lh, int(cfg["n"]), ns_arg, mini, ic_arg, nonlinear_sampling_minimizer=nl,
            export_operator_outputs={"sig": sig} if cfg.get("export") else {}, output_directory=odir,
            save_strategy=cfg.get("strategy", "latest"), resume=bool(resume), return_final_position=True,
            plot_energy_history=bool(cfg.get("plots")), plot_minisanity_history=bool(cfg.get("plots")), **kw)
        h = hashlib.sha1()
        for k in sorted(mean.keys()):
            h.update(k.encode())
            h.update(np.ascontiguousarray(mean[k].val.asnumpy()).tobytes())
        hs = hashlib.sha1()
        ns = 0
        for s in sl.iterator():
            ns += 1
            for k in sorted(s.keys()):
                hs.update(np.ascontiguousarray(s[k].val.asnumpy()).tobytes())
        return dict(mean=h.hexdigest(), samples=hs.hexdigest(), n_samples=ns, iterations=n_it[0],
                    sseq_depth=len(ift.random._sseq) - depth0)
    return drive


def worker(args):
    """one real process = one call of the driver (killed by os._exit at the point given to the injector)"""
    drive = _setup(args["cfg"])
    res = drive(args["odir"], args["resume"])
    with open(args["result"], "w") as fh:
        json.dump(res, fh)


def _load_ref(cp, n):
    """reference copies: {iteration: {relpath: bytes}} of the directory after each iteration"""
    ref = {}
    for i in range(n):
        d = os.path.join(cp, str(i))
        ref[i] = {}
        for root, _, files in os.walk(d):
            for fn in files:
                p = os.path.join(root, fn)
                ref[i][os.path.relpath(p, d)] = open(p, "rb").read()
    return ref


def _canon_obj(o, depth=0):
    """canonical, value-based view of an unpickled object (pickle bytes of equal objects may differ: memo/identity)"""
    import numpy as np
    if depth > 6:
        return "deep"
    if o is None or isinstance(o, (bool, int, float, str)):
        return o
    if isinstance(o, (np.floating, np.integer)):
        return o.item()
    if isinstance(o, np.ndarray):
        return hashlib.sha1(np.ascontiguousarray(o).tobytes()).hexdigest()
    if hasattr(o, "asnumpy"):
        return _canon_obj(o.asnumpy(), depth + 1)
    if hasattr(o, "keys") and hasattr(o, "domain"):          # MultiField
        return {k: _canon_obj(o[k].val, depth + 1) for k in sorted(o.keys())}
    if hasattr(o, "val") and hasattr(o, "domain"):           # Field
        return _canon_obj(o.val, depth + 1)
    if hasattr(o, "time_stamps") and hasattr(o, "energy_values"):
        return [_canon_obj(list(o.time_stamps), depth + 1), _canon_obj(list(o.energy_values), depth + 1)]
    if isinstance(o, dict):
        return {str(k): _canon_obj(v, depth + 1) for k, v in sorted(o.items(), key=lambda kv: str(kv[0]))}
    if isinstance(o, (list, tuple)):
        return [_canon_obj(v, depth + 1) for v in o]
    return type(o).__name__


def _digest(b):
    """value digest of a pickle file; None if it does not load"""
    import pickle
    try:
        o = pickle.loads(b)
    except Exception:
        return None
    return hashlib.sha1(json.dumps(_canon_obj(o), sort_keys=True, default=str).encode()).hexdigest()


_DIG = {}


def _classify(rel, b, ref):
    """status class of one file: value:<text> for the marker, complete:<i> / partial / empty / garbage for pickles
    (complete:<i> = loads and has the VALUE of the file the uninterrupted run wrote in iteration i; partial = non-empty and
    does not unpickle; garbage = unpickles to a value the uninterrupted run never wrote)"""
    if rel.startswith("last_finished_iteration"):
        t = b.decode("latin1")
        return "empty" if t == "" else f"value:{t}"
    if not b:
        return "empty"
    base = os.path.basename(rel)
    cand = [rel]
    if base.startswith(".") and base.endswith(".tmp"):      # sample temp file  .NAME.tmp  -> NAME
        cand.append(os.path.join(os.path.dirname(rel), base[1:-4]))
    elif rel.endswith(".tmp"):
        cand.append(rel[:-4])
    its = [i for i in sorted(ref) for c in cand if ref[i].get(c) == b]
    if its:
        return f"complete:{its[0]}" if "nifty_random_state" not in rel else "complete"
    if any(ref[i].get(c, b"").startswith(b) for i in ref for c in cand):
        return "partial"
    d = _digest(b)
    if d is None:
        # does not unpickle: a truncated file (a run that was resumed writes value-equal but not byte-equal pickles, so a
        # prefix test against the reference bytes is not reliable)
        return "partial"
    if d is not None:
        for i in sorted(ref):
            for c in cand:
                rb = ref[i].get(c)
                if rb is not None:
                    if (i, c) not in _DIG:
                        _DIG[(i, c)] = _digest(rb)
                    if _DIG[(i, c)] == d:
                        return f"complete:{i}" if "nifty_random_state" not in rel else "complete"
    return "garbage"


def _files(odir, ref):
    out = {}
    if not os.path.isdir(odir):
        return out
    for root, _, files in os.walk(odir):
        for fn in files:
            p = os.path.join(root, fn)
            rel = os.path.relpath(p, odir)
            if rel in VOLATILE:
                out[rel] = "present"
            elif rel.endswith((".png", ".hdf5")):
                out[rel] = "opaque"
            else:
                out[rel] = _classify(rel, open(p, "rb").read(), ref)
    return dict(sorted(out.items()))


def _snap(odir):
    """sha1 per file, without the files that contain wall-clock time"""
    if not os.path.isdir(odir):
        return {}
    return {k: v for k, v in F.snapshot(odir).items() if k not in VOLATILE and not k.endswith((".png", ".hdf5"))}


def session(args):
    """one process, many scenarios, SIMULATED kills (F.simulate): reference run first, then for every scenario the
    successive killed runs and the final unkilled resume.  Output (json) -> args['out']."""
    cfg = args["cfg"]
    drive = _setup(cfg)
    w = args["work"]
    cp = os.path.join(w, "copies")
    shutil.rmtree(cp, ignore_errors=True)
    os.makedirs(cp)
    rdir = os.path.join(w, "ref", "out")
    r = F.simulate(lambda: drive(rdir, cfg.get("r0", False), copy_to=cp), rdir)
    out = dict(ref=dict(status=r["status"], exc=r["exc"], res=r["value"], ops=r["ops"], coarse=F.coarse(r["ops"], drop_noop_mkdir=False)), scen={})
    if r["status"] != "done":
        json.dump(out, open(args["out"], "w"))
        return
    ref = _load_ref(cp, cfg["n"])
    out["ref"]["files"] = _files(rdir, ref)
    for sc in args["scenarios"]:
        odir = os.path.join(w, f"s{sc['sid']}", "out")
        shutil.rmtree(os.path.dirname(odir), ignore_errors=True)
        os.makedirs(os.path.dirname(odir))
        kills = sc["kills"]
        stages, resume = [], bool(cfg.get("r0", False))
        for kill in kills:
            k = F.simulate(lambda: drive(odir, resume), odir, kill)
            stages.append(dict(status=k["status"], exc=k["exc"], files=_files(odir, ref), snap=_snap(odir),
                               coarse=F.coarse(k["ops"], drop_noop_mkdir=False), killed=k["killed"], kill=kill, res=k["value"]))
            resume = True
            if k["status"] == "error":
                break
        k = F.simulate(lambda: drive(odir, True), odir, None)
        final = dict(status=k["status"], exc=k["exc"], res=k["value"], files=_files(odir, ref), snap=_snap(odir),
                     coarse=F.coarse(k["ops"], drop_noop_mkdir=False),
                     reads=sorted({q["path"] for q in k["queries"] if q["q"] == "read"}))
        out["scen"][str(sc["sid"])] = dict(kills=kills, stages=stages, final=final)
        shutil.rmtree(os.path.dirname(odir), ignore_errors=True)
    json.dump(out, open(args["out"], "w"))


# ------------------------------------------------------------------------------------------------ harness side
_WORK = None
_POOL = None
_SESS = {}
_BUDGET = [int(os.environ.get("VERIF_ORACLE_BUDGET", "14"))]


class Infra(Exception):
    pass


def _cleanup():
    if _POOL is not None:
        _POOL.close()
    if _WORK and not os.environ.get("VERIF_KEEP"):
        shutil.rmtree(_WORK, ignore_errors=True)


def _work():
    global _WORK
    if _WORK is None:
        import atexit
        _WORK = tempfile.mkdtemp(prefix="c25_")
        atexit.register(_cleanup)
    return _WORK


def _pool():
    global _POOL
    if _POOL is None:
        # fork server: the classic variant is single-threaded after import (checked: 1 OS thread), so forking the
        # pre-imported interpreter is safe and saves the ~4 s import of nifty.cl in each of the ~40 processes of a run
        _POOL = F.Pool(int(os.environ.get("VERIF_WORKERS", "6")), preload=("numpy", "scipy.sparse.linalg", "nifty.cl"),
                       env={"NIFTY_REPO": REPO}, fork=not os.environ.get("VERIF_NO_FORK"))
    return _POOL


_SEQ = [0]


def _run_session(tag, cfg, scenarios):
    _SEQ[0] += 1
    w = os.path.join(_work(), f"sess_{tag}_{_SEQ[0]}")
    shutil.rmtree(w, ignore_errors=True)
    os.makedirs(w)
    outp = os.path.join(w, "out.json")
    job = dict(root=os.path.join(w, "unused_root"), log=os.path.join(w, "log"), target="props.c25:session", repo=REPO,
               kill_at=None, args=dict(cfg=cfg, scenarios=scenarios, out=outp, work=w))
    rc, err = _pool().run(job, timeout=1500)
    if rc != 0 or not os.path.exists(outp):
        e = open(job["log"] + ".err").read() if os.path.exists(job["log"] + ".err") else ""
        raise Infra(f"session {tag} failed rc={rc} {e} {err[-400:]}")
    return json.load(open(outp))


def _run_real(tag, odir, cfg, resume, kill=None):
    w = _work()
    log = os.path.join(w, tag + ".log")
    resf = os.path.join(w, tag + ".res")
    for f in (log, resf, log + ".err"):
        if os.path.exists(f):
            os.unlink(f)
    job = dict(root=odir, log=log, target="props.c25:worker", repo=REPO,
               kill_at=None if kill is None else kill["at"], when=(kill or {}).get("when", "before"),
               frac=(kill or {}).get("frac", [1, 2]), args=dict(cfg=cfg, odir=odir, resume=resume, result=resf))
    rc, err = _pool().run(job, timeout=900)
    ops, qs, killed = F.read_log(log)
    res = json.load(open(resf)) if os.path.exists(resf) else None
    e = json.load(open(log + ".err")) if os.path.exists(log + ".err") else None
    return dict(rc=rc, err=err, res=res, ops=ops, killed=killed, exc=e)


def _scenario_real(sid, cfg, kills):
    odir = os.path.join(_work(), f"real{sid}", "out")
    shutil.rmtree(os.path.dirname(odir), ignore_errors=True)
    os.makedirs(os.path.dirname(odir))
    stages, resume = [], bool(cfg.get("r0", False))
    st_of = {0: "done", F.EXIT_KILLED: "killed", F.EXIT_ERROR: "error"}
    for j, kill in enumerate(kills):
        r = _run_real(f"real{sid}_k{j}", odir, cfg, resume, kill)
        stages.append(dict(status=st_of.get(r["rc"], f"rc={r['rc']}"), exc=r["exc"], snap=_snap(odir), killed=r["killed"],
                           coarse=F.coarse(r["ops"], drop_noop_mkdir=False)))
        resume = True
        if r["rc"] not in (0, F.EXIT_KILLED):
            break
    r = _run_real(f"real{sid}_fin", odir, cfg, True)
    final = dict(status=st_of.get(r["rc"], f"rc={r['rc']}"), exc=r["exc"], res=r["res"], snap=_snap(odir),
                 coarse=F.coarse(r["ops"], drop_noop_mkdir=False))
    shutil.rmtree(os.path.dirname(odir), ignore_errors=True)
    return dict(kills=kills, stages=stages, final=final)


def _window(cfg, sc):
    """where (in the driver's protocol) the first kill hit: used in the signature of a failure"""
    k = (sc["stages"][0].get("killed") or {}).get("killed", "") if sc["stages"] else ""
    return k


def _judge(cfg, sc, refres):
    """the property on the real code: every restart gets past loading, the unkilled resume finishes and returns the same
    (samples, mean) as the uninterrupted run.  -> None | (what, signature)"""
    fin = sc["final"]
    where = "; ".join(f"{(st.get('killed') or {}).get('killed', 'not killed')}" for st in sc["stages"])
    strat = cfg.get("strategy", "latest")
    for st in list(sc["stages"]) + [fin]:
        if str(st["status"]).startswith("rc="):
            raise Infra(f"worker failed: {st['status']}")
        if st["status"] == "error":
            e = (st["exc"] or {}).get("error", "?")
            return (f"[{strat}] optimize_kl(resume=True) raised {e} ({(st['exc'] or {}).get('msg', '')[:80]}) after an "
                    f"earlier kill [{where}]: resuming is impossible",
                    dict(driver="cl.optimize_kl", strategy=strat, phase="resume", error=e,
                         site=(st["exc"] or {}).get("site", "")))
    for st in sc["stages"]:
        if st["status"] == "done" and st.get("res") is not None and (
                st["res"]["mean"] != refres["mean"] or st["res"]["samples"] != refres["samples"]):
            return (f"[{strat}] a resumed run after kill [{where}] finished with different (samples, mean)",
                    dict(driver="cl.optimize_kl", strategy=strat, phase="result", error="different-result"))
    r = fin["res"]
    if r is None or r["mean"] != refres["mean"] or r["samples"] != refres["samples"] or r["n_samples"] != refres["n_samples"]:
        return (f"[{strat}] resume=True after kill [{where}] finished with different (samples, mean) than the "
                f"uninterrupted run (mean equal: {bool(r) and r['mean'] == refres['mean']}, samples equal: "
                f"{bool(r) and r['samples'] == refres['samples']}): silently wrong",
                dict(driver="cl.optimize_kl", strategy=strat, phase="result", error="different-result"))
    return None


def _in_latest_window(cfg, sc):
    """known-finding window: strategy latest, a kill after an os.replace (or in-place open) onto pickle/latest.<k|mean>.pickle
    of an iteration whose marker has not been moved into place yet, while an older marker exists"""
    if cfg.get("strategy", "latest") != "latest":
        return False
    for st in sc["stages"]:
        if st["status"] != "killed":
            continue
        co = st["coarse"]
        last_marker = max([i for i, c in enumerate(co) if c.endswith("-> last_finished_iteration")
                           or c == "close last_finished_iteration"] + [-1])
        ahead = any(("-> pickle/latest." in c and c.endswith(".pickle")) for c in co[last_marker + 1:])
        has_marker = st.get("snap", {}).get("last_finished_iteration") is not None
        if ahead and has_marker:
            return True
    return False


def _sig(cfg, sc, j):
    what, sig = j
    if sig.get("error") == "different-result" and _in_latest_window(cfg, sc):
        sig = dict(sig, window="latest-files-ahead-of-marker")
    return what, sig


def oracle(case):
    """case = {cfg, kills:[{at, when, frac?}…]} in real op coordinates; property on the real code only, REAL process kills"""
    if "kills" not in case:
        return None
    # every call costs two to four fresh processes: the re-examination of disagreements and the shrinking done by vcheck
    # get a budget per check run (a replay needs one call)
    _BUDGET[0] -= 1
    if _BUDGET[0] < 0:
        return None
    cfg = case["cfg"]
    key = json.dumps(cfg, sort_keys=True)
    try:
        if key not in _SESS:
            _SESS[key] = _run_session("o" + hashlib.sha1(key.encode()).hexdigest()[:8], cfg, [])
        ref = _SESS[key]["ref"]
        sc = _scenario_real("o" + hashlib.sha1(json.dumps(case, sort_keys=True).encode()).hexdigest()[:8], cfg, case["kills"])
        j = _judge(cfg, sc, ref["res"])
        return _sig(cfg, sc, j) if j else None
    except Infra:
        return None


def shrink(case):
    ks = case["kills"]
    if len(ks) > 1:
        for j in range(len(ks)):
            yield dict(case, kills=[ks[j]])
    for j, k in enumerate(ks):
        if k.get("when") == "partial":
            yield dict(case, kills=ks[:j] + [dict(at=k["at"], when="before")] + ks[j + 1:])


def _real_kill(pos, ops):
    from props.c24 import _real_kill as rk
    return rk(pos, ops)


def _configs(ctx):
    seed = ctx.rng.randrange(1000)
    cfgs = [dict(n=3, seed=seed, n_samples=1, strategy="all", r0=False),
            dict(n=3, seed=seed, n_samples=1, strategy="latest", r0=False),
            dict(n=3, seed=seed + 5, n_samples=0, strategy="latest", r0=False)]      # MAP run
    if not ctx.quick:
        cfgs += [dict(n=3, seed=seed + 1, n_samples=2, strategy="all", r0=True, geovi=True),
                 dict(n=4, seed=seed + 2, n_samples=1, strategy="latest", r0=True),
                 dict(n=2, seed=seed + 3, n_samples=2, strategy="latest", r0=False, geovi=True),
                 dict(n=3, seed=seed + 6, n_samples=0, strategy="all", r0=True)]
    return cfgs


import threading

_LOCK = threading.RLock()


def _tv(ctx, n):
    with _LOCK:
        ctx.traces_validated += n


class _Shared:
    """view of the run context for one configuration's thread: own PRNG (drawn from the run's PRNG before the threads
    start, so the run stays a function of VERIF_SEED), counters and findings of the shared context under a lock"""

    def __init__(self, ctx, rng):
        self.__dict__.update(_ctx=ctx, rng=rng)

    def __getattr__(self, name):
        v = getattr(self._ctx, name)
        if callable(v) and name in ("case", "stat", "compare", "disagree", "counterexample", "broke"):
            def locked(*a, **kw):
                with _LOCK:
                    return v(*a, **kw)
            return locked
        return v

    def __setattr__(self, name, value):
        with _LOCK:
            setattr(self._ctx, name, value)


def _corpus_cases():
    from core.ctx import VERIF
    d = os.path.join(VERIF, "corpus", ID)
    cases = []
    for fn in sorted(os.listdir(d)) if os.path.isdir(d) else []:
        if fn.endswith(".json"):
            rec = json.load(open(os.path.join(d, fn)))
            cases += rec.get("cases", [rec] if "kills" in rec else [])
    return cases


def _corpus(ctx):
    """corpus first: minimised past failures, replayed with simulated kills in one session process per distinct
    configuration; a case that fails there is confirmed with real process kills (oracle) before it is reported"""
    groups = {}
    for c in _corpus_cases():
        groups.setdefault(json.dumps(c["cfg"], sort_keys=True), []).append(c)
    for key, cs in groups.items():
        try:
            o = _run_session("corpus" + hashlib.sha1(key.encode()).hexdigest()[:8], cs[0]["cfg"],
                             [dict(sid=i, kills=c["kills"]) for i, c in enumerate(cs)])
        except Infra as e:
            ctx.notes.append(f"corpus replay skipped: {e}")
            continue
        _SESS.setdefault(key, o)
        if o["ref"]["status"] != "done":
            continue
        for i, c in enumerate(cs):
            ctx.case(dict(corpus=True, **c))
            ctx.stat("corpus")
            sc = o["scen"].get(str(i))
            if sc is None:
                continue
            try:
                j = _judge(c["cfg"], sc, o["ref"]["res"])
            except Infra:
                continue
            if j:
                r = oracle(c)
                if r:
                    ctx.counterexample(c, *r)


def run(ctx):
    import random
    import time
    jobs = [("corpus", None)] + [("cfg", c) for c in _configs(ctx)] + [("map", "latest-mixed")] + ([("opaque", None)] if not ctx.quick else [])
    rngs = [random.Random(ctx.rng.randrange(10 ** 9)) for _ in jobs]
    errs = []

    def work(job, rng):
        kind, cfg = job
        sh = _Shared(ctx, rng)
        t0 = time.time()
        try:
            if kind == "corpus":
                _corpus(sh)
            elif kind == "cfg":
                _run_cfg(sh, cfg)
            elif kind == "map":
                _run_opaque(sh, kind, cfg)
            else:
                _run_opaque(sh, kind)
        except BaseException as e:  # noqa: BLE001 - re-raised in the main thread
            errs.append(e)
        with _LOCK:
            ctx.extra.setdefault("phase_s", {})[kind + ("" if cfg is None else ":" + (cfg if isinstance(cfg, str) else cfg["strategy"] + str(cfg["seed"]) + ("" if cfg["n_samples"] else "map")))] = \
                round(time.time() - t0, 1)
    # the configurations are independent: one thread each (they spend their time waiting for worker processes)
    width = 6 if ctx.quick else 3
    pending = list(zip(jobs, rngs))
    while pending:
        batch, pending = pending[:width], pending[width:]
        ts = [threading.Thread(target=work, args=a) for a in batch]
        for t in ts:
            t.start()
        for t in ts:
            t.join()
    if errs:
        raise errs[0]


def _session_chunks(ctx, cfg, scenarios, nsess, extra=None):
    chunks = [scenarios[i::nsess] for i in range(nsess)]
    try:
        return _pool().map(lambda a: _run_session(f"{cfg['strategy']}{cfg['seed']}_{a[0]}", dict(cfg, **(extra or {})), a[1]),
                           list(enumerate(chunks)))
    except Infra as e:
        from core import leanrun
        raise leanrun.InfraError(str(e))


def _run_cfg(ctx, cfg):
    n, r0, strat = cfg["n"], cfg["r0"], cfg["strategy"]
    vi = cfg["n_samples"] > 0           # MAP run (n_samples = 0): SampleList, one sample file, no mean file
    nsamp = 2 * cfg["n_samples"] if vi else 1
    protos = ("repaired", "atomicOnly", "asFound")
    base = dict(strategy=strat, total=n, nsamp=nsamp, vi=vi)
    mo = dict(zip(protos, ctx.model(DRIVER, [dict(op="ops", proto=p, resume=r0, **base) for p in protos])))
    # phase A: reference run (which protocol does the code follow?)
    try:
        o0 = _run_session(f"{strat}{cfg['seed']}_ref", cfg, [])
    except Infra as e:
        from core import leanrun
        raise leanrun.InfraError(str(e))
    ref = o0["ref"]
    _SESS[json.dumps(cfg, sort_keys=True)] = o0
    case0 = dict(op="ops", cfg=cfg)
    if ref["status"] != "done":
        ctx.counterexample(case0, f"the uninterrupted run raised {ref['exc']}",
                           dict(driver="cl.optimize_kl", phase="uninterrupted", error=(ref["exc"] or {}).get("error")))
        return
    real_coarse = F.coarse(ref["ops"], drop_noop_mkdir=False)
    proto = next((p for p in protos if mo[p]["coarse"] == real_coarse), None)
    _tv(ctx, 1)
    ctx.compare(case0, dict(coarse=real_coarse), dict(coarse=mo["repaired"]["coarse"]),
                note=f"[{strat}] op sequence of the real uninterrupted run vs model (repaired protocol)"
                     + (f" — the real sequence equals the model of the protocol {proto}" if proto not in ("repaired", None) else ""))
    ctx.stat(f"{strat}:real-protocol={proto}")
    if ref["res"]["iterations"] != n or ref["res"]["n_samples"] != nsamp:
        ctx.disagree(case0, ref["res"], dict(iterations=n, n_samples=nsamp), "uninterrupted run: iterations / samples")
    if proto is None:
        kills = [[dict(at=k, when="before")] for k in range(len(ref["ops"]) + 1)]
        kills += [[dict(at=k, when="partial", frac=[1, 2])] for k, ev in enumerate(ref["ops"]) if ev["op"] == "flush"]
        outs = _session_chunks(ctx, cfg, [dict(sid=i, kills=k) for i, k in enumerate(kills)], ctx.n(3, 6))
        _report_failures(ctx, cfg, {k: v for o in outs for k, v in o["scen"].items()}, ref, set())
        return
    nfine = mo[proto]["fine"]
    rng = ctx.rng
    singles = list(range(nfine + 1))
    if ctx.quick:   # stratified: every point of the middle iteration, every 6th elsewhere, first/last
        per = (nfine - 5) // n
        lo = nfine - per * (n - 1)
        singles = sorted(set(range(lo, lo + per + 1)) | set(range(0, nfine + 1, 6)) | {0, nfine - 1, nfine})
    scen = [[k] for k in singles]
    for _ in range(ctx.n(3, 30)):
        scen.append([rng.randrange(1, nfine), rng.randrange(0, 40)])
    sims = ctx.model(DRIVER, [dict(op="sim", proto=proto, r0=r0, kills=ks, **base) for ks in scen])
    scenarios = []
    for sid, (ks, sim) in enumerate(zip(scen, sims)):
        poss = [st["pos"] for st in sim["stages"]]
        kills = [_real_kill(poss[0], ref["ops"])] + [
            (dict(at=10 ** 6, when="before") if p == "end" else
             dict(at=p["coarse"], when="before") if p["off"] == 0 else
             dict(at=p["coarse"], when="partial", frac=[p["off"], p["len"]])) for p in poss[1:]]
        scenarios.append(dict(sid=sid, kills=kills))
    outs = _session_chunks(ctx, cfg, scenarios, ctx.n(3, 6))
    if any(o["ref"]["res"] != ref["res"] for o in outs):
        ctx.disagree(case0, [o["ref"]["res"] for o in outs], ref["res"], "the uninterrupted run is not deterministic")
        return
    allsc = {k: v for o in outs for k, v in o["scen"].items()}
    window_model = 0
    for sid, (ks, sim) in enumerate(zip(scen, sims)):
        sc = allsc.get(str(sid))
        if sc is None:
            continue
        case = dict(cfg=cfg, kills_model=ks, kills=sc["kills"])
        for st in sim["stages"]:
            pos = st.get("pos")
            ctx.stat(f"{strat}:kill:" + ("end" if pos == "end" else ("mid-write" if pos["off"] else "op-boundary")))
        ctx.stat(f"{strat}:stages={len(ks)}")
        fin, mfin = sc["final"], sim["final"]
        # the model says "wrong state" (>= 1000) or raises where files of different iterations are mixed; the real result
        # then depends on whether the mixed part is used (only the mean is, without `transitions`): compare the
        # directories after the kills, not the final outcome
        m_ok = mfin["outcome"] == f"ok:{n}"
        if not m_ok:
            window_model += 1
            ctx.stat(f"{strat}:model-predicts-failure:{mfin['outcome'] if mfin['outcome'].startswith('error') else 'wrong-state'}")
        def out_real(st):
            return ("killed" if st["status"] == "killed" else
                    "error" if st["status"] == "error" else
                    "ok" if st.get("res") and st["res"]["mean"] == ref["res"]["mean"] and st["res"]["samples"] == ref["res"]["samples"]
                    else "wrong")
        def out_model(o):
            return "killed" if o == "killed" else "error" if o.startswith("error") else "ok" if o == f"ok:{n}" else "wrong"
        impl = dict(stages=[dict(files=st["files"], coarse=st["coarse"], outcome=out_real(st)) for st in sc["stages"]])
        modl = dict(stages=[dict(files=st["files"], coarse=st["coarse"], outcome=out_model(st["outcome"]))
                            for st in sim["stages"]][:len(sc["stages"])])
        strict = m_ok and all(out_model(st["outcome"]) in ("killed", "ok") for st in sim["stages"])
        if strict or proto != "repaired":
            impl["final"] = dict(outcome=out_real(fin), coarse=fin["coarse"], files=fin["files"])
            modl["final"] = dict(outcome=out_model(mfin["outcome"]), coarse=mfin["coarse"], files=mfin["files"])
        if not strict:
            # inside a failure window only the first killed directory is exact in the model
            impl["stages"], modl["stages"] = impl["stages"][:1], modl["stages"][:1]
            if proto != "repaired" and out_model(mfin["outcome"]) == "wrong":
                impl.pop("final"), modl.pop("final")
        ctx.compare(case, impl, modl, note=f"[{strat}] directory after each kill / outcome / resumed run: real vs model",
                    nontrivial=0 < ks[0] < nfine)
        _tv(ctx, len(sc["stages"]) + 1)
        reads_ok = {"last_finished_iteration", "pickle/nifty_random_state"}
        bad = [r for r in fin.get("reads", []) if r not in reads_ok and not r.startswith(("pickle/iteration_", "pickle/latest.",
               "pickle/energy_history_", "pickle/minisanity_history_"))]
        if bad:
            ctx.disagree(case, dict(reads=bad), dict(reads=[]), "the resumed run reads files outside the model's read-set")
    ctx.extra[f"{strat}:crash_points_model"] = nfine + 1
    ctx.extra[f"{strat}:model_failure_predictions"] = window_model
    picked = _real_crosscheck(ctx, cfg, allsc, ref)
    _report_failures(ctx, cfg, allsc, ref, picked)
    ctx.extra["exhaustive"] = not ctx.quick


def _real_crosscheck(ctx, cfg, allsc, ref):
    """simulated kill == real kill (os._exit in a process of its own) on a sample; every distinct failure first.
    -> set of scenario ids whose simulated record was confirmed byte for byte"""
    failing, seen = [], set()
    for sid, sc in allsc.items():
        try:
            j = _judge(cfg, sc, ref["res"])
        except Infra:
            continue
        if j:
            key = json.dumps(_sig(cfg, sc, j)[1], sort_keys=True)
            if key not in seen and len(failing) < 4:
                seen.add(key)
                failing.append(sid)
    cand = [sid for sid in allsc if sid not in failing]
    ctx.rng.shuffle(cand)
    mid = [sid for sid in cand if any(k.get("when") == "partial" for k in allsc[sid]["kills"])]
    pick = failing + mid[:ctx.n(1, 4)] + [sid for sid in cand if sid not in mid][:ctx.n(0, 4)]
    try:
        reals = _pool().map(lambda sid: (sid, _scenario_real(f"{cfg['strategy']}{cfg['seed']}_{sid}", cfg, allsc[sid]["kills"])), pick)
    except Infra as e:
        ctx.notes.append(f"real-kill cross-check skipped: {e}")
        return set()
    confirmed = set()
    for sid, rs in reals:
        sc = allsc[sid]
        if any(str(st["status"]).startswith("rc=") for st in rs["stages"] + [rs["final"]]):
            ctx.stat("real-kill:infra-skipped")
            continue
        def view(x):
            return dict(stages=[dict(status=st["status"], snap=st["snap"], exc=(st["exc"] or {}).get("error")) for st in x["stages"]],
                        final=dict(status=x["final"]["status"], snap=x["final"]["snap"], res=x["final"]["res"],
                                   exc=(x["final"]["exc"] or {}).get("error")))
        ctx.stat("real-kill:checked")
        if ctx.compare(dict(cfg=cfg, kills=sc["kills"], check="simulated-vs-real-kill"), view(rs), view(sc),
                       note="directory snapshots / outcome: real kill (os._exit) vs simulated kill"):
            confirmed.add(sid)
            _tv(ctx, 1)
    return confirmed


def _report_failures(ctx, cfg, allsc, ref, confirmed):
    """a failure seen under a simulated kill is reported when the same scenario (or one with the same signature) was
    confirmed with real kills"""
    conf_sigs, fails = set(), []
    for sid, sc in allsc.items():
        try:
            j = _judge(cfg, sc, ref["res"])
        except Infra:
            continue
        if j:
            what, sig = _sig(cfg, sc, j)
            fails.append((sid, sc, what, sig))
            if sid in confirmed:
                conf_sigs.add(json.dumps(sig, sort_keys=True))
    ctx.stat(f"{cfg['strategy']}:failing-scenarios(simulated)", len(fails))
    done = set()
    for sid, sc, what, sig in fails:
        key = json.dumps(sig, sort_keys=True)
        if key in conf_sigs and (sid in confirmed) and key not in done:
            done.add(key)
            ctx.counterexample(dict(cfg=cfg, kills=sc["kills"]), what, sig)
    for sid, sc, what, sig in fails:   # signatures never confirmed by a real kill: replay them for real now
        key = json.dumps(sig, sort_keys=True)
        if key not in done:
            done.add(key)
            r = oracle(dict(cfg=cfg, kills=sc["kills"]))
            if r:
                ctx.counterexample(dict(cfg=cfg, kills=sc["kills"]), *r)


def _run_opaque(ctx, kind="opaque", which=None):
    """configurations the model does not cover — `opaque`: plots and exported operator outputs (HDF5); `map`: MAP runs
    (n_samples = 0: SampleList.save of one sample, no mean file, resume through SampleList.load) — oracle only: simulated
    kills at real op boundaries (every second one for `opaque`, all of them plus every partial flush for `map`)"""
    seed = ctx.rng.randrange(1000)
    if kind == "opaque":
        cfgs = (dict(n=2, seed=seed, n_samples=1, strategy="all", r0=False, plots=True, export=True),)
    else:
        cfgs = (dict(n=3, seed=seed, n_samples=0, strategy="latest", r0=False),
                dict(n=3, seed=seed + 1, n_samples=0, strategy="all", r0=ctx.rng.random() < 0.5),
                # VI iteration, MAP iteration, VI iteration under one base name: the mean file of the first must not survive
                dict(n=3, seed=seed + 2, n_samples=1, ns_list=[1, 0, 1], strategy="latest", r0=False, mixed=True))
        cfgs = tuple(c for c in cfgs if which in (None, c["strategy"] + ("-mixed" if c.get("mixed") else "")))
    for cfg in cfgs:
        try:
            o0 = _run_session(f"{kind}{cfg['strategy']}{cfg['seed']}", cfg, [])
            ref = o0["ref"]
            if ref["status"] != "done":
                ctx.counterexample(dict(op="ops", cfg=cfg), f"the uninterrupted run raised {ref['exc']}",
                                   dict(driver="cl.optimize_kl", phase="uninterrupted", error=(ref["exc"] or {}).get("error")))
                continue
            step = 2 if kind == "opaque" else 1
            kills = [[dict(at=k, when="before")] for k in range(0, len(ref["ops"]) + 1, step)]
            if kind == "map":
                kills += [[dict(at=k, when="partial", frac=[1, 2])] for k, ev in enumerate(ref["ops"])
                          if ev["op"] == "flush" and ev.get("n", 0) >= 2]
                if ctx.quick:
                    kills = kills[::2]
            outs = _session_chunks(ctx, cfg, [dict(sid=i, kills=k) for i, k in enumerate(kills)], ctx.n(2, 6))
        except Infra as e:
            ctx.notes.append(f"{kind} configuration skipped: {e}")
            continue
        _SESS[json.dumps(cfg, sort_keys=True)] = o0
        allsc = {k: v for o in outs for k, v in o["scen"].items()}
        for sid, sc in allsc.items():
            ctx.case(dict(cfg=cfg, kills=sc["kills"]))
            ctx.stat(f"{kind}-config:{cfg['strategy']}{'-mixed' if cfg.get('mixed') else ''}:kill")
        picked = _real_crosscheck(ctx, cfg, allsc, ref) if kind == "map" else set()
        _report_failures(ctx, cfg, allsc, ref, picked)


def search(ctx):
    """targeted: the witnesses of Props/C25.lean — marker truncated, marker before histories, latest overwritten in place"""
    for strat in ("all", "latest"):
        cfg = dict(n=3, seed=0, n_samples=1, strategy=strat, r0=False)
        try:
            o = _run_session("search" + strat, cfg, [])
        except Infra:
            return
        _SESS[json.dumps(cfg, sort_keys=True)] = o
        ops = o["ref"]["ops"]
        hits = [k for k, ev in enumerate(ops) if ev["op"] in ("flush", "openw", "replace") and (
            "last_finished_iteration" in ev["path"] or "energy_history" in ev["path"] or "minisanity_history" in ev["path"]
            or "latest." in ev["path"])]
        for k in hits[len(hits) // 3:]:
            case = dict(cfg=cfg, kills=[dict(at=k, when="before")])
            r = oracle(case)
            if r:
                ctx.counterexample(case, *r)
                return
