"""C25 — The classic VI driver resumes after a crash with identical results (DESIGN.md §5 C25)."""
import hashlib
import json
import os
import shutil
import tempfile

from core.ctx import REPO
from props import _crash_fsfault as F

ID = "C25"


# ------------------------------------------------------------------------------------------------ worker (subprocess)
def worker(args):
    """runs in a fresh process under the fault injector: the REAL nifty.cl.optimize_kl on a tiny model"""
    import numpy as np
    import nifty.cl as ift
    import sys
    okl = sys.modules["nifty.cl.minimization.optimize_kl"]
    from nifty.cl.minimization.kl_energies import SampledKLEnergy

    sp = ift.RGSpace(4)
    xi = ift.ducktape(sp, None, "xi")
    sig = (0.5 * xi).exp() + xi
    rng = np.random.default_rng(int(args.get("seed", 0)))
    data = ift.makeField(sp, rng.integers(-2, 3, size=4).astype(np.float64))
    lh = ift.GaussianEnergy(data=data, inverse_covariance=ift.ScalingOperator(sp, 4.0, sampling_dtype=np.float64)) @ sig
    ic = ift.AbsDeltaEnergyController(deltaE=0.1, iteration_limit=5)
    mini = ift.NewtonCG(ift.AbsDeltaEnergyController(deltaE=0.1, iteration_limit=3))
    nl = None
    if args.get("geovi"):
        nl = ift.NewtonCG(ift.AbsDeltaEnergyController(deltaE=0.1, iteration_limit=2))
    # count the iterations really performed by this process (SampledKLEnergy / EnergyAdapter constructions in the loop)
    n_it = [0]
    orig_min = ift.NewtonCG.__call__

    def counting_call(self, energy, *a, **kw):
        if self is mini:
            n_it[0] += 1
        return orig_min(self, energy, *a, **kw)
    ift.NewtonCG.__call__ = counting_call
    ift.random.push_sseq_from_seed(int(args.get("seed", 0)) + 11)
    depth0 = len(ift.random._sseq)
    export = {}
    if args.get("export"):
        export = {"sig": sig}
    copy_to = args.get("copy_to")
    cb = None
    if copy_to:
        import shutil as _sh

        def cb(sl, iglobal):  # reference run only: keep every iteration's directory content (outside odir)
            dst = os.path.join(copy_to, str(iglobal))
            if os.path.isdir(dst):
                _sh.rmtree(dst)
            _sh.copytree(args["odir"], dst)
    kw = dict(inspect_callback=cb) if cb else {}
    n_samples = int(args.get("n_samples", 1))
    sl, mean = ift.optimize_kl(
        lh, int(args["n"]), n_samples, mini, ic if n_samples else None, nonlinear_sampling_minimizer=nl,
        export_operator_outputs=export, output_directory=args["odir"], save_strategy=args.get("strategy", "latest"),
        resume=bool(args["resume"]), return_final_position=True,
        plot_energy_history=bool(args.get("plots")), plot_minisanity_history=bool(args.get("plots")), **kw)
    h = hashlib.sha1()
    for k in sorted(mean.keys()):
        h.update(k.encode())
        h.update(np.ascontiguousarray(mean[k].val.asnumpy()).tobytes())
    hs = hashlib.sha1()
    ns = 0
    for s in sl.iterator():
        ns += 1
        for k in sorted(s.keys()):
            hs.update(np.ascontiguousarray(s[k].val.asnumpy()).tobytes())
    res = dict(mean=h.hexdigest(), samples=hs.hexdigest(), n_samples=ns, iterations=n_it[0],
               sseq_depth=len(ift.random._sseq) - depth0)
    with open(args["result"], "w") as fh:
        json.dump(res, fh)
