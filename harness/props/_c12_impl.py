"""C12 helper (adapter side): build REAL nifty.re likelihood objects from JSON cases and probe them densely.

Conventions (shared with the Lean driver Driver/C12.lean):
  * a pytree is flattened leaf by leaf in jax.tree_util order; a real leaf contributes `ravel()`, a complex leaf
    contributes `[re.ravel(), im.ravel()]` (doubled real coordinates, DESIGN §2.3) -- so every linear map is a REAL
    matrix and the conjugate transpose w.r.t. Re<a,b> is the plain transpose of that matrix;
  * dense M / L / R are obtained by applying the real `metric` / `left_sqrt_metric` / `right_sqrt_metric`
    to the unit vectors of those coordinates (jax.vmap over an identity matrix);
  * every call into nifty is wrapped by the caller (c12.py) and exceptions become error kinds.
Nothing in here knows what the right answer is: the independent Fisher matrices live in _c12_fisher.py.
"""
import numpy as np

_JAX = None
X64 = True      # False in the float32 worker: jax's DEFAULT configuration (no x64), the library's default precision


def jx():
    global _JAX
    if _JAX is None:
        import os
        # tiny programs, many of them: compile time dominates; cheap compilation, same IEEE arithmetic
        os.environ.setdefault("XLA_FLAGS", "--xla_backend_optimization_level=0 --xla_llvm_disable_expensive_passes=true")
        import jax
        jax.config.update("jax_enable_x64", bool(X64))
        try:
            # persistent compilation cache: the check is deterministic given VERIF_SEED, a repeated run of the same seed
            # against the same library source finds every program compiled (keys = HLO text + jax/XLA version + flags)
            d = cache_dir()
            if d != "off":
                os.makedirs(d, exist_ok=True)
                jax.config.update("jax_compilation_cache_dir", d)
                jax.config.update("jax_persistent_cache_min_compile_time_secs", 0.3)
                jax.config.update("jax_persistent_cache_min_entry_size_bytes", 0)
        except Exception:
            pass
        _JAX = jax
    return _JAX


def cache_dir():
    import os
    import tempfile
    return os.environ.get("C12_JAX_CACHE") or os.path.join(os.environ.get("TMPDIR") or tempfile.gettempdir(), "c12_jax_cache")


def prune_cache(max_entries=40000):
    """called by the parent before the workers start: the cache is an accelerator only, bound its size"""
    import os
    import shutil
    d = cache_dir()
    try:
        if d != "off" and os.path.isdir(d) and len(os.listdir(d)) > max_entries:
            shutil.rmtree(d, ignore_errors=True)
    except OSError:
        pass


def rdt():
    return jx().numpy.float64 if X64 else jx().numpy.float32


def jft():
    jx()
    import nifty.re as _jft
    return _jft


# ---------------------------------------------------------------------------------------------------
# trees
# ---------------------------------------------------------------------------------------------------
def leaf_sizes(leaves):
    """real-coordinate size of every leaf spec {"shape": [...], "cplx": bool}"""
    return [int(np.prod(l["shape"], dtype=int)) * (2 if l.get("cplx") else 1) for l in leaves]


def wrap_leaves(wrap, leaves):
    """assemble a list of arrays into the pytree container named by `wrap`"""
    V = jft().Vector
    if wrap == "arr":
        assert len(leaves) == 1
        return leaves[0]
    if wrap == "vdict":
        return V({f"a{i}": l for i, l in enumerate(leaves)})
    if wrap == "dict":
        return {f"a{i}": l for i, l in enumerate(leaves)}
    if wrap == "vtuple":
        return V(tuple(leaves))
    if wrap == "tuple":
        return tuple(leaves)
    raise ValueError(wrap)


def leaves_from_flat(leafspecs, v, dtype=None):
    """split the real coordinate vector `v` (np or jnp, possibly traced) into leaf arrays"""
    jnp = jx().numpy
    out, off = [], 0
    for l in leafspecs:
        n = int(np.prod(l["shape"], dtype=int))
        shp = tuple(l["shape"])
        if l.get("cplx"):
            re = v[off:off + n].reshape(shp)
            im = v[off + n:off + 2 * n].reshape(shp)
            out.append(re + 1j * im)
            off += 2 * n
        else:
            a = v[off:off + n].reshape(shp)
            if dtype is not None:
                a = jnp.asarray(a).astype(dtype)
            out.append(a)
            off += n
    return out


def tree_from_flat(spec, v, dtype=None):
    jnp = jx().numpy
    if isinstance(v, (list, tuple, np.ndarray)):
        # concrete input: slice with numpy (no eager XLA dispatch), one device_put per leaf
        v = np.asarray(v, dtype=float)
        leaves = []
        off = 0
        for l in spec["leaves"]:
            n = int(np.prod(l["shape"], dtype=int))
            shp = tuple(l["shape"])
            if l.get("cplx"):
                a = v[off:off + n].reshape(shp) + 1j * v[off + n:off + 2 * n].reshape(shp)
                off += 2 * n
            else:
                a = v[off:off + n].reshape(shp)
                off += n
                if dtype is not None:
                    a = a.astype(dtype)
            leaves.append(jnp.asarray(a))
        return wrap_leaves(spec["wrap"], leaves)
    return wrap_leaves(spec["wrap"], leaves_from_flat(spec["leaves"], jnp.asarray(v), dtype))


def realflat(tree):
    """pytree -> real coordinate vector (complex leaves doubled)"""
    jax = jx()
    jnp = jax.numpy
    parts = []
    for l in jax.tree_util.tree_leaves(tree):
        l = jnp.asarray(l)
        if jnp.iscomplexobj(l):
            parts.append(jnp.real(l).ravel())
            parts.append(jnp.imag(l).ravel())
        else:
            parts.append(l.ravel().astype(rdt()))
    if not parts:
        return jnp.zeros((0,))
    return jnp.concatenate(parts)


def spec_of_swd(tree):
    """spec (wrap is ignored: generic unflatten) of a tree of ShapeWithDtype / arrays"""
    jax = jx()
    jnp = jax.numpy
    leaves, treedef = jax.tree_util.tree_flatten(tree)
    specs = [dict(shape=list(l.shape), cplx=bool(jnp.issubdtype(l.dtype, jnp.complexfloating))) for l in leaves]
    return specs, treedef


def unflat_like(specs, treedef, v):
    return jx().tree_util.tree_unflatten(treedef, leaves_from_flat(specs, v))


def dense_lin(fn, specs, treedef):
    """dense real matrix of the linear map `fn` (tree -> tree), probing with unit vectors"""
    jax = jx()
    jnp = jax.numpy
    n = sum(leaf_sizes(specs))

    def g(v):
        return realflat(fn(unflat_like(specs, treedef, v)))
    if n == 0:
        return np.zeros((0, 0))
    return np.asarray(jax.vmap(g)(jnp.eye(n, dtype=rdt()))).T


def dense_jac(fn, specs, treedef, x):
    """dense real Jacobian of the (non-linear) `fn` at the real coordinate vector x (forward mode)"""
    jax = jx()

    def g(v):
        return realflat(fn(unflat_like(specs, treedef, v)))
    return np.asarray(jax.jacfwd(g)(jx().numpy.asarray(x, dtype=rdt())))


# ---------------------------------------------------------------------------------------------------
# likelihood terms
# ---------------------------------------------------------------------------------------------------
def primal_spec(term):
    """tree spec of the likelihood's own parameter space (what `metric(primals, .)` expects)"""
    k = term["kind"]
    t = term["tree"]
    if k in ("gaussian", "studentt"):
        return dict(wrap=t["wrap"], leaves=[dict(l) for l in t["leaves"]])
    if k == "poisson":
        return dict(wrap=t["wrap"], leaves=[dict(shape=l["shape"]) for l in t["leaves"]])
    if k == "categorical":
        ax, K = term["axis"], term["K"]
        ls = []
        for l in t["leaves"]:
            s = list(l["shape"])
            s[ax] = K
            ls.append(dict(shape=s))
        return dict(wrap=t["wrap"], leaves=ls)
    if k == "vcgauss":
        return dict(wrap="pair", first=dict(wrap=t["wrap"], leaves=[dict(l) for l in t["leaves"]]),
                    second=dict(wrap=t["wrap"], leaves=[dict(shape=l["shape"]) for l in t["leaves"]]),
                    outer=term.get("outer", "tuple"))
    if k == "vcstudt":
        return dict(wrap="pair", first=dict(wrap=t["wrap"], leaves=[dict(shape=l["shape"]) for l in t["leaves"]]),
                    second=dict(wrap=t["wrap"], leaves=[dict(shape=l["shape"]) for l in t["leaves"]]),
                    outer=term.get("outer", "tuple"))
    if k == "ndvc":
        d = term["d"]
        return dict(wrap="pair", first=dict(wrap=t["wrap"], leaves=[dict(shape=l["shape"]) for l in t["leaves"]]),
                    second=dict(wrap=t["wrap"], leaves=[dict(shape=list(l["shape"]) + [d]) for l in t["leaves"]]),
                    outer=term.get("outer", "tuple"))
    raise ValueError(k)


def spec_leaves(spec):
    if spec["wrap"] == "pair":
        return spec["first"]["leaves"] + spec["second"]["leaves"]
    return spec["leaves"]


def spec_size(spec):
    return sum(leaf_sizes(spec_leaves(spec)))


def build_from_spec(spec, v):
    if isinstance(v, (list, tuple)):
        v = np.asarray(v, dtype=float)
    if spec["wrap"] == "pair":
        n1 = sum(leaf_sizes(spec["first"]["leaves"]))
        a = tree_from_flat(spec["first"], v[:n1])
        b = tree_from_flat(spec["second"], v[n1:])
        if spec.get("outer") == "vector":
            return jft().Vector((a, b))
        return (a, b)
    return tree_from_flat(spec, v)


def _diag_tree(term, key):
    """the noise_cov_inv / noise_std_inv argument (always diagonal here): `None`, or a scalar / a tree shaped like the
    data (the library's non-callable branch), or -- par["callable"] or a lone std (the library cannot derive the
    covariance from a non-callable std) -- a harness closure multiplying with it"""
    par = term["par"]
    if par.get("herm") is not None:
        # dense complex HERMITIAN positive definite operators (callables): std_inv = H, cov_inv = H H
        H = np.array([[complex(*v) for v in r] for r in par["herm"]])
        if not any(l.get("cplx") for l in term["tree"]["leaves"]):
            H = H.real                                   # real data: real symmetric positive definite
        Hm = jx().numpy.asarray(H if key == "std" else H @ H)
        return lambda x: (Hm @ x.reshape(-1)).reshape(x.shape)
    vals = par.get(key)
    if vals is None:
        return None
    t = term["tree"]
    if par.get("scalar"):
        d = float(vals[0])
    else:
        real_leaves = [dict(shape=l["shape"]) for l in t["leaves"]]
        d = tree_from_flat(dict(wrap=t["wrap"], leaves=real_leaves), np.asarray(vals, dtype=float))
    if par.get("callable") or (key == "std" and par.get("cov") is None):
        return lambda x: d * x
    return d


def build_data(term):
    jnp = jx().numpy
    t = term["tree"]
    k = term["kind"]
    if k in ("poisson", "categorical"):
        return tree_from_flat(t, np.asarray(term["data"], dtype=float), dtype=jnp.int64 if X64 else jnp.int32)
    return tree_from_flat(t, np.asarray(term["data"], dtype=float))


_DEFAULTS_CLS = None


def defaults_of(base):
    """a likelihood that only DEFINES energy and transformation (taken from `base`) and therefore runs the defaults of
    `Likelihood`: left_sqrt_metric = pull-back (vjp) of the transformation, right = its transpose, metric = L o R"""
    global _DEFAULTS_CLS
    j = jft()
    if _DEFAULTS_CLS is None:
        class DefaultsOf(j.Likelihood):
            def __init__(self, base):
                self._base = base
                super().__init__(domain=base.domain, lsm_tangents_shape=base.lsm_tangents_shape)

            def energy(self, primals):
                return self._base.energy(primals)

            def transformation(self, primals):
                return self._base.transformation(primals)
        _DEFAULTS_CLS = DefaultsOf
    return _DEFAULTS_CLS(base)


def build_lh(term, data=None):
    """the REAL likelihood object for one term (`data` overrides the case's data, possibly traced)"""
    lh = _build_lh(term, data)
    return defaults_of(lh) if term.get("defaults") is True else lh


def _build_lh(term, data=None):
    j = jft()
    k = term["kind"]
    data = build_data(term) if data is None else data
    if k == "gaussian":
        return j.Gaussian(data, noise_cov_inv=_diag_tree(term, "cov"), noise_std_inv=_diag_tree(term, "std"))
    if k == "studentt":
        dof = term["par"]["dof"]
        t = term["tree"]
        if len(dof) == 1:
            dof = float(dof[0])
        else:
            dof = tree_from_flat(dict(wrap=t["wrap"], leaves=[dict(shape=l["shape"]) for l in t["leaves"]]),
                                 np.asarray(dof, dtype=float))
        return j.StudentT(data, dof, noise_cov_inv=_diag_tree(term, "cov"), noise_std_inv=_diag_tree(term, "std"))
    if k == "poisson":
        return j.Poissonian(data)
    if k == "categorical":
        return j.Categorical(data, axis=term["axis"])
    if k == "vcgauss":
        return j.VariableCovarianceGaussian(data)
    if k == "vcstudt":
        dof = term["par"]["dof"]
        t = term["tree"]
        if len(dof) == 1:
            dof = float(dof[0])
        else:
            dof = tree_from_flat(dict(wrap=t["wrap"], leaves=[dict(shape=l["shape"]) for l in t["leaves"]]),
                                 np.asarray(dof, dtype=float))
        return j.VariableCovarianceStudentT(data, dof)
    if k == "ndvc":
        return j.NDVariableCovarianceGaussian(data, covariance=bool(term["covariance"]))
    raise ValueError(k)


# ---------------------------------------------------------------------------------------------------
# forward models (harness code, NOT library code): y = act(A x + b) in the real coordinates of the primal space
# ---------------------------------------------------------------------------------------------------
def latent_spec(lat):
    cp = lat.get("cplx") or [False] * len(lat["sizes"])
    return dict(wrap=lat["wrap"], leaves=[dict(shape=[n], cplx=True) if c else dict(shape=[n])
                                          for n, c in zip(lat["sizes"], cp)])


def _act(name, z, shape):
    jnp = jx().numpy
    if name == "id":
        return z
    if name == "exp":
        return jnp.exp(z)
    if name == "tanh":
        return jnp.tanh(z)
    if name == "sq1":
        return 1.0 + z * z
    if name == "spd":
        d = shape[-1]
        W = z.reshape(tuple(shape))
        S = jnp.einsum("...ij,...kj->...ik", W, W) + jnp.eye(d)
        return S.ravel()
    raise ValueError(name)


def forward_flat(term, xflat, skip_pre=False):
    """harness forward model in flat coordinates: latent real vector -> real coordinates of the lh primals"""
    jnp = jx().numpy
    m = term["model"]
    A = jnp.asarray(np.asarray(m["A"], dtype=float)).reshape(len(m["b"]), -1)
    if m.get("pre") is not None and not skip_pre:
        xflat = jnp.asarray(np.asarray(m["pre"], dtype=float)) @ xflat
    z = A @ xflat + jnp.asarray(np.asarray(m["b"], dtype=float))   # (x64 off: jnp.asarray downcasts to float32)
    out, off = [], 0
    ps = primal_spec(term)
    for l, a in zip(spec_leaves(ps), m["acts"]):
        n = leaf_sizes([l])[0]
        if l.get("cplx"):
            h = n // 2
            out.append(_act(a, z[off:off + h], l["shape"]))     # real part through the activation
            out.append(z[off + h:off + n])                       # imaginary part affine
        else:
            out.append(_act(a, z[off:off + n], l["shape"]))
        off += n
    return jnp.concatenate(out)


def build_from_leaves(spec, leaves):
    if spec["wrap"] == "pair":
        n1 = len(spec["first"]["leaves"])
        a = wrap_leaves(spec["first"]["wrap"], leaves[:n1])
        b = wrap_leaves(spec["second"]["wrap"], leaves[n1:])
        return jft().Vector((a, b)) if spec.get("outer") == "vector" else (a, b)
    return wrap_leaves(spec["wrap"], leaves)


def _cact(name, w, shape):
    """activations of the complex forward models: holomorphic (complex primal leaves) or real-valued (real leaves)"""
    jnp = jx().numpy
    if name == "id":
        return w
    if name == "cexp":
        return jnp.exp(w / 2)
    if name == "csq":
        return w + w * w / 4
    if name == "csin":
        return jnp.sin(w)
    if name == "conj":
        return jnp.conj(w)                       # anti-holomorphic: R-linear only
    if name == "re":
        return jnp.real(w)
    if name == "im":
        return jnp.imag(w)
    if name == "abs2p1":
        return 1.0 + jnp.real(w * jnp.conj(w))
    if name == "expre":
        return jnp.exp(jnp.real(w) / 2)
    if name == "spd":
        return _act("spd", jnp.real(w), shape)
    raise ValueError(name)


def cforward_tree_fn(term, lat):
    """complex forward model handed to `Likelihood.amend`: works on the complex leaves directly (no detour through
    real coordinates): u = concat(latent leaves) -> complex linear stage -> gather + offset -> activation per leaf"""
    ps = primal_spec(term)
    m = term["model"]
    leaves_spec = spec_leaves(ps)

    def f(x):
        jax = jx()
        jnp = jax.numpy
        u = jnp.concatenate([jnp.asarray(l).ravel() for l in jax.tree_util.tree_leaves(x)])
        ct = m["ctype"]
        if ct in ("iscal", "cscal"):
            w = complex(*m["g"]) * u
        elif ct == "cdiag":
            w = jnp.asarray(np.array([complex(*v) for v in m["c"]])) * u
        elif ct == "fft":
            w = (jnp.fft.ifft if m.get("inverse") else jnp.fft.fft)(u, norm=m.get("norm"))
        elif ct == "cdense":
            w = jnp.asarray(np.array([[complex(*v) for v in r] for r in m["C"]])) @ u
        else:
            raise ValueError(ct)
        if ct != "cdense":
            w = w[np.asarray(m["sel"], dtype=int)]
        w = w + jnp.asarray(np.array([complex(*v) for v in m["b"]]))
        out, off = [], 0
        for l, a in zip(leaves_spec, m["acts"]):
            n = int(np.prod(l["shape"], dtype=int))
            v = _cact(a, w[off:off + n], l["shape"])
            out.append(v.reshape(tuple(l["shape"])))
            off += n
        return build_from_leaves(ps, out)
    return f


def forward_tree_fn(term, lat, skip_pre=False):
    """the callable handed to `Likelihood.amend`: latent pytree -> primal pytree of the likelihood"""
    if term["model"].get("ctype") is not None:
        return cforward_tree_fn(term, lat)
    ps = primal_spec(term)

    def f(x):
        return build_from_spec(ps, forward_flat(term, realflat(x), skip_pre))
    return f


def pre_tree_fn(term, lat):
    """first link of a chain `lh.amend(f).amend(g)`: the linear re-parametrisation g: latent tree -> latent tree"""
    lspec = latent_spec(lat)
    P = np.asarray(term["model"]["pre"], dtype=float)

    def g(x):
        jnp = jx().numpy
        v = jnp.asarray(P) @ realflat(x)
        leaves = leaves_from_flat(lspec["leaves"], v)
        return wrap_leaves(lspec["wrap"], leaves)
    return g


# ---------------------------------------------------------------------------------------------------
# the whole case: terms (+models) -> sum -> partial; dense probing of the resulting REAL object
# ---------------------------------------------------------------------------------------------------
class Built:
    """lh: the real object; p: the primals to probe at; dom_specs/treedef: its parameter tree;
    lsm_specs/treedef: tangent tree of L"""
    pass


def build_bases(case):
    """the real base likelihood objects, one per term (eager; constructors may inspect concrete data)"""
    return [build_lh(t) for t in case["terms"]]


def assemble(case, bases, lsm_override=True):
    """bases -> amend with the harness forward models -> sum -> partial freeze; the primals to probe at"""
    jax = jx()
    j = jft()
    terms = case["terms"]
    lat = case.get("latent")
    b = Built()
    b.terms = terms
    if lat is None:
        assert len(terms) == 1
        ps = primal_spec(terms[0])
        b.lh, b.p = bases[0], build_from_spec(ps, np.asarray(terms[0]["y"], dtype=float))
    else:
        lspec = latent_spec(lat)
        x = tree_from_flat(lspec, np.asarray(case["x"], dtype=float))
        lhs = []
        b.xfull, b.bases = x, bases
        b.fwd = [forward_tree_fn(term, lat) for term in terms]
        for term, base in zip(terms, bases):
            if term["model"].get("pre") is not None:
                # LikelihoodWithModel.amend -> _ChainModel
                # (the chained forward model is a LazyModel without domain: hand the domain to `amend`, otherwise a
                #  later LikelihoodSum cannot evaluate `.domain` of the summand)
                dom = jax.tree_util.tree_map(j.ShapeWithDtype.from_leave, x)
                a = base.amend(forward_tree_fn(term, lat, skip_pre=True)).amend(pre_tree_fn(term, lat), domain=dom)
                lhs.append(defaults_of(a) if term.get("defaults") == "outer" else a)
                continue
            f = forward_tree_fn(term, lat)
            if term["model"].get("lazy"):
                f = j.Model(f, domain=jax.tree_util.tree_map(j.ShapeWithDtype.from_leave, x))
            a = base.amend(f)
            # "outer": a user-style likelihood that only defines energy and transformation of the WHOLE composition
            lhs.append(defaults_of(a) if term.get("defaults") == "outer" else a)
        lh = lhs[0]
        if case.get("sumctor") and len(lhs) > 1:
            from nifty.re.likelihood import LikelihoodSum
            lh = LikelihoodSum(*lhs)
        else:
            for other in lhs[1:]:
                lh = lh + other
        frozen = case.get("freeze") or []
        if frozen:
            keys = tuple(f"a{k}" for k in frozen)
            lh, x = lh.freeze(primals=x, point_estimates=keys)
        b.lh, b.p = lh, x
    b.dom_specs, b.dom_def = spec_of_swd(b.p)
    b.lsm_specs, b.lsm_def = spec_of_swd(b.lh.lsm_tangents_shape)
    b.lsm_declared = [list(s["shape"]) for s in b.lsm_specs]
    if lsm_override and any(t["kind"] == "categorical" for t in terms):
        # Categorical declares the DATA shape (one entry per distribution) as tangent shape although its
        # left_sqrt_metric acts on logits-shaped tangents; probe L on the logits shape (see design.d/C12.md)
        b.lsm_specs = _override_specs(b.lsm_specs, terms)
    return b


def build_case(case, lsm_override=True):
    return assemble(case, build_bases(case), lsm_override)


def _override_specs(lsm_specs, terms):
    """replace, term by term (terms appear in key order lh_0, lh_1, ... in the joined tangent tree), the tangent
    leaf shapes of categorical terms by the logits shapes"""
    out, off = [], 0
    for term in terms:
        n = len(lsm_leafspecs_of_term(term))
        if term["kind"] == "categorical":
            out += [dict(shape=list(s["shape"])) for s in spec_leaves(primal_spec(term))]
        else:
            out += lsm_specs[off:off + n]
        off += n
    return out


def lsm_leafspecs_of_term(term):
    """leaf specs of the declared tangent space of L for a base likelihood (data space)"""
    k = term["kind"]
    t = term["tree"]
    if k in ("gaussian", "studentt"):
        return [dict(l) for l in t["leaves"]]
    if k in ("poisson", "categorical"):
        return [dict(shape=l["shape"]) for l in t["leaves"]]
    return spec_leaves(primal_spec(term))


def _lin(fn, specs, treedef):
    jax = jx()
    n = sum(leaf_sizes(specs))
    return jax.vmap(lambda v: realflat(fn(unflat_like(specs, treedef, v))))(jax.numpy.eye(n, dtype=rdt())).T


def probe(b, want=("M", "L", "R", "T")):
    """dense matrices of the real object (one jit-compiled program per case: eager dispatch would compile every
    tiny primitive separately). Returns dict name -> np.ndarray; "T" = Jacobian of the transformation, "Tval" its value"""
    jax = jx()
    lh, p = b.lh, b.p

    fwd = getattr(b, "fwd", None) if "C" in want else None
    if fwd is not None:
        xf_specs, xf_def = spec_of_swd(b.xfull)
        xf0 = jax.numpy.asarray(np.asarray(realflat(b.xfull), dtype=float))
    else:
        xf0 = jax.numpy.zeros((0,))

    def everything(x0, xf0):
        # the point is an ARGUMENT of the compiled program (no constant folding of the whole computation)
        p = unflat_like(b.dom_specs, b.dom_def, x0)
        out = {}
        if fwd is not None:
            # per term: Jacobian of the forward model by jacfwd AND jacrev (real coordinates of the FULL latent
            # tree), the base likelihood's own dense metric / left square root at the forward value
            for k, (f, base, term) in enumerate(zip(fwd, b.bases, b.terms)):
                g = lambda v, f=f: realflat(f(unflat_like(xf_specs, xf_def, v)))
                out[f"Jf{k}"] = jax.jacfwd(g)(xf0)
                out[f"Jr{k}"] = jax.jacrev(g)(xf0)
                y = f(unflat_like(xf_specs, xf_def, xf0))
                ys, yd = spec_of_swd(y)
                out[f"Mk{k}"] = _lin(lambda t, y=y, base=base: base.metric(y, t), ys, yd)
                ls, ld = spec_of_swd(base.lsm_tangents_shape)
                if term["kind"] == "categorical":
                    ls = [dict(shape=list(s_["shape"])) for s_ in spec_leaves(primal_spec(term))]
                out[f"Lk{k}"] = _lin(lambda t, y=y, base=base: base.left_sqrt_metric(y, t), ls, ld)
        if "H" in want:
            e = lambda v: lh.energy(unflat_like(b.dom_specs, b.dom_def, v))
            out["H"] = jax.hessian(e)(x0)
        if "M" in want:
            out["M"] = _lin(lambda t: lh.metric(p, t), b.dom_specs, b.dom_def)
        if "L" in want:
            out["L"] = _lin(lambda t: lh.left_sqrt_metric(p, t), b.lsm_specs, b.lsm_def)
        if "R" in want:
            out["R"] = _lin(lambda t: lh.right_sqrt_metric(p, t), b.dom_specs, b.dom_def)
        if "T" in want:
            g = lambda v: realflat(lh.transformation(unflat_like(b.dom_specs, b.dom_def, v)))
            out["T"] = jax.jacfwd(g)(x0)
            out["Tval"] = g(x0)
        return out
    x0 = jax.numpy.asarray(np.asarray(realflat(p), dtype=float))
    return {k: np.asarray(v, dtype=float) for k, v in jax.jit(everything)(x0, xf0).items()}


def transformation_jacobians(case, bases, variants):
    """Jacobians of the transformation of the whole case for several data sets of the terms whose transformation is a
    documented local approximation.  variants: list of (term index, array (nv, len(data))) -- the stack is aligned:
    variant v replaces the data of ALL listed terms by row v.  Returns array (nv, out, in)."""
    jax = jx()
    jnp = jax.numpy
    idx = [ti for ti, _ in variants]
    stacks = [jnp.asarray(np.asarray(V, dtype=float)) for _, V in variants]

    def one(*rows):
        bs = list(bases)
        for ti, row in zip(idx, rows):
            term = dict(case["terms"][ti])
            bs[ti] = build_lh(term, data=tree_from_flat(term["tree"], row))
        b = assemble(case, bs)
        x0 = realflat(b.p)
        g = lambda v: realflat(b.lh.transformation(unflat_like(b.dom_specs, b.dom_def, v)))
        return jax.jacfwd(g)(x0)
    return np.asarray(jax.jit(jax.vmap(one))(*stacks))
