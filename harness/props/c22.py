"""C22 — Classic VI results do not depend on the number of MPI tasks (shareRange part; see DESIGN.md §5 C22)."""
from translators import t3_sharerange

ID = "C22"
LEAN_MODULES = ["NiftyVerif.Props.C22"]
DRIVER = "Driver/C22.lean"
TRANSLATORS = [t3_sharerange.translate]
OBLIGATIONS = ["NiftyVerif.C22." + t for t in (
    "shareRange_starts_at_zero", "shareRange_consecutive", "shareRange_ends_at_n", "shareRange_size",
    "shareRange_monotone", "shareRange_covers", "shareRange_disjoint")]
RULE = ("shareRange(n,p,r) enumerated for all n<=N, 1<=p<=P, r<p (plus p=0 error stream); non-trivial = n>0; "
        "distinct by (n,p,r)")
TRUSTED_BASE = ["Lean 4.33 kernel; axioms propext/Classical.choice/Quot.sound only (audited every run)",
                "translator T3 (translators/t3_sharerange.py, py2lean.py): straight-line integer code -> Lean Nat; "
                "validated every run by exhaustive comparison with the Python original on the enumerated grid"]
ASSUMPTIONS = ["Python ints modelled as Nat (call sites pass non-negative values)"]


def _impl(case):
    from nifty.cl.utilities import shareRange
    try:
        lo, hi = shareRange(case["n"], case["p"], case["r"])
        return {"lo": int(lo), "hi": int(hi)}
    except ZeroDivisionError:
        return {"error": "ZeroDivisionError"}


def oracle(case):
    """property stated on the real code only: the shares of (n,p) are an ordered exact partition of range(n)"""
    from nifty.cl.utilities import shareRange
    n, p = case["n"], case["p"]
    if p == 0:
        return None
    items = []
    for r in range(p):
        lo, hi = shareRange(n, p, r)
        if hi < lo:
            return (f"shareRange({n},{p},{r}) = ({lo},{hi}) is not a range", {"site": "shareRange", "kind": "range"})
        items += list(range(lo, hi))
    if items != list(range(n)):
        return (f"shares of shareRange({n},{p},·) enumerate {items}, not range({n})",
                {"site": "shareRange", "kind": "partition"})
    sizes = [shareRange(n, p, r)[1] - shareRange(n, p, r)[0] for r in range(p)]
    if max(sizes) - min(sizes) > 1:
        return (f"share sizes {sizes} differ by more than one", {"site": "shareRange", "kind": "fair"})
    return None


def shrink(case):
    n, p, r = case["n"], case["p"], case["r"]
    for n2 in range(0, n):
        yield dict(case, n=n2)
    for p2 in range(1, p):
        yield dict(case, p=p2, r=min(r, p2 - 1))


def run(ctx):
    N, P = ctx.n(24, 80), ctx.n(8, 20)
    cases = [dict(op="shareRange", n=n, p=p, r=r) for n in range(N + 1) for p in range(1, P + 1) for r in range(p)]
    cases += [dict(op="shareRange", n=n, p=0, r=0) for n in range(3)]
    outs = ctx.model(DRIVER, cases)
    for c, m in zip(cases, outs):
        ctx.stat("p=0" if c["p"] == 0 else ("p>n" if c["p"] > c["n"] else "p<=n"))
        ctx.compare(c, _impl(c), m, note="T3 shareRange: generated Lean definition vs Python original",
                    nontrivial=c["n"] > 0)
    for n in range(N + 1):
        for p in range(1, P + 1):
            r = oracle(dict(n=n, p=p, r=0))
            if r:
                ctx.counterexample(dict(op="shareRange", n=n, p=p, r=0), *r)
    ctx.extra["exhaustive"] = True


def search(ctx):
    for n in range(0, 200):
        for p in range(1, 40):
            r = oracle(dict(n=n, p=p, r=0))
            if r:
                ctx.counterexample(dict(op="shareRange", n=n, p=p, r=0), *r)
                return
