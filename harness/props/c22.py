"""C22 — Classic VI results do not depend on the number of MPI tasks (DESIGN.md §5 C22).

Part 1 (translator T3): `shareRange` regenerated into Lean, compared exhaustively with the Python original.
Part 2 (Model/Distributed.lean): which global indices / seeds / neg flags every task handles — compared with what the
        real `draw_samples` / `ResidualSampleList` report on every rank (class E).
Part 3 (the property itself, on the real code): scenarios
          kl   SampledKLEnergy (value, gradient, metric·v, samples, average, sample_stat; mirrored or not, constants,
               point estimates, geometric sampling),
          sl   SampleList / ResidualSampleList built from an explicit (arbitrary ordered) partition: average, sample_stat,
               iterator, n_samples,
          okl  a small optimize_kl run (MAP iteration with n_samples=0, then sampled iterations)
        run with comm=None and over the synchronous fake communicator with 1..6 ranks (more ranks than samples included);
        every rank's results must be BITWISE equal to the single-process results.
"""
import hashlib
import os
import shutil
import tempfile

from core.ctx import canon
from props import _mpi_fakempi as fm
from translators import t3_sharerange

ID = "C22"
LEAN_MODULES = ["NiftyVerif.Props.C22", "NiftyVerif.Core.Proto", "NiftyVerif.Model.Distributed"]
DRIVER = "Driver/C22.lean"
TRANSLATORS = [t3_sharerange.translate]
OBLIGATIONS = ["NiftyVerif.C22." + t for t in (
    "shareRange_starts_at_zero", "shareRange_consecutive", "shareRange_ends_at_n", "shareRange_size",
    "shareRange_monotone", "shareRange_covers", "shareRange_disjoint",
    "mirror_pair_same_seed", "odd_start_redraws_same_y", "localIndices_concat",
    "local_results_independent_of_partition", "samples_same_for_all_task_counts", "local_indices_eq_shareRange",
    "distributed_average_eq_serial", "iterate_keeps_sync", "sync_checks_never_fire", "root_keeps_object_breaks_sync",
    "single_value_list")]
RULE = ("(a) shareRange(n,p,r) enumerated for all n<=N, 1<=p<=P, r<p (plus p=0 error stream); "
        "(b) scenario specs (kl: n_samples 1..4 x mirrored x constants/point estimates x linear/geometric sampling; "
        "sl: explicit partitions incl. empty ranks; okl: MAP + sampled iterations) each run serially and with p ranks, "
        "p from 1..6; non-trivial = at least two ranks hold samples or some rank is empty; distinct by (spec, p)")
TRUSTED_BASE = ["Lean 4.33 kernel; axioms propext/Classical.choice/Quot.sound only (audited every run)",
                "translator T3 (translators/t3_sharerange.py, py2lean.py): straight-line integer code -> Lean Nat; "
                "validated every run by exhaustive comparison with the Python original on the enumerated grid",
                "harness/props/_mpi_fakempi.py stands in for MPI (synchronous sends, forked ranks)",
                "Model/Distributed.lean is a hand transcription of draw_samples' loop and _compute_local_indices; "
                "`draw` is an uninterpreted function of the seed index (justified by C21 draws_depend_only_on_seed)"]
ASSUMPTIONS = ["Python ints modelled as Nat (call sites pass non-negative values)",
               "real MPI transport, pickling through mpi4py and rank-dependent BLAS threading are not exercised"]

P_ALL = [1, 2, 3, 4, 5, 6]
NASTY = [1e16, 1.0, -1e16, 3.0, 1e-3, -1.0, 0.1, 7.0, 1e-17, -3.0, 0.3, 2.5]


# ------------------------------------------------------------------------------------------------------
# part 1: shareRange
def _impl_share(case):
    from nifty.cl.utilities import shareRange
    try:
        lo, hi = shareRange(case["n"], case["p"], case["r"])
        return {"lo": int(lo), "hi": int(hi)}
    except ZeroDivisionError:
        return {"error": "ZeroDivisionError"}


def _oracle_share(case):
    from nifty.cl.utilities import shareRange
    n, p = case["n"], case["p"]
    if p == 0:
        return None
    items = []
    for r in range(p):
        lo, hi = shareRange(n, p, r)
        if hi < lo:
            return (f"shareRange({n},{p},{r}) = ({lo},{hi}) is not a range", {"site": "shareRange", "kind": "range"})
        items += list(range(lo, hi))
    if items != list(range(n)):
        return (f"shares of shareRange({n},{p},·) enumerate {items}, not range({n})",
                {"site": "shareRange", "kind": "partition"})
    sizes = [shareRange(n, p, r)[1] - shareRange(n, p, r)[0] for r in range(p)]
    if max(sizes) - min(sizes) > 1:
        return (f"share sizes {sizes} differ by more than one", {"site": "shareRange", "kind": "fair"})
    return None


# ------------------------------------------------------------------------------------------------------
# part 3: scenarios (run inside the rank processes)
def _hexes(arr):
    import numpy as np
    a = np.asarray(arr)
    if np.iscomplexobj(a):
        a = np.stack([a.real, a.imag], -1)
    return [float(t).hex() for t in np.asarray(a, dtype=np.float64).ravel()]


def _enc(obj):
    """Field / MultiField / scalar -> {key: hex list}"""
    import nifty.cl as ift
    if isinstance(obj, ift.MultiField):
        return {k: _hexes(v.val.asnumpy()) for k, v in sorted(obj.to_dict().items())}
    if isinstance(obj, ift.Field):
        return {"": _hexes(obj.val.asnumpy())}
    return {"": _hexes(obj)}


def _digest(obj):
    return hashlib.sha1(canon(_enc(obj)).encode()).hexdigest()[:16]


def _build(spec):
    import numpy as np
    import nifty.cl as ift
    dom = ift.RGSpace(4)
    A = ift.FieldAdapter(dom, "a")
    B = ift.FieldAdapter(dom, "b")
    if spec.get("model", 0) == 0:
        op = A.exp() * B.tanh() + A
    else:
        op = (A + B).sigmoid() + 0.5 * B
    d = ift.makeField(dom, np.array(spec.get("data", [0.3, -1.2, 0.7, 2.1])))
    N = ift.ScalingOperator(dom, 0.25, float)
    lh = ift.GaussianEnergy(d, inverse_covariance=N.inverse) @ op
    return dom, op, lh


def _scen_kl(comm, spec, root=None):
    import nifty.cl as ift
    dom, op, lh = _build(spec)
    ic = ift.GradientNormController(iteration_limit=spec.get("cg", 5))
    ham = ift.StandardHamiltonian(lh, ic, prior_sampling_dtype=float)
    pos = 0.1 * ift.from_random(lh.domain)
    geo = ift.NewtonCG(ift.GradientNormController(iteration_limit=2)) if spec.get("geo") else None
    kl = ift.SampledKLEnergy(pos, ham, spec["n"], geo, mirror_samples=spec["mirror"], constants=spec.get("const", []),
                             point_estimates=spec.get("pe", []), comm=comm)
    out = {"value": _enc(kl.value), "gradient": _enc(kl.gradient)}
    vec = ift.from_random(kl.position.domain)
    out["metric_v"] = _enc(kl.metric(vec))
    sl = kl.samples
    out["n_samples"] = int(sl.n_samples)
    out["samples"] = [_enc(s) for s in sl.iterator()]
    out["average_op"] = _enc(sl.average(op))
    m, v = sl.sample_stat(op)
    out["stat_mean"], out["stat_var"] = _enc(m), _enc(v)
    kl2 = kl.at(kl.position + 0.01 * vec)
    out["value_at"], out["gradient_at"] = _enc(kl2.value), _enc(kl2.gradient)
    rsl = kl._sample_list
    out["local"] = dict(indices=[int(i) for i in rsl.local_indices], neg=[bool(b) for b in rsl._n],
                        ydig=[_digest(r) for r in rsl._r])
    return out


def _sl_sample(spec, i):
    import numpy as np
    import nifty.cl as ift
    vals = spec["vals"]
    dom = ift.RGSpace(3)
    arr = np.array([vals[i % len(vals)], -vals[(i + 1) % len(vals)], vals[(2 * i + 1) % len(vals)]])
    if spec.get("multi"):
        return ift.MultiField.from_dict({"a": ift.makeField(dom, arr), "b": ift.makeField(dom, arr[::-1] * 0.5)})
    return ift.makeField(dom, arr)


def _scen_sl(comm, spec, root=None):
    import nifty.cl as ift
    p = 1 if comm is None else comm.Get_size()
    r = 0 if comm is None else comm.Get_rank()
    counts = spec["parts"][str(p)] if comm is not None else [spec["n"]]
    lo = sum(counts[:r])
    mine = [_sl_sample(spec, i) for i in range(lo, lo + counts[r])]
    dom = _sl_sample(spec, 0).domain
    sl = ift.SampleList(mine, comm=comm, domain=dom)
    if spec.get("multi"):
        op = ift.FieldAdapter(dom["a"], "a").exp() + ift.FieldAdapter(dom["b"], "b")
    else:
        op = ift.ScalingOperator(dom, 3.).exp() if spec.get("nonlin") else None
    out = {"n_samples": int(sl.n_samples), "average": _enc(sl.average()), "samples": [_enc(s) for s in sl.iterator()]}
    out["average_op"] = _enc(sl.average(op))
    m, v = sl.sample_stat(op)
    out["stat_mean"], out["stat_var"] = _enc(m), _enc(v)
    # the same data as residuals around a mean
    mean = _sl_sample(spec, 1)
    neg = [bool((i * 7 + spec["n"]) % 3 == 0) for i in range(lo, lo + counts[r])]
    rsl = ift.ResidualSampleList(mean, mine, neg, comm=comm)
    out["r_average"] = _enc(rsl.average())
    m, v = rsl.sample_stat(op)
    out["r_stat_mean"], out["r_stat_var"] = _enc(m), _enc(v)
    if spec.get("full"):
        out["r_samples"] = [_enc(s) for s in rsl.iterator()]
    out["local"] = dict(indices=[int(i) for i in sl.local_indices])
    return out


def _scen_okl(comm, spec, root=None):
    import nifty.cl as ift
    dom, op, lh = _build(spec)
    ns = spec["ns"]
    ic = ift.GradientNormController(iteration_limit=spec.get("cg", 4))
    mini = ift.NewtonCG(ift.GradientNormController(iteration_limit=spec.get("newton", 2)))
    geo = ift.NewtonCG(ift.GradientNormController(iteration_limit=2)) if spec.get("geo") else None
    const, pe = spec.get("const", {}), spec.get("pe", {})
    seen = []

    def inspect(sl, i):
        seen.append([int(i), int(sl.n_samples), _digest(sl.average())])

    kw = dict(nonlinear_sampling_minimizer=geo, return_final_position=True, comm=comm,
              constants=lambda i: const.get(str(i), []), point_estimates=lambda i: pe.get(str(i), []),
              inspect_callback=inspect, plot_energy_history=False, plot_minisanity_history=False)
    out = {}
    if spec.get("odir") and len(ns) >= 2:
        # with an output directory: exports + pickles written under MPI, then a second call that RESUMES from disk
        odir = os.path.join(root, f"okl_{spec['seed']}_{'ser' if comm is None else comm.Get_size()}")
        kw.update(output_directory=odir, export_operator_outputs={"sig": op}, resume=True)
        ift.optimize_kl(lh, len(ns) - 1, lambda i: ns[i], mini, ic, **kw)
        sl, mean = ift.optimize_kl(lh, len(ns), lambda i: ns[i], mini, ic, **kw)
        base = os.path.join(odir, "pickle", "latest")
        if os.path.isfile(base + ".mean.pickle"):
            dsl = ift.ResidualSampleList.load(base, comm=comm)
        else:
            dsl = ift.SampleList.load(base, comm=comm)
        out["disk_samples"] = [_enc(s) for s in dsl.iterator()]
        out["last_finished"] = open(os.path.join(odir, "last_finished_iteration")).read()
        try:
            import h5py
            import numpy as np
            with h5py.File(os.path.join(odir, "sig", "latest.hdf5") if os.path.isfile(os.path.join(odir, "sig", "latest.hdf5"))
                           else os.path.join(odir, "sig", "last.hdf5"), "r") as f:
                out["h5_mean"] = _hexes(np.array(f["stats/mean"]))
        except Exception as e:  # noqa: BLE001
            out["h5_mean"] = sorted(os.listdir(os.path.join(odir, "sig"))) if os.path.isdir(os.path.join(odir, "sig")) else type(e).__name__
    else:
        sl, mean = ift.optimize_kl(lh, len(ns), lambda i: ns[i], mini, ic, output_directory=None, **kw)
    out.update({"mean": _enc(mean), "n_samples": int(sl.n_samples), "samples": [_enc(s) for s in sl.iterator()],
                "inspect": seen, "rng_depth": len(ift.random._sseq)})
    m, v = sl.sample_stat(op)
    out["stat_mean"], out["stat_var"] = _enc(m), _enc(v)
    out["local"] = dict(indices=[int(i) for i in sl.local_indices])
    return out


def _scen_sync(comm, spec, root=None):
    """do optimize_kl's own sync checks fire?  `rootkeeps`: a communicator whose bcast leaves the root's object in place
    (NOT mpi4py's semantics) — the model predicts that the MAP branch then fails its check for >= 2 tasks"""
    import copy
    import nifty.cl as ift
    if comm is not None and spec.get("rootkeeps"):
        base_bcast = type(comm).bcast

        def bcast(self, obj=None, root=0):
            r = base_bcast(self, obj, root)
            return obj if self.Get_rank() == root else r
        comm = copy.copy(comm)
        comm.__class__ = type("RootKeepsComm", (type(comm),), {"bcast": bcast})
    dom, op, lh = _build(spec)
    ns = spec["ns"]
    ic = ift.GradientNormController(iteration_limit=2)
    mini = ift.NewtonCG(ift.GradientNormController(iteration_limit=1))
    try:
        ift.optimize_kl(lh, len(ns), lambda i: ns[i], mini, ic, nonlinear_sampling_minimizer=None, output_directory=None,
                        comm=comm, plot_energy_history=False, plot_minisanity_history=False)
        return {"pass": True}
    except RuntimeError as e:
        if "not in sync" in str(e):
            return {"pass": False}
        raise


SCEN = {"kl": _scen_kl, "sl": _scen_sl, "okl": _scen_okl, "sync": _scen_sync}


def _job(comm, specs, serial, root):
    import nifty.cl as ift
    out = []
    for i, spec in enumerate(specs):
        comm.mark(i)
        d0 = len(ift.random._sseq)
        ift.random.push_sseq_from_seed(spec["seed"])
        try:
            out.append(SCEN[spec["scen"]](None if serial else comm, spec, root))
        except fm.FakeMPIError:
            raise
        except Exception as e:  # noqa: BLE001
            out.append({"error": type(e).__name__, "msg": str(e)[:200]})
        finally:
            while len(ift.random._sseq) > d0:
                ift.random.pop_sseq()
    return out


def _run(specs, p, serial=False, timeout=None, mode="coop"):
    """-> (list per spec of list per rank of outputs, failure info or None)"""
    timeout = timeout or 150.0 * fm.load_factor()
    root = tempfile.mkdtemp(prefix="c22_")
    try:
        res = fm.run(1 if serial else p, _job, specs, serial, root, seed=None, timeout=timeout, mode=mode)
    finally:
        shutil.rmtree(root, ignore_errors=True)
    n = 1 if serial else p
    outs = [[(res.values[r][i] if res.returned[r] and i < len(res.values[r]) else None) for r in range(n)]
            for i in range(len(specs))]
    fail = None
    if not res.ok:
        fail = dict(kind="deadlock" if res.deadlock and not res.timed_out else ("timeout" if res.timed_out else "rank-failed"),
                    blocked=(res.deadlock or {}).get("blocked"), errors=res.errors,
                    at=[max([int(c[1]) for c in res.calls[r] if c[0] == "mark"] or [0]) for r in range(n)])
    return outs, fail


def _strip(o):
    return {k: v for k, v in o.items() if k not in ("local", "msg")} if isinstance(o, dict) else o


def _first_diff(a, b):
    if not isinstance(a, dict) or not isinstance(b, dict):
        return "result"
    for k in sorted(set(a) | set(b)):
        if canon(a.get(k)) != canon(b.get(k)):
            return k
    return None


def _judge(spec, p, base, outs, fail):
    """compare one spec's per-rank outputs with the serial output -> None | (what, signature)"""
    sig = {"site": spec["scen"]}
    if fail is not None:
        return (f"{spec['scen']} scenario with {p} ranks does not complete: {fail}", dict(sig, what=fail["kind"]))
    for r, o in enumerate(outs):
        if o is None:
            return (f"{spec['scen']} scenario: rank {r} of {p} returned nothing", dict(sig, what="no-result"))
        d = _first_diff(_strip(base), _strip(o))
        if d is not None:
            return (f"{spec['scen']} scenario {spec}: `{d}` on rank {r} of {p} differs from the single-process run: "
                    f"{canon(o.get(d) if isinstance(o, dict) else o)[:160]} vs {canon(base.get(d) if isinstance(base, dict) else base)[:160]}",
                    dict(sig, what=d))
    return None


def oracle(case):
    """property on the real code only"""
    if case.get("op") == "shareRange":
        return _oracle_share(case)
    spec, p = case["spec"], case["p"]
    b, bf = _run([spec], 1, serial=True)
    if bf is not None:
        return None  # the single-process run itself fails: not a statement about distribution
    o, f = _run([spec], p)
    return _judge(spec, p, b[0][0], o[0], f)


def shrink(case):
    if case.get("op") == "shareRange":
        n, p, r = case["n"], case["p"], case["r"]
        for n2 in range(0, n):
            yield dict(case, n=n2)
        for p2 in range(1, p):
            yield dict(case, p=p2, r=min(r, p2 - 1))
        return
    spec, p = case["spec"], case["p"]
    for p2 in range(2, p):
        yield dict(case, p=p2)
    if spec["scen"] == "kl":
        if spec["n"] > 1:
            yield dict(case, spec=dict(spec, n=spec["n"] - 1))
        for k in ("geo", "const", "pe"):
            if spec.get(k):
                yield dict(case, spec={kk: vv for kk, vv in spec.items() if kk != k})
    if spec["scen"] == "okl" and len(spec["ns"]) > 1:
        yield dict(case, spec=dict(spec, ns=spec["ns"][1:]))
        yield dict(case, spec=dict(spec, ns=spec["ns"][:-1]))


# ------------------------------------------------------------------------------------------------------
def _gen_specs(ctx):
    rng = ctx.rng
    specs = []
    nkl = ctx.n(8, 32)
    combos = [(n, m) for n in (1, 2, 3, 4) for m in (True, False)]
    rng.shuffle(combos)
    for i in range(nkl):
        n, mirror = combos[i % len(combos)]
        s = dict(scen="kl", seed=rng.randrange(1 << 30), n=n, mirror=mirror, model=rng.randrange(2),
                 data=[rng.choice(NASTY[3:]) for _ in range(4)])
        c = rng.random()
        if c < 0.25:
            s["const"] = ["a"]
        elif c < 0.5:
            s["pe"] = ["b"]
        elif c < 0.6:
            s["const"], s["pe"] = ["a"], ["a"]
        elif c < 0.7:
            s["const"], s["pe"] = ["b"], ["a"]
        if rng.random() < 0.3:
            s["geo"] = True
        specs.append(s)
    for i in range(ctx.n(5, 20)):
        n = rng.randrange(1, 9)
        parts = {}
        for p in P_ALL:
            counts = [0] * p
            for _ in range(n):
                counts[rng.randrange(p)] += 1
            if rng.random() < 0.3:
                counts = sorted(counts)  # rank 0 possibly empty
            parts[str(p)] = counts
        specs.append(dict(scen="sl", seed=rng.randrange(1 << 30), n=n, parts=parts, multi=rng.random() < 0.5,
                          full=not ctx.quick,
                          nonlin=rng.random() < 0.5, vals=[rng.choice(NASTY) for _ in range(5)]))
    for i in range(ctx.n(2, 8)):
        ns = [0] + [rng.randrange(1, 4) for _ in range(rng.randrange(1, 3))] if i % 2 == 0 else \
            [rng.randrange(1, 4) for _ in range(2)]
        s = dict(scen="okl", seed=rng.randrange(1 << 30), ns=ns, model=rng.randrange(2))
        if rng.random() < 0.5:
            s["const"] = {str(rng.randrange(len(ns))): ["a"]}
        if rng.random() < 0.5:
            s["pe"] = {str(rng.randrange(len(ns))): ["b"]}
        if rng.random() < 0.3:
            s["geo"] = True
        if i % 2 == 1:
            s["odir"] = True     # output directory + exports + resume from disk
        specs.append(s)
    return specs


def _model_local(ctx, specs, ps):
    lines, keys = [], []
    for si, s in enumerate(specs):
        if s["scen"] == "kl":
            for p in ps:
                lines.append(dict(op="localSamples", n=s["n"], mirror=s["mirror"], p=p))
                keys.append((si, p))
    return dict(zip(keys, ctx.model(DRIVER, lines))) if lines else {}


def _classes(xs):
    seen = {}
    return [seen.setdefault(x, len(seen)) for x in xs]


def run(ctx):
    import numpy  # noqa: F401
    import nifty.cl  # noqa: F401
    # ---- part 1 -----------------------------------------------------------------------------------
    N, P = ctx.n(24, 80), ctx.n(8, 20)
    cases = [dict(op="shareRange", n=n, p=p, r=r) for n in range(N + 1) for p in range(1, P + 1) for r in range(p)]
    cases += [dict(op="shareRange", n=n, p=0, r=0) for n in range(3)]
    specs = _gen_specs(ctx)
    # quick: three rank counts per run (which ones depends on the seed); thorough: all of 1..6
    ps = P_ALL if not ctx.quick else [ctx.rng.choice([1, 2, 3]), ctx.rng.choice([4, 5]), 6]
    lines = list(cases)
    kl_keys = []
    for si, s in enumerate(specs):
        if s["scen"] == "kl":
            for p in ps:
                lines.append(dict(op="localSamples", n=s["n"], mirror=s["mirror"], p=p))
                kl_keys.append((si, p))
    sync_specs = []
    for ns in ([0], [0, 1], [1, 0], [0, 0, 2], [2, 1]):
        for rk in (False, True):
            sync_specs.append(dict(scen="sync", seed=ctx.rng.randrange(1 << 30), ns=ns, rootkeeps=rk, model=0))
    if ctx.quick:
        sync_specs = sync_specs[:6]
    sync_ps = [1, 2, 3] if not ctx.quick else [2]
    n_before_sync = len(lines)
    lines += [dict(op="sync", modes=[0 if n == 0 else 1 for n in s["ns"]], p=p, rootkeeps=s["rootkeeps"])
              for p in sync_ps for s in sync_specs]
    outs = ctx.model(DRIVER, lines)      # ONE model call for everything
    mres = outs[n_before_sync:]
    outs = outs[:n_before_sync]
    for c, m in zip(cases, outs):
        ctx.stat("shareRange:" + ("p=0" if c["p"] == 0 else ("p>n" if c["p"] > c["n"] else "p<=n")))
        ctx.compare(c, _impl_share(c), m, note="T3 shareRange: generated Lean definition vs Python original",
                    nontrivial=c["n"] > 0)
    for n in range(N + 1):
        for p in range(1, P + 1):
            r = _oracle_share(dict(n=n, p=p, r=0))
            if r:
                ctx.counterexample(dict(op="shareRange", n=n, p=p, r=0), *r)
    model_local = dict(zip(kl_keys, outs[len(cases):]))
    # ---- parts 2 and 3 ------------------------------------------------------------------------------
    base, bfail = _run(specs, 1, serial=True)
    if bfail is not None:
        ctx.broke("correspondence", "single-process baseline run failed", canon(bfail))
        return
    for p in ps:
        outs_p, fail = _run(specs, p)
        for si, s in enumerate(specs):
            b = base[si][0]
            case = dict(spec=s, p=p)
            ctx.stat(f"scen={s['scen']}")
            ctx.stat(f"p={p}")
            if isinstance(b, dict) and "error" in b:
                ctx.stat("baseline-error:" + b["error"])
            this_fail = fail if (fail is not None and si >= min(fail["at"])) else None
            j = _judge(s, p, b, outs_p[si], this_fail)
            nsamp = b.get("n_samples", 0) if isinstance(b, dict) else 0
            ctx.case(case, nontrivial=p > 1 and nsamp >= 1)
            if p > nsamp:
                ctx.stat("more-ranks-than-samples")
                ctx.stat("more-ranks-than-samples:" + s["scen"])
            if j is not None:
                ctx.counterexample(case, *j)
                continue
            ctx.traces_validated += p
            if s["scen"] == "kl" and isinstance(b, dict) and "error" not in b:
                m = model_local[(si, p)]
                loc = [o["local"] for o in outs_p[si]]
                impl = dict(indices=[l["indices"] for l in loc])
                mod = dict(indices=m["indices"])
                if m["computed"] != m["indices"]:
                    ctx.broke("correspondence", "model: computeLocalIndices != localIndices", canon(m))
                if not s.get("geo"):
                    impl["neg"] = [l["neg"] for l in loc]
                    mod["neg"] = m["neg"]
                    flat = _classes([d for l in loc for d in l["ydig"]])
                    impl["yclass"] = flat
                    mod["yclass"] = _classes([x for row in m["seed"] for x in row])
                ctx.compare(dict(case, part="local"), impl, mod,
                            note="draw_samples on every rank vs Model/Distributed (indices, neg flags, seed classes)",
                            nontrivial=p > 1)
    if not ctx.quick:
        # cross-check of the cooperative scheduler itself: true process isolation (one forked process per rank)
        sub = [s for s in specs if s["scen"] != "sl"][:6] + [s for s in specs if s["scen"] == "sl"][:2]
        bsub = [base[specs.index(s)][0] for s in sub]
        o3, f3 = _run(sub, 3, mode="procs")
        for s, b, o in zip(sub, bsub, o3):
            j = _judge(s, 3, b, o, f3)
            ctx.stat("procs-mode-crosscheck")
            if j is not None:
                ctx.counterexample(dict(spec=s, p=3, mode="procs"), *j)
    # ---- the sync checks of optimize_kl vs Model/Distributed.checksPass (incl. the non-mpi4py broadcast semantics) -------
    k = 0
    for p in sync_ps:
        so, sf = _run(sync_specs, p)
        for si, s in enumerate(sync_specs):
            m = mres[k]
            k += 1
            case = dict(spec=s, p=p, part="sync")
            ctx.stat("sync:" + ("rootkeeps" if s["rootkeeps"] else "mpi4py-bcast"))
            if sf is not None:
                ctx.counterexample(case, f"optimize_kl sync scenario with {p} ranks does not complete: {sf}",
                                   {"site": "sync", "what": sf["kind"]})
                break
            outs_s = so[si]
            impl = {"pass": all(isinstance(o, dict) and o.get("pass") is True for o in outs_s)} \
                if all(isinstance(o, dict) and "pass" in o for o in outs_s) else {"ranks": outs_s}
            ctx.compare(case, impl, m, note="optimize_kl's own sync checks vs Model/Distributed.checksPass", nontrivial=p > 1)
            if not s["rootkeeps"] and impl != {"pass": True}:
                ctx.counterexample(case, f"optimize_kl with {p} tasks and n_samples schedule {s['ns']} fails its own "
                                         f"'MPI tasks are not in sync' check on a correct run: {outs_s}",
                                   {"site": "sync", "what": "sync-check-fires"})
    if not ctx.quick:
        # MAP / sampled optimize_kl runs under true process isolation (no state shared between ranks at all)
        sub2 = [s for s in specs if s["scen"] == "okl"][:4]
        if sub2:
            b2 = [base[specs.index(s)][0] for s in sub2]
            o4, f4 = _run(sub2, 2, mode="procs")
            for s, b, o in zip(sub2, b2, o4):
                j = _judge(s, 2, b, o, f4)
                ctx.stat("procs-mode-crosscheck-okl")
                if j is not None:
                    ctx.counterexample(dict(spec=s, p=2, mode="procs"), *j)
    ctx.extra["exhaustive"] = False
    ctx.extra["shareRange_exhaustive"] = dict(n=N, p=P)
    ctx.extra["rank_counts"] = ps


def search(ctx):
    for n in range(0, 200):
        for p in range(1, 40):
            r = _oracle_share(dict(n=n, p=p, r=0))
            if r:
                ctx.counterexample(dict(op="shareRange", n=n, p=p, r=0), *r)
                return
    rng = ctx.rng
    for i in range(12):
        s = dict(scen="kl", seed=rng.randrange(1 << 30), n=rng.randrange(1, 4), mirror=bool(i % 2), model=0)
        for p in (2, 3):
            r = oracle(dict(spec=s, p=p))
            if r:
                ctx.counterexample(dict(spec=s, p=p), *r)
                return
