"""C17 — JAX Newton minimisers never go uphill and make progress when they can (DESIGN.md §5 C17).

Tie (class T): `_newton_cg` and `_static_newton_cg` are run on generated polynomial objectives (rational coefficients,
pytree positions) with the inner CG pinned through `cg_kwargs` to the configuration modelled in C15 (norm_ord=2, fixed
resnorm); the Lean model (exact rationals; CG = the C15 model) must give the same accepted energies, status, nit, x.
Branch decisions are compared only when the model's trace shows a relative margin at every comparison.
Oracle (real code only, default CG settings too): energy never above start (eager, compiled, trust region), returned `fun`
is the energy of the returned point, eager and compiled agree, a negative-curvature start makes progress along −g.
"""
import math
from fractions import Fraction

import numpy as np

from ._iter_common import rs

ID = "C17"
LEAN_MODULES = ["NiftyVerif.Core.Proto", "NiftyVerif.Model.RVec", "NiftyVerif.Model.CgRe", "NiftyVerif.Model.NewtonRe",
                "NiftyVerif.Props.C17"]
DRIVER = "Driver/C17.lean"
OBLIGATIONS = ["NiftyVerif.C17." + t for t in (
    "ncg_never_uphill", "static_ncg_never_uphill", "static_ncg_eq_eager", "line_search_accepts_first",
    "negcurv_progress", "trust_never_uphill", "static_stack_eq_eager_stack", "old_rule_accepts_uphill", "zero_energy_args_differ")]
RULE = ("objective family (quartic double well with couplings, Rosenbrock-like, convex, cubic-perturbed; trigonometric in the "
        "oracle-only stream) x dimension x pytree shape x start (positive / zero / negative curvature along the gradient) x "
        "iteration limits, absdelta, xtol; non-trivial = at least one Newton iteration with a non-zero gradient; distinct by "
        "canonical case")
TRUSTED_BASE = [
    "Lean 4.33 kernel; axioms propext/Classical.choice/Quot.sound only (audited every run)",
    "hand-written model Model/NewtonRe.lean of _newton_cg/_static_newton_cg/_line_search_successive_halving/_trust_ncg "
    "(tied by differential execution, class T); CG oracle instantiated by the C15 model",
    "jax.value_and_grad / jvp compute the gradient and Hessian-vector product of the generated polynomial (driver "
    "differentiates the polynomial symbolically)",
    "IEEE rounding, XLA, lax.while_loop/cond: executed, not modelled"]
ASSUMPTIONS = ["NaN handling, time_threshold, logging, nfev/njev/nhev not modelled",
               "CG stopping parameters derived from the energy history (cg_absdelta, cg_resnorm with norm_ord=1) are not "
               "modelled: in model-compared cases the CG configuration is pinned through cg_kwargs",
               "_trust_ncg: decision logic modelled with the sub-problem solver as an oracle; tie by replaying the recorded "
               "answers of the real _cg_steihaug_subproblem (host callback) through the model"]

XTOL = 1e-6
MARGIN = 1e-7
_J = {}


def _jax():
    if not _J:
        import jax
        jax.config.update("jax_enable_x64", True)
        import logging
        import jax.numpy as jnp
        import nifty.re as jft
        from nifty.re import optimize as opt
        from nifty.re.logger import logger as _lg
        _lg.setLevel(logging.CRITICAL)
        _J.update(jax=jax, jnp=jnp, jft=jft, opt=opt)
    return _J


# ------------------------------------------------------------------------------------------------ objectives
def _poly_fun(poly, n):
    jnp = _jax()["jnp"]

    def fflat(v):
        tot = 0.0
        for c, e in poly:
            term = c
            for i, k in enumerate(e):
                if k:
                    term = term * v[i] ** k
            tot = tot + term
        return tot
    return fflat


def _trig_fun(spec):
    jnp = _jax()["jnp"]

    def fflat(v):
        tot = 0.0
        for a, w, i in spec["cos"]:
            tot = tot + a * jnp.cos(w * v[i])
        for a, i, j in spec["quad"]:
            tot = tot + a * v[i] * v[j]
        return tot
    return fflat


def _split(case):
    n = len(case["x0"])
    k = case.get("split", 0)
    return n, k


def _mk(case):
    """-> (fun on positions, x0 position, flatten)"""
    J = _jax()
    jnp, jft = J["jnp"], J["jft"]
    n, k = _split(case)
    if case.get("trig"):
        fflat = _trig_fun(case["trig"])
    else:
        poly = [(float(Fraction(m["c"])), m["e"]) for m in case["poly"]]
        fflat = _poly_fun(poly, n)
    x0f = jnp.array([float(Fraction(v)) for v in case["x0"]], dtype=float)
    if k and 0 < k < n:
        x0 = jft.Vector({"a": x0f[:k], "b": (x0f[k:],)})
        flat = lambda p: jnp.concatenate([p.tree["a"], p.tree["b"][0]])
    else:
        x0 = x0f
        flat = lambda p: p
    return (lambda p: fflat(flat(p))), x0, flat, fflat


def _kwargs(case, pinned=True):
    kw = {"miniter": case.get("miniter"), "maxiter": case.get("maxiter"), "xtol": float(Fraction(case["xtol"]))}
    if case.get("absdelta") is not None:
        kw["absdelta"] = float(Fraction(case["absdelta"]))
    if case.get("cgfake") is not None:
        from nifty.re.conjugate_gradient import CGResults
        sc, inf = float(Fraction(case["cgfake"]["scale"])), int(case["cgfake"]["info"])
        kw["cg"] = lambda mat, j, *a, **k: CGResults(x=sc * j, nit=0, nfev=0, info=inf, success=inf == 0)
    if case.get("erf", "default") != "default":
        kw["energy_reduction_factor"] = None if case["erf"] is None else float(Fraction(case["erf"]))
    if case.get("old_fval") is not None:
        kw["old_fval"] = float(Fraction(case["old_fval"]))
    if pinned and case.get("cg") is not None:
        cg = case["cg"]
        ck = {}
        if cg.get("pin_res", True):       # cg_kwargs pin the CG configuration modelled in C15: norm_ord=2, fixed resnorm
            ck.update({"norm_ord": 2, "absdelta": None, "resnorm": float(Fraction(cg["resnorm"]))})
        elif cg.get("norm_ord", "1") == "inf":
            ck["norm_ord"] = float("inf")
        for k in ("miniter", "maxiter"):
            if cg.get(k) is not None or cg.get("pin_res", True):
                ck[k] = cg.get(k)
        if ck:
            kw["cg_kwargs"] = ck
    return kw


_MEMO = {}


def _run_real(case, variant, kw=None, pinned=True):
    import json
    key = json.dumps([case, variant, kw, pinned], sort_keys=True, default=str)
    if key not in _MEMO:
        if len(_MEMO) > 3000:
            _MEMO.clear()
        _MEMO[key] = _run_real_(case, variant, kw, pinned)
    return _MEMO[key]


_NRUN = [0]


def _housekeeping():
    """every new closure is a new XLA compilation: drop the compilation caches regularly (JIT code memory is finite)"""
    _NRUN[0] += 1
    if _NRUN[0] % 40 == 0:
        try:
            _jax()["jax"].clear_caches()
            import gc
            gc.collect()
        except Exception:
            pass


def _run_real_(case, variant, kw, pinned):
    _housekeeping()
    J = _jax()
    opt = J["opt"]
    try:
        fun, x0, flat, _ = _mk(case)
        kw = dict(_kwargs(case, pinned) if kw is None else kw)
        if case.get("cgfake") is not None and "cg" not in kw:
            kw["cg"] = _kwargs(case, pinned)["cg"]
        if variant == "trust":
            kw2 = {"maxiter": kw.get("maxiter")}
            if case.get("trust_radius") is not None:
                kw2["initial_trust_radius"] = float(Fraction(case["trust_radius"]))
            if kw.get("absdelta") is not None:
                kw2["absdelta"] = kw["absdelta"]
            r = opt._trust_ncg(fun, x0, **kw2)
        else:
            f = opt._newton_cg if variant == "eager" else opt._static_newton_cg
            r = f(fun, x0, **kw)
        x = [float(t) for t in np.array(flat(r.x))]
        out = {"x": x, "status": int(r.status), "fun": float(r.fun), "nit": int(r.nit)}
        if variant != "trust" and r.nfev is not None:
            out["nfev"] = int(r.nfev)
        return out
    except Exception as e:
        name = type(e).__name__
        if "ValueError" in str(e) or name in ("XlaRuntimeError", "JaxRuntimeError"):
            name = "ValueError"
        return {"error": name}


def _f_at(case, x):
    J = _jax()
    _, _, _, fflat = _mk(case)
    return float(fflat(J["jnp"].array(x, dtype=float)))


# ------------------------------------------------------------------------------------------------ model
def _model_line(case):
    fin = np.finfo(np.float64)
    n = len(case["x0"])
    cg = case["cg"]
    pin = bool(cg.get("pin_res", True))
    erf = case.get("erf", "default")
    return {"op": "ncg", "x0": case["x0"], "poly": case["poly"],
            "cgfake": case.get("cgfake"),
            "miniter": 0 if case.get("miniter") is None else case["miniter"],
            "maxiter": 200 if case.get("maxiter") is None else case["maxiter"],
            "absdelta": case.get("absdelta"), "xtol": rs(Fraction(case["xtol"]) * n),
            "erf": rs(0.1) if erf == "default" else erf, "old_fval": case.get("old_fval"),
            "cg": {"norm_ord": "2" if pin else cg.get("norm_ord", "1"), "pin_res": pin, "pin_abs": pin,
                   "resnorm": cg.get("resnorm") if pin else None, "absdelta": None,
                   "miniter": cg.get("miniter"), "maxiter": cg.get("maxiter"),
                   "tiny": rs(6.0 * float(fin.tiny)), "eps": rs(6.0 * float(fin.eps)), "tol": rs(1e-5)}}


def _fl(s):
    m, e = s.split("e")
    return float(Fraction(int(m)) * Fraction(10) ** int(e))


def _trace_robust(case, m):
    """every comparison of the model run has a relative margin (or is an exact tie of identical points)"""
    xt = float(Fraction(case["xtol"])) * len(case["x0"])
    ad = None if case.get("absdelta") is None else float(Fraction(case["absdelta"]))
    fake0 = case.get("cgfake") is not None and Fraction(case["cgfake"]["scale"]) == 0
    for idx, it in enumerate(m["trace"]):
        if it is None:
            return False
        e = _fl(it["e"])
        natg = [_fl(v) for v in it["natg"]]
        zero_step = all(v == 0.0 for v in natg)
        if zero_step and not (idx == 0 or fake0):
            # an exactly vanishing CG step after the first iteration (exact convergence of the rational run) is a
            # rounding event in floats: the float iterate carries a residual gradient of a few ulp
            return False
        for te in it["trials"]:
            te = _fl(te)
            if zero_step and te == e:
                continue
            if abs(te - e) <= MARGIN * (abs(te) + abs(e)) + 1e-300:
                return False
        if abs(_fl(it["curv"])) <= 1e-9 * abs(_fl(it["gg"])) and not zero_step and _fl(it["gg"]) > 0:
            if _fl(it["curv"]) != 0.0:
                return False
        if it["found"]:
            dn = _fl(it["dn"])
            if abs(dn - xt) <= 1e-6 * xt and not (dn == 0.0):
                return False
            if ad is not None:
                ed = _fl(it["ediff"])
                if abs(ed - ad) <= 1e-6 * ad or (ed != 0.0 and abs(ed) <= 1e-14 * (abs(e) + 1e-300)):
                    return False
    return True


def _disc_m(o):
    return ("error",) if "error" in o else (o["status"], o["nit"])


def _xclose_m(xa, xb):
    a, b = [_fl(v) for v in xa], [_fl(v) for v in xb]
    sc = max([abs(v) for v in a] + [1.0])
    return all(abs(u - v) <= 1e-4 * sc for u, v in zip(a, b))


def _close(xr, xm, tol=XTOL):
    xm = [_fl(v) for v in xm]
    sc = max([abs(v) for v in xm] + [1.0])
    return len(xr) == len(xm) and all(math.isfinite(a) and abs(a - b) <= tol * sc for a, b in zip(xr, xm))


# ------------------------------------------------------------------------------------------------ trust-region tie
_TMEMO = {}


def _run_trust_recorded(case):
    """memoised: the trust-region tie and the oracle share one real run per case"""
    import json
    key = json.dumps({k: case.get(k) for k in ("poly", "trig", "x0", "maxiter", "absdelta", "trust_radius", "trust_maxiter")},
                     sort_keys=True, default=str)
    if key not in _TMEMO:
        if len(_TMEMO) > 2000:
            _TMEMO.clear()
        _TMEMO[key] = _run_trust_recorded_(case)
    return _TMEMO[key]


def _run_trust_recorded_(case):
    """real `_trust_ncg` with a recording wrapper around the real sub-problem solver (host callback)"""
    _housekeeping()
    J = _jax()
    jax, opt = J["jax"], J["opt"]
    from nifty.re import conjugate_gradient as cgm
    rec = []

    def sub(f_k, g_k, hp, **kw):
        r = cgm._cg_steihaug_subproblem(f_k, g_k, hp, **kw)
        jax.debug.callback(lambda st, h, pf: rec.append((np.array(st), bool(h), float(pf))),
                           _flat_any(r.step), r.hits_boundary, r.pred_f)
        return r
    try:
        fun, x0, flat, _ = _mk(dict(case, split=0))
        kw = {"maxiter": case.get("trust_maxiter", case.get("maxiter")), "subproblem": sub}
        if case.get("absdelta") is not None:
            kw["absdelta"] = float(Fraction(case["absdelta"]))
        if case.get("trust_radius") is not None:
            kw["initial_trust_radius"] = float(Fraction(case["trust_radius"]))
        r = opt._trust_ncg(fun, x0, **kw)
        jax.effects_barrier()
        out = {"x": [float(t) for t in np.array(flat(r.x))], "status": int(r.status), "fun": float(r.fun),
               "nit": int(r.nit), "tr": float(r.trust_radius), "converged": bool(r.success) or None}
        return out, rec
    except Exception as e:
        return {"error": type(e).__name__}, rec


def _flat_any(x):
    return x


def _trust_model_line(case, rec):
    fin = np.finfo(np.float64)
    return {"op": "trust", "x0": case["x0"], "poly": case["poly"],
            "maxiter": 200 if case.get("trust_maxiter", case.get("maxiter")) is None
            else case.get("trust_maxiter", case.get("maxiter")), "absdelta": case.get("absdelta"),
            "gtol": rs(1e-4), "maxTr": rs(1000.0), "initTr": rs(float(Fraction(case.get("trust_radius") or 1))),
            "eta": rs(0.15), "eps": rs(6.0 * float(fin.eps)),
            "subs": [{"step": [rs(float(v)) for v in np.atleast_1d(st)], "hits": h, "predF": rs(pf)} for st, h, pf in rec]}


def _trust_robust(case, m):
    ad = None if case.get("absdelta") is None else float(Fraction(case["absdelta"]))
    for it in m["trace"]:
        a, p, f, gm = _fl(it["actual"]), _fl(it["pred"]), _fl(it["f"]), _fl(it["gmag"])
        if abs(a) <= 1e-9 * (abs(f) + 1.0) or abs(p) <= 1e-12 * (abs(f) + 1.0):
            return False                                    # rounding-dominated tail / pred at zero
        rho = a / p
        for q in (0.25, 0.75, 0.15):
            if abs(rho - q) <= 1e-6:
                return False
        if abs(gm - 1e-4) <= 1e-6 * 1e-4:
            return False
        if ad is not None and abs(a - ad) <= 1e-6 * ad:
            return False
    return True


def _trust_tie(ctx, cases):
    runs = []
    for c in cases:
        real, rec = _run_trust_recorded(c)
        if any((not np.all(np.isfinite(st))) or (not math.isfinite(pf)) for st, _, pf in rec):
            # the sub-problem solver produced inf/NaN (zero gradient or zero curvature): outside the rational model
            ctx.stat("trust_nonfinite_subproblem_answer")
            continue
        runs.append((c, real, rec))
    outs = ctx.model(DRIVER, [_trust_model_line(c, rec) for c, _, rec in runs]) if runs else []
    for (c, real, rec), m in zip(runs, outs):
        ctx.stat("trust_tie")
        if "error" in real or "error" in m:
            if ("error" in real) != ("error" in m):
                ctx.disagree(c, {"trust": real}, {"trust": m}, "C17 _trust_ncg vs Lean model: error")
            continue
        ctx.stat("trust_status=%d" % real["status"])
        if not _trust_robust(c, m):
            ctx.skipped_near_threshold += 1
            continue
        ok = (not m["short"]) and m["nit"] == len(rec) == real["nit"] and m["status"] == real["status"] \
            and _close(real["x"], m["x"]) and abs(real["fun"] - _fl(m["fun"])) <= 1e-9 * (abs(real["fun"]) + 1.0) \
            and abs(real["tr"] - _fl(m["tr"])) <= 1e-12 * abs(real["tr"])
        if not ok:
            ctx.disagree(c, {"trust": real, "calls": len(rec)}, {"trust": {k: m[k] for k in m if k != "trace"}},
                         "C17 _trust_ncg: real minimiser vs Lean model replay with the recorded sub-problem answers")
        else:
            ctx.traces_validated += 1


# ------------------------------------------------------------------------------------------------ oracle
def _sig(kind, **kw):
    d = {"site": "re.optimize", "kind": kind}
    d.update(kw)
    return d


def _disc(o):
    return ("error", o["error"]) if "error" in o else (o["status"], o["nit"])


def oracle(case):
    J = _jax()
    jax, jnp = J["jax"], J["jnp"]
    pinned = case.get("cg") is not None
    x0 = [float(Fraction(v)) for v in case["x0"]]
    f0 = _f_at(case, x0)
    scale = abs(f0) + 1.0
    res = {}
    for variant in ("eager", "static") + (("trust",) if case.get("trust", True) and not case.get("cgfake") else ()):
        o = _run_trust_recorded(case)[0] if variant == "trust" else _run_real(case, variant, None, pinned)
        res[variant] = o
        if "error" in o:
            if o["error"] != "ValueError":
                return (f"{variant} minimiser crashed with {o['error']}", _sig("crash", variant=variant, error=o["error"]))
            continue
        if not all(math.isfinite(v) for v in o["x"]) or not math.isfinite(o["fun"]):
            return (f"{variant} minimiser returned a non-finite result", _sig("nonfinite", variant=variant))
        fx = _f_at(case, o["x"])
        if abs(fx - o["fun"]) > 1e-9 * (abs(fx) + scale):
            return (f"{variant}: reported fun={o['fun']:.10g} is not the energy {fx:.10g} of the returned point",
                    _sig("fun_mismatch", variant=variant))
        if fx > f0 + 1e-12 * scale:
            return (f"{variant} minimiser returned a point with energy {fx:.10g} above the start {f0:.10g}",
                    _sig("uphill", variant=variant))
    # negative curvature along a non-zero gradient: one iteration must make progress along -g if a trial length does
    _, _, _, fflat = _mk(case)
    x0a = jnp.array(x0, dtype=float)
    g = np.array(jax.grad(fflat)(x0a))
    Hg = np.array(jax.jvp(jax.grad(fflat), (x0a,), (jnp.array(g),))[1])
    gg, curv = float(g @ g), float(g @ Hg)
    fake = case.get("cgfake")
    if gg > 1e-12 and curv < -1e-9 * gg and (case.get("maxiter") is None or case["maxiter"] >= 1) \
            and not (fake and int(fake["info"]) < 0):
        t = gg / abs(curv)
        if fake:   # the CG oracle returns scale*g: trials 0-5 at pos - scale/2^k g; reset trials along -g
            sc = float(Fraction(fake["scale"]))
            sched = [sc / 2 ** k for k in range(6)] + [t, t / 2, t / 4]
        else:      # the library CG returns t*g at a negative-curvature start
            sched = [t / 2 ** k for k in range(6)] + [t, t / 2, t / 4]
        # the line search accepts the FIRST trial of the schedule that does not increase the energy: the claim is made
        # when that trial is unambiguous (earlier ones clearly higher) and is a strictly lowering step along -g
        fk = [_f_at(case, list(np.array(x0) - s * g)) for s in sched]
        tolE = 1e-9 * scale
        first = None
        for k, (s, e) in enumerate(zip(sched, fk)):
            if e > f0 + tolE:
                continue
            if e < f0 - tolE and s > 0:
                first = k
            break
        if first is not None:
            sk = sched[first]
            kw1 = dict(_kwargs(case, pinned), maxiter=1, miniter=None)
            for variant in ("eager", "static"):
                o = _run_real(case, variant, kw1, pinned)
                if "error" in o:
                    return (f"{variant} Newton-CG fails ({o['error']}) at a negative-curvature start",
                            _sig("negcurv_no_progress", variant=variant, how="error", cg="fake" if fake else "library"))
                xe = np.array(x0) - sk * g
                okx = np.max(np.abs(np.array(o["x"]) - xe)) <= 1e-7 * (np.max(np.abs(xe)) + 1.0)
                if not (o["fun"] < f0 - 1e-10 * scale and o["status"] != -1 and okx):
                    how = "status%d" % o["status"] if o["status"] in (0, -1) else "other"
                    return (f"{variant} Newton-CG at a negative-curvature start (g.Hg={curv:.4g}) does not move to "
                            f"x0 - {sk:.4g} g, the first trial of its schedule that lowers the energy: "
                            f"status={o['status']}, fun-f0={o['fun'] - f0:.4g}",
                            _sig("negcurv_no_progress", variant=variant, how=how, cg="fake" if fake else "library"))
    # eager and compiled agree (where the eager outcome is stable under threshold perturbation)
    re_, rs_ = res["eager"], res["static"]
    dis = None
    if ("error" in re_) != ("error" in rs_):
        dis = ("eager and compiled Newton-CG disagree on failure", _sig("eager_static_disagree", what="failure"))
    elif "error" not in re_:
        xe, xs = np.array(re_["x"]), np.array(rs_["x"])
        if re_["status"] != rs_["status"]:
            dis = (f"eager Newton-CG reports status {re_['status']}, compiled reports {rs_['status']}",
                   _sig("eager_static_disagree", what="status"))
        elif re_["nit"] != rs_["nit"]:
            dis = (f"eager Newton-CG stops after {re_['nit']} iterations, compiled after {rs_['nit']}",
                   _sig("eager_static_disagree", what="nit"))
        elif np.max(np.abs(xe - xs)) > XTOL * (np.max(np.abs(xe)) + 1.0):
            dis = ("eager and compiled Newton-CG return different points", _sig("eager_static_disagree", what="x"))
    if dis is None or case.get("fragile"):
        return None
    # a disagreement counts only if the eager outcome is robust: thresholds perturbed by 4e-6 give the same outcome ...
    for sc in (1 + 4e-6, 1 - 4e-6):
        kw2 = dict(_kwargs(case, pinned))
        kw2["xtol"] = kw2["xtol"] * sc
        if kw2.get("absdelta") is not None:
            kw2["absdelta"] = kw2["absdelta"] * sc
        if _disc(_run_real(case, "eager", kw2, pinned)) != _disc(re_):
            return None
    # ... and the run has not entered the rounding-dominated tail: once the gradient is at rounding level the energy
    # comparisons of the line search are decided by the last bits (op-by-op vs fused evaluation)
    if "error" not in re_ and re_["nit"] >= 1:
        prev = _run_real(case, "eager", dict(_kwargs(case, pinned), maxiter=re_["nit"] - 1, miniter=None), pinned) \
            if re_["nit"] > 1 else {"x": x0}
        if "error" not in prev:
            gp = np.array(jax.grad(fflat)(jnp.array(prev["x"], dtype=float)))
            if float(gp @ gp) <= 1e-9 * scale:
                return None
    return dis


# ------------------------------------------------------------------------------------------------ generators
def _mono(c, e):
    return {"c": rs(Fraction(c)), "e": list(e)}


def _unit(n, i, k=1):
    e = [0] * n
    e[i] = k
    return e


def _gen_poly(rng, n, family):
    P = []
    if family == "doublewell":
        for i in range(n):
            a = Fraction(rng.randint(1, 4), 4)
            b = Fraction(rng.randint(1, 6), 2)
            c = Fraction(rng.randint(-2, 2), 4)
            P += [_mono(a / 4, _unit(n, i, 4)), _mono(-b / 2, _unit(n, i, 2))]
            if c:
                P.append(_mono(c, _unit(n, i, 1)))
        for i in range(n - 1):
            if rng.random() < 0.6:
                e = [0] * n
                e[i] = e[i + 1] = 1
                P.append(_mono(Fraction(rng.randint(-2, 2) or 1, 8), e))
    elif family == "convex":
        for i in range(n):
            P += [_mono(Fraction(rng.randint(0, 2), 4), _unit(n, i, 4)), _mono(Fraction(rng.randint(1, 5), 2), _unit(n, i, 2)),
                  _mono(Fraction(rng.randint(-3, 3), 2), _unit(n, i, 1))]
        for i in range(n - 1):
            e = [0] * n
            e[i] = e[i + 1] = 1
            P.append(_mono(Fraction(rng.randint(-1, 1), 4), e))
    elif family == "rosen":          # (1-x)^2 + b (y - x^2)^2 on the first two coordinates, convex rest
        b = rng.choice([1, 2, 5])
        ex = lambda i, k, j=None, l=0: [(k if t == i else (l if t == j else 0)) for t in range(n)]
        P += [_mono(1, [0] * n), _mono(-2, ex(0, 1)), _mono(1, ex(0, 2)), _mono(b, ex(1, 2)), _mono(-2 * b, ex(0, 2, 1, 1)),
              _mono(b, ex(0, 4))]
        for i in range(2, n):
            P.append(_mono(Fraction(rng.randint(1, 3), 2), _unit(n, i, 2)))
    elif family == "flat":           # zero curvature along the gradient at the origin: x^4/4 - c x
        for i in range(n):
            P += [_mono(Fraction(1, 4), _unit(n, i, 4)), _mono(Fraction(-rng.randint(1, 2), 2), _unit(n, i, 1))]
    P = [m for m in P if Fraction(m["c"]) != 0]
    return P


def _gen_case(rng, quick, modelled=True):
    family = rng.choices(["doublewell", "convex", "rosen", "flat"], [50, 20, 20, 10])[0]
    n = rng.randint(2, 3) if family == "rosen" else rng.randint(1, 3)
    poly = _gen_poly(rng, n, family)
    if family == "flat":
        x0 = [Fraction(0)] * n
    elif family == "doublewell":
        # small |x| -> negative curvature, large |x| -> positive curvature
        x0 = [Fraction(rng.randint(-3, 3), 8) if rng.random() < 0.6 else Fraction(rng.randint(-20, 20), 8) for _ in range(n)]
    else:
        x0 = [Fraction(rng.randint(-12, 12), 8) for _ in range(n)]
    case = {"op": "ncg", "family": family, "poly": poly, "x0": [rs(v) for v in x0], "split": rng.randint(0, n - 1) if n > 1 else 0,
            "miniter": rng.choice([None, None, 0, 1, 2]), "maxiter": rng.choice([1, 1, 2, 2, 3, 3, 4] if modelled else [1, 2, 3, 5, 8, None]),
            "absdelta": None, "xtol": rs(rng.choice([1e-5, 1e-3, 1e-2, 1e-1])),
            "trust": (not quick) or rng.random() < 0.35, "trust_maxiter": rng.choice([1, 3, 6, 12])}
    if rng.random() < 0.4:
        case["absdelta"] = rs(rng.choice([1e-6, 1e-3, 1e-2, 1e-1, 1.0]))
    if rng.random() < 0.05:
        case["maxiter"] = 0
    if modelled:
        case["cg"] = {"resnorm": rs(rng.choice([1e-2, 1e-4, 1e-8])), "miniter": rng.choice([None, 0, 1]),
                      "maxiter": rng.choice([None, None, 1, 2])}
    else:
        case["cg"] = None
    if modelled and family != "flat" and rng.random() < 0.3:
        # the CG solver is an oracle for the minimiser: a fake one (scaled gradient, chosen info) drives the line search
        # into its halving / reset / abort branches
        case["cgfake"] = {"scale": rs(rng.choice([-1.0, -0.25, 64.0, 1024.0, 1e6, 0.0, 1.0])),
                          "info": rng.choice([0, 0, 0, 0, 3, -1])}
    if modelled and family != "flat" and rng.random() < 0.3:
        # near-tie stream: the k-th trial of the line search lands just above / just below the start energy
        sstar = _crossing_scale(case)
        if sstar is not None:
            delta = rng.choice([1e-2, 1e-3, 1e-4]) * rng.choice([1, 1, -1])
            k = rng.choice([0, 0, 1, 2, 4])
            case["cgfake"] = {"scale": rs(sstar * (1 + delta) * 2 ** k), "info": 0}
            case["neartie"] = True
    return case


def _pyval(poly, x):
    tot = 0.0
    for m in poly:
        t = float(Fraction(m["c"]))
        for xi, k in zip(x, m["e"]):
            t *= xi ** k
        tot += t
    return tot


def _pygrad(poly, x):
    g = [0.0] * len(x)
    for m in poly:
        c = float(Fraction(m["c"]))
        for i, ki in enumerate(m["e"]):
            if ki:
                t = c * ki
                for j, (xj, kj) in enumerate(zip(x, m["e"])):
                    t *= xj ** (kj - 1 if j == i else kj)
                g[i] += t
    return g


def _crossing_scale(case):
    """generator helper: step length s* > 0 along -g with f(x0 - s* g) = f(x0) (energy crosses the start level)"""
    x0 = [float(Fraction(v)) for v in case["x0"]]
    g = _pygrad(case["poly"], x0)
    if sum(v * v for v in g) < 1e-12:
        return None
    f0 = _pyval(case["poly"], x0)
    phi = lambda s: _pyval(case["poly"], [a - s * b for a, b in zip(x0, g)]) - f0
    hi = 1e-3
    while phi(hi) <= 0 and hi < 1e6:
        hi *= 2
    if hi >= 1e6:
        return None
    lo = hi / 2 if phi(hi / 2) <= 0 else 0.0
    if lo == 0.0:
        # phi(hi) > 0 already for tiny hi: find a decreasing stretch first
        lo = hi / 1024
        if phi(lo) > 0:
            return None
    for _ in range(80):
        mid = 0.5 * (lo + hi)
        if phi(mid) <= 0:
            lo = mid
        else:
            hi = mid
    return 0.5 * (lo + hi)


def _gen_reset_case(rng):
    """targeted: the first six trials fail (fake CG oracle) and the line search succeeds at reset trial 6, 7 or 8, or aborts"""
    target = rng.choice(["t6", "t7", "t7", "t8", "t8", "abort"])
    for _ in range(300):
        family = rng.choice(["doublewell", "doublewell", "convex"])
        n = rng.randint(1, 2)
        poly = _gen_poly(rng, n, family)
        x0 = [Fraction(rng.randint(-24, 24), 16) for _ in range(n)]
        case = {"op": "ncg", "family": family, "poly": poly, "x0": [rs(v) for v in x0], "split": 0,
                "miniter": None, "maxiter": rng.choice([1, 2]), "absdelta": None, "xtol": rs(1e-5), "trust": True,
                "cg": {"resnorm": rs(1e-4), "miniter": None, "maxiter": None}}
        xf = [float(v) for v in x0]
        g = _pygrad(poly, xf)
        gg = sum(v * v for v in g)
        if gg < 1e-6:
            continue
        eps = 1e-5
        gp = _pygrad(poly, [a + eps * b for a, b in zip(xf, g)])
        gm = _pygrad(poly, [a - eps * b for a, b in zip(xf, g)])
        curv = sum(b * (p - m) / (2 * eps) for b, p, m in zip(g, gp, gm))
        if abs(curv) < 1e-6 * gg:
            continue
        t = gg / abs(curv)
        sstar = _crossing_scale(case)
        if sstar is None:
            continue
        r = sstar / t
        okr = {"t6": r > 1.05, "t7": 0.525 < r < 0.95, "t8": 0.2625 < r < 0.475, "abort": r < 0.2375}[target]
        if not okr:
            continue
        f0 = _pyval(poly, xf)
        asc = all(_pyval(poly, [a + b / 2 ** k for a, b in zip(xf, g)]) > f0 * (1 + 1e-6) + 1e-9 for k in range(6))
        if asc:
            case["cgfake"] = {"scale": "-1", "info": 0}
        elif sstar * 40 < 1e6:
            case["cgfake"] = {"scale": rs(float(2 ** 20)), "info": 0}
            if not all(_pyval(poly, [a - 2.0 ** (20 - k) * b for a, b in zip(xf, g)]) > f0 + 1e-6 for k in range(6)):
                continue
        else:
            continue
        case["reset_target"] = target
        return case
    return None


def _gen_default_case(rng):
    """the minimiser's own CG settings (norm_ord 1/inf, resnorm = min(.5, sqrt(mag))*mag, absdelta from the energy history):
    dimension 3-5 so that the inner CG is stopped by these criteria rather than by exact termination"""
    family = rng.choice(["doublewell", "convex", "convex"])
    n = rng.randint(3, 5)
    poly = _gen_poly(rng, n, family)
    x0 = [Fraction(rng.randint(-16, 16), 8) for _ in range(n)]
    case = {"op": "ncg", "family": family, "poly": poly, "x0": [rs(v) for v in x0], "split": rng.randint(0, n - 1),
            "miniter": rng.choice([None, 0, 1]), "maxiter": rng.choice([1, 2, 2, 3]), "absdelta": None,
            "xtol": rs(rng.choice([1e-5, 1e-2])), "trust": False, "defaultcg": True,
            "cg": {"pin_res": False, "norm_ord": rng.choice(["1", "1", "inf"]), "miniter": rng.choice([0, 1, 1, 2]),
                   "maxiter": rng.choice([None, None, 2, 3])},
            "erf": rng.choice(["default", "default", "default", None, rs(0.5)])}
    if rng.random() < 0.5:
        case["absdelta"] = rs(rng.choice([1e-3, 1e-1, 1.0, 10.0]))
    if rng.random() < 0.25:
        case["old_fval"] = rs(float(_pyval(poly, [float(v) for v in x0])) + rng.choice([0.5, 2.0, 10.0]))
    return case


def _gen_trust_case(rng):
    """targeted (1-D): the trust-region step is slightly uphill although a decrease is predicted: rho in (-0.12, -0.02)"""
    for _ in range(200):
        poly = _gen_poly(rng, 1, "doublewell")
        x0 = Fraction(rng.randint(-40, 40), 16)
        xf = [float(x0)]
        g = _pygrad(poly, xf)[0]
        if abs(g) < 1e-3:
            continue
        eps = 1e-5
        H = (_pygrad(poly, [xf[0] + eps])[0] - _pygrad(poly, [xf[0] - eps])[0]) / (2 * eps)
        f0 = _pyval(poly, xf)
        for k in range(40):
            r = 0.05 * 1.15 ** k
            step = (-g / H) if (H > 0 and abs(g / H) < r) else (-r if g > 0 else r)
            pred = -(g * step + 0.5 * H * step * step)
            actual = f0 - _pyval(poly, [xf[0] + step])
            if pred > 1e-9 and -0.12 < actual / pred < -0.02:
                return {"op": "ncg", "family": "doublewell", "poly": poly, "x0": [rs(x0)], "split": 0, "miniter": None,
                        "maxiter": 1, "absdelta": None, "xtol": rs(1e-5), "cg": None, "trust": True,
                        "trust_radius": rs(r), "trust_target": True}
    return None


def _gen_trig(rng):
    n = rng.randint(1, 3)
    spec = {"cos": [(rng.choice([1.0, 2.0, -1.0]), rng.choice([1.0, 1.5, 2.0]), i) for i in range(n)],
            "quad": [(rng.choice([0.25, 0.5]), i, i) for i in range(n)] + ([(0.125, 0, n - 1)] if n > 1 else [])}
    x0 = [Fraction(rng.randint(-16, 16), 8) for _ in range(n)]
    return {"op": "ncg", "family": "trig", "trig": spec, "poly": None, "x0": [rs(v) for v in x0],
            "split": rng.randint(0, n - 1) if n > 1 else 0, "miniter": None, "maxiter": rng.choice([1, 2, 4, 8]),
            "absdelta": None, "xtol": rs(1e-5), "cg": None, "trust": True}


def shrink(case):
    if case.get("absdelta") is not None:
        yield dict(case, absdelta=None)
    if case.get("miniter") is not None:
        yield dict(case, miniter=None)
    if case.get("split"):
        yield dict(case, split=0)
    if case.get("maxiter") and case["maxiter"] > 1:
        yield dict(case, maxiter=case["maxiter"] - 1)
    if case.get("poly"):
        for k in range(len(case["poly"])):
            if len(case["poly"]) > 1:
                yield dict(case, poly=case["poly"][:k] + case["poly"][k + 1:])


def _nontrivial(case):
    return case.get("maxiter") != 0


def _load_corpus():
    import glob
    import json
    import os
    from core.ctx import VERIF
    return [json.load(open(p)) for p in sorted(glob.glob(os.path.join(VERIF, "corpus", ID, "*.json")))]


def _check(ctx, cases):
    mod = [c for c in cases if c.get("cg") is not None and c.get("poly")]
    lines, where = [], {}
    for c in mod:
        where[id(c)] = len(lines)
        lines.append(_model_line(c))
        if c.get("defaultcg"):      # the inner CG's own decisions must be robust: thresholds scaled by (1 ± 4e-6)
            lines.append(dict(_model_line(c), pert=rs(Fraction(1) + Fraction(4, 10 ** 6))))
            lines.append(dict(_model_line(c), pert=rs(Fraction(1) - Fraction(4, 10 ** 6))))
    outs = ctx.model(DRIVER, lines) if lines else []
    mo = {}
    for c in mod:
        k = where[id(c)]
        m = outs[k]
        if c.get("defaultcg") and "eager" in m:
            same = all("eager" in o and _disc_m(o["eager"]) == _disc_m(m["eager"]) and _disc_m(o["static"]) == _disc_m(m["static"])
                       and len(o["trace"]) == len(m["trace"])
                       and all(a is not None and b is not None and len(a["trials"]) == len(b["trials"])
                               for a, b in zip(o["trace"], m["trace"]))
                       and ("x" not in m["eager"] or _xclose_m(o["eager"]["x"], m["eager"]["x"]))
                       for o in (outs[k + 1], outs[k + 2]))
            if not same:
                m = dict(m, cg_fragile=True)
        mo[id(c)] = m
    for c in cases:
        ctx.stat("family=" + c.get("family", "?"))
        ctx.stat("n=%d" % len(c["x0"]))
        if c.get("neartie"):
            ctx.stat("neartie_trial")
        if c.get("trust_target"):
            ctx.stat("trust_slightly_uphill_trial")
        if c.get("reset_target"):
            ctx.stat("reset_target=" + c["reset_target"])
        ctx.case(c, _nontrivial(c))
        m = mo.get(id(c))
        if m is not None:
            if "eager" not in m:
                ctx.disagree(c, None, m, "model driver rejected the case")
            else:
                for it in m["trace"]:
                    if it is not None:
                        ctx.stat("trials=%d" % len(it["trials"]))
                        if _fl(it["curv"]) < 0:
                            ctx.stat("negative_curvature_iteration")
                        if not it["found"]:
                            ctx.stat("line_search_abort")
                ctx.stat("model_status=%s" % m["eager"].get("status", "error"))
                if c.get("defaultcg"):
                    ctx.stat("default_cg_modelled")
                if m.get("cg_fragile") or not _trace_robust(c, m):
                    ctx.skipped_near_threshold += 1
                else:
                    for variant in ("eager", "static"):
                        real = _run_real(c, variant)
                        mm = m[variant]
                        if "error" in real or "error" in mm:
                            ok = real.get("error") == mm.get("error")
                        else:
                            ntrials = 1 + sum(len(it["trials"]) for it in m["trace"] if it is not None)
                            ok = (real["status"], real["nit"]) == (mm["status"], mm["nit"]) and _close(real["x"], mm["x"]) \
                                and abs(real["fun"] - _fl(mm["fun"])) <= 1e-7 * (abs(real["fun"]) + 1.0) \
                                and real.get("nfev", ntrials) == ntrials      # total number of line-search trials
                        if not ok:
                            ctx.disagree(c, {variant: real}, {variant: mm},
                                         f"C17 {variant} Newton-CG: real minimiser vs Lean model (class T)")
                    ctx.traces_validated += 1
        r = oracle(c)
        if r is not None:
            ctx.counterexample(c, r[0], r[1])


def run(ctx):
    cases = _load_corpus()
    for _ in range(ctx.n(6, 50)):
        cases.append(_gen_case(ctx.rng, ctx.quick, modelled=True))
    for _ in range(ctx.n(2, 30)):
        cases.append(_gen_case(ctx.rng, ctx.quick, modelled=False))
    for _ in range(ctx.n(3, 30)):
        cases.append(_gen_default_case(ctx.rng))
    for _ in range(ctx.n(3, 24)):
        c = _gen_reset_case(ctx.rng)
        if c is not None:
            cases.append(c)
    for _ in range(ctx.n(2, 16)):
        c = _gen_trust_case(ctx.rng)
        if c is not None:
            cases.append(c)
    for _ in range(ctx.n(1, 20)):
        cases.append(_gen_trig(ctx.rng))
    B = 40
    for a in range(0, len(cases), B):
        _check(ctx, cases[a:a + B])
    tcases = [c for c in cases if c.get("poly") and not c.get("cgfake") and c.get("maxiter") != 0 and c.get("trust", True)]
    _trust_tie(ctx, tcases[:ctx.n(6, 60)])


def search(ctx):
    for _ in range(ctx.n(20, 100)):
        c = _gen_case(ctx.rng, True, modelled=False)
        r = oracle(c)
        if r is not None:
            ctx.counterexample(c, r[0], r[1])
            return
