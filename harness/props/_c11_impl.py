"""C11 adapter: builds the REAL nifty.cl likelihood energies described by a JSON case and measures
value / gradient / dense metric / transformation value / dense transformation Jacobian through
`Linearization.make_var(x, want_metric=True)`.  Everything is expressed in *real coordinates*:
a key of the (multi-)domain holding n complex numbers contributes 2n coordinates (real block, then
imaginary block); MultiDomain keys are concatenated in sorted order (NIFTy's own order).

Energy spec (tree), see harness/props/c11.py for the generators:
  leaves   {"k":"gauss","n":n,"key":str|None,"icov":"none|scal|diag|sand","c":..,"diag":[..],"bun":[[..]],
            "d":[..]|None,"cplx":bool,"sdt":"f8|c16|None"}
           {"k":"poisson","d":[..]} {"k":"bernoulli","d":[..]} {"k":"studentt","theta":float|[..],"n":n}
           {"k":"invgamma","beta":[..],"alpha":float|[..]} {"k":"categorical","d":[[..]],"axis":0|1}
           {"k":"varcov","n":n,"cplx":bool,"full":bool,"kr":"a","ki":"b"} {"k":"sgamma","r":[..],"cplx":bool}
  wrappers {"k":"scale","c":c,"e":spec} {"k":"sum","es":[spec,..]} {"k":"chain","e":spec,"f":{key|"":fspec}}
           {"k":"lin","e":leafspec,"A":[[..]]} {"k":"ham","e":spec,"ic":bool}
           {"k":"vmodel","e":varcovleaf,"A":[[..]],"B":[[..]]}   (varcov @ (xi -> {a: A xi, b: exp(B xi)}), single input domain)
  fspec    {"f":"id"} {"f":"scal","c":c} {"f":"diag","v":[..]} {"f":"exp"} {"f":"sigmoid"} {"f":"sqr"} {"f":"expscal","c":c}
"""
import numpy as np


def ift():
    import nifty.cl as _ift
    return _ift


class Bad(Exception):
    pass


class DomainMismatch(Exception):
    """the operator's domain is not the union of the domains of its parts"""
    pass


# ------------------------------------------------------------------------------------------------
# domains / fields
def mkdom(spec):
    I = ift()
    if spec["t"] == "rg":
        return I.RGSpace(tuple(spec["shape"]), distances=tuple(spec["dist"]))
    if spec["t"] == "un":
        return I.UnstructuredDomain(tuple(spec["shape"]))
    raise Bad("dom")


def cvec(lst, cplx):
    """JSON vector -> numpy; complex vectors are shipped as [[re..],[im..]]"""
    if cplx:
        return np.array(lst[0], dtype=np.float64) + 1j * np.array(lst[1], dtype=np.float64)
    return np.array(lst, dtype=np.float64)


def mkfield(dom, arr, dtype=None):
    I = ift()
    d = I.DomainTuple.make(dom)
    a = np.asarray(arr).reshape(d.shape)
    if dtype is not None:
        a = a.astype(dtype)
    return I.makeField(d, a)


SDT = {"f8": np.float64, "c16": np.complex128, None: None, "None": None}


# ------------------------------------------------------------------------------------------------
# building the operator tree
def build_leaf(e, dom):
    I = ift()
    from nifty.cl.operators import energy_operators as eo
    k = e["k"]
    if k == "gauss":
        cplx = bool(e.get("cplx"))
        data = None if e.get("d") is None else mkfield(dom, cvec(e["d"], cplx))
        sdt = SDT[e.get("sdt")]
        ic = e["icov"]
        if ic == "none":
            if data is None:
                return I.GaussianEnergy(domain=dom, sampling_dtype=sdt)
            return I.GaussianEnergy(data=data)
        if ic == "scal":
            icov = I.ScalingOperator(I.DomainTuple.make(dom), e["c"], sampling_dtype=sdt)
        elif ic == "diag":
            icov = I.DiagonalOperator(mkfield(dom, e["diag"]), sampling_dtype=sdt)
        elif ic == "csand":
            # complex bun: chain of complex-linear operators (ScalingOperator / DiagonalOperator / dense matrix)
            from . import _c11_cplx as C
            bun = C.build_chain(e["bunops"], dom)
            cheese = I.DiagonalOperator(mkfield(dom, e["diag"]), sampling_dtype=sdt)
            icov = I.SandwichOperator.make(bun, cheese)
        elif ic == "sand":
            n = I.DomainTuple.make(dom).size
            A = np.array(e["bun"], dtype=np.float64)
            mid = I.UnstructuredDomain(A.shape[0])
            flat = I.DomainChangerAndReshaper(I.DomainTuple.make(dom), I.UnstructuredDomain(n)) \
                if hasattr(I, "DomainChangerAndReshaper") else None
            bun = I.MatrixProductOperator(I.UnstructuredDomain(n), A)
            if flat is None:
                from nifty.cl.operators.simple_linear_operators import DomainChangerAndReshaper
                flat = DomainChangerAndReshaper(I.DomainTuple.make(dom), I.DomainTuple.make(I.UnstructuredDomain(n)))
            bun = bun @ flat
            cheese = I.DiagonalOperator(I.makeField(bun.target, np.array(e["diag"], dtype=np.float64)),
                                        sampling_dtype=sdt)
            icov = I.SandwichOperator.make(bun, cheese)
        else:
            raise Bad("icov")
        return I.GaussianEnergy(data=data, inverse_covariance=icov)
    if k == "poisson":
        return I.PoissonianEnergy(mkfield(dom, e["d"], np.int64))
    if k == "bernoulli":
        return I.BernoulliEnergy(mkfield(dom, e["d"], np.int64))
    if k == "categorical":
        return I.CategoricalEnergy(mkfield(dom, e["d"], np.int64), axis=e.get("axis", 0))
    if k == "studentt":
        th = e["theta"]
        if isinstance(th, list):
            th = mkfield(dom, th)
        return I.StudentTEnergy(dom, th)
    if k == "invgamma":
        al = e["alpha"]
        if isinstance(al, list):
            al = mkfield(dom, al)
        return I.InverseGammaEnergy(mkfield(dom, e["beta"]), al)
    if k == "varcov":
        return I.VariableCovarianceGaussianEnergy(dom, e.get("kr", "a"), e.get("ki", "b"),
                                                  np.complex128 if e.get("cplx") else np.float64,
                                                  use_full_fisher=bool(e.get("full", True)))
    if k == "sgamma":
        return eo._SpecialGammaEnergy(mkfield(dom, cvec(e["r"], bool(e.get("cplx")))))
    raise Bad("leaf " + str(k))


def fop(dom, f):
    """point-wise / diagonal model operator on the DomainTuple `dom`"""
    I = ift()
    idop = I.Operator.identity_operator(dom) if hasattr(I.Operator, "identity_operator") else I.ScalingOperator(dom, 1.)
    t = f["f"]
    if t == "id":
        return I.ScalingOperator(dom, 1.)
    if t == "scal":
        return I.ScalingOperator(dom, f["c"])
    if t == "diag":
        return I.DiagonalOperator(I.makeField(dom, np.array(f["v"], dtype=np.float64).reshape(dom.shape)))
    if t == "exp":
        return idop.ptw("exp")
    if t == "sigmoid":
        return idop.ptw("sigmoid")
    if t == "sqr":
        return idop ** 2
    if t == "expscal":
        return I.ScalingOperator(dom, f["c"]).ptw("exp")
    raise Bad("fspec")


def build(e, dom):
    """-> operator (likelihood energy or Hamiltonian)"""
    I = ift()
    k = e["k"]
    if k == "scale":
        return e["c"] * build(e["e"], dom) if e.get("left", True) else build(e["e"], dom) * e["c"]
    if k == "sum":
        ops = [build(s, dom) for s in e["es"]]
        r = ops[0]
        for o in ops[1:]:
            r = r + o
        return r
    if k == "chain":
        inner = build(e["e"], dom)
        d = inner.domain
        if isinstance(d, I.MultiDomain):
            m = None
            for key in d.keys():
                fa = I.FieldAdapter(d[key], key)
                piece = fa.adjoint @ fop(d[key], e["f"].get(key, {"f": "id"})) @ fa
                m = piece if m is None else m + piece
        else:
            m = fop(d, e["f"][""])
        return inner @ m
    if k == "cmodel":
        model, inner_e, inner_dom = split_model(e, dom)
        return build(inner_e, inner_dom) @ model
    if k == "lin":
        A = np.array(e["A"], dtype=np.float64)
        src = I.UnstructuredDomain(A.shape[1])
        mp = I.MatrixProductOperator(src, A)
        from nifty.cl.operators.simple_linear_operators import DomainChangerAndReshaper
        dd = I.DomainTuple.make(dom)
        # dom -> flat -> A -> dom  (so that the model keeps the leaf's domain and keys can be shared)
        resh = DomainChangerAndReshaper(mp.target, dd) @ mp @ DomainChangerAndReshaper(dd, mp.domain)
        inner = build_leaf(e["e"], dom)
        op = inner @ resh
        if e["e"].get("key") is not None:
            op = op.ducktape(e["e"]["key"])
        return op
    if k == "vmodel":
        # VariableCovarianceGaussianEnergy @ model, model: single domain -> {a: A xi, b: exp(B xi)}
        from nifty.cl.operators.simple_linear_operators import DomainChangerAndReshaper
        vc = build_leaf(e["e"], dom)
        dd = I.DomainTuple.make(dom)
        flat = I.DomainTuple.make(I.UnstructuredDomain(dd.size))
        to_flat, back = DomainChangerAndReshaper(dd, flat), DomainChangerAndReshaper(flat, dd)
        Ma = back @ I.MatrixProductOperator(flat, np.array(e["A"], dtype=np.float64)) @ to_flat
        Mb = (back @ I.MatrixProductOperator(flat, np.array(e["B"], dtype=np.float64)) @ to_flat).ptw("exp")
        model = I.FieldAdapter(dd, e["e"].get("kr", "a")).adjoint @ Ma + I.FieldAdapter(dd, e["e"].get("ki", "b")).adjoint @ Mb
        return vc @ model
    if k == "ham":
        inner = build(e["e"], dom)
        ic = I.AbsDeltaEnergyController(0.5, iteration_limit=3) if e.get("ic") else None
        return I.StandardHamiltonian(inner, ic)
    op = build_leaf(e, dom)
    if e.get("key") is not None:
        op = op.ducktape(e["key"])
    return op


def split_model(e, dom):
    """wrapper `lh @ model` -> (model operator, inner spec, domain the inner energy is built on)"""
    I = ift()
    k = e["k"]
    dd = I.DomainTuple.make(dom)
    if k == "cmodel":
        from . import _c11_cplx as C
        from . import _c11_gen as G
        chains = {key: C.build_chain(ops, dd) for key, ops in e["ops"].items()}
        keys = sorted({kk for l in G.leaves(e["e"]) for kk in G.leaf_keys(l)})
        for kk in keys:
            if kk not in chains:
                chains[kk] = C.build_chain([], dd)
        tgt = chains[keys[0]].target
        if keys == [""]:
            return chains[""], e["e"], tgt[0] if len(tgt) == 1 else tgt
        m = None
        for kk in keys:
            piece = I.FieldAdapter(chains[kk].target, kk).adjoint @ chains[kk] @ I.FieldAdapter(dd, kk)
            m = piece if m is None else m + piece
        return m, e["e"], tgt[0] if len(tgt) == 1 else tgt
    if k == "chain":
        inner = build(e["e"], dom)
        d = inner.domain
        if isinstance(d, I.MultiDomain):
            m = None
            for key in d.keys():
                fa = I.FieldAdapter(d[key], key)
                piece = fa.adjoint @ fop(d[key], e["f"].get(key, {"f": "id"})) @ fa
                m = piece if m is None else m + piece
        else:
            m = fop(d, e["f"][""])
        return m, e["e"], dom
    if k == "vmodel":
        from nifty.cl.operators.simple_linear_operators import DomainChangerAndReshaper
        flat = I.DomainTuple.make(I.UnstructuredDomain(dd.size))
        to_flat, back = DomainChangerAndReshaper(dd, flat), DomainChangerAndReshaper(flat, dd)
        Ma = back @ I.MatrixProductOperator(flat, np.array(e["A"], dtype=np.float64)) @ to_flat
        Mb = (back @ I.MatrixProductOperator(flat, np.array(e["B"], dtype=np.float64)) @ to_flat).ptw("exp")
        model = I.FieldAdapter(dd, e["e"].get("kr", "a")).adjoint @ Ma + I.FieldAdapter(dd, e["e"].get("ki", "b")).adjoint @ Mb
        return model, e["e"], dom
    if k == "lin":
        from nifty.cl.operators.simple_linear_operators import DomainChangerAndReshaper
        A_ = np.array(e["A"], dtype=np.float64)
        mp = I.MatrixProductOperator(I.UnstructuredDomain(A_.shape[1]), A_)
        resh = DomainChangerAndReshaper(mp.target, dd) @ mp @ DomainChangerAndReshaper(dd, mp.domain)
        if e["e"].get("key") is not None:
            resh = resh @ I.FieldAdapter(dd, e["e"]["key"])
        return resh, dict(e["e"], key=None), dom
    raise Bad("split " + str(k))


def parts_metric(e, dom, x):
    """metric mechanism (4): the metric assembled from the parts with *forward* applications only —
    J_modelᵀ · M_inner(model(x)) · J_model with the model's Jacobian probed by `times`, inner metrics from the bare
    energies, c·M for scalings, sums embedded by key, + identity for the Hamiltonian.  Dense, in the real coordinates of x."""
    I = ift()
    k = e["k"]
    lay = layout_of(x)
    N = ndim(lay)
    if k == "scale":
        return e["c"] * parts_metric(e["e"], dom, x)
    if k == "ham":
        return parts_metric(e["e"], dom, x) + np.eye(N)
    if k == "sum":
        off, o = {}, 0
        for kk, n, c in lay:
            off[kk] = (o, n * (2 if c else 1))
            o += n * (2 if c else 1)
        tot = np.zeros((N, N))
        for s in e["es"]:
            ops = build(s, dom)
            if isinstance(ops.domain, I.MultiDomain):
                xs = x.extract(ops.domain)
                idx = []
                for kk in ops.domain.keys():
                    idx += list(range(off[kk][0], off[kk][0] + off[kk][1]))
            else:
                xs, idx = x, list(range(N))
            Ms = parts_metric(s, dom, xs)
            tot[np.ix_(idx, idx)] += Ms
        return tot
    if k in ("cmodel", "chain", "vmodel", "lin"):
        model, inner_e, inner_dom = split_model(e, dom)
        lin = model(I.Linearization.make_var(x))
        y = lin.val
        ylay = layout_of(y)
        J = dense(lin.jac, lay, ylay)[0]
        Mi = parts_metric(inner_e, inner_dom, y)
        return J.T @ Mi @ J
    op = build(e, dom)
    met = op(I.Linearization.make_var(x, want_metric=True)).metric
    return dense(met, lay, lay)[0]


# ------------------------------------------------------------------------------------------------
# real-coordinate layout
def layout_of(field):
    """[(key|None, n, cplx)] in NIFTy's key order"""
    I = ift()
    if isinstance(field, I.MultiField):
        return [(k, field[k].size, bool(np.iscomplexobj(field[k].asnumpy()))) for k in field.domain.keys()]
    return [(None, field.size, bool(np.iscomplexobj(field.asnumpy())))]


DROPPED = [0.0]    # largest imaginary part silently dropped on a real-typed key since the last reset (see measure)


def flatten(field, layout=None):
    I = ift()
    parts = []
    items = [(k, field[k]) for k in field.domain.keys()] if isinstance(field, I.MultiField) else [(None, field)]
    lay = {k: c for k, _, c in layout} if layout is not None else None
    for k, f in items:
        a = np.asarray(f.asnumpy()).reshape(-1)
        c = np.iscomplexobj(a) if lay is None else lay[k]
        if c:
            parts += [np.real(a).astype(np.float64), np.imag(a).astype(np.float64)]
        else:
            if np.iscomplexobj(a) and a.size:
                DROPPED[0] = max(DROPPED[0], float(np.max(np.abs(np.imag(a)))))
            parts.append(np.real(a).astype(np.float64))
    return np.concatenate(parts) if parts else np.zeros(0)


def unflatten(vec, domain, layout):
    I = ift()
    out = {}
    off = 0
    for k, n, c in layout:
        d = domain[k] if k is not None else domain
        if c:
            a = vec[off:off + n] + 1j * vec[off + n:off + 2 * n]
            off += 2 * n
        else:
            a = np.array(vec[off:off + n], dtype=np.float64)
            off += n
        out[k] = I.makeField(d, a.reshape(d.shape))
    if layout and layout[0][0] is None:
        return out[None]
    return I.MultiField.from_dict(out, domain=domain)


def ndim(layout):
    return sum(n * (2 if c else 1) for _, n, c in layout)


def dense(linop, dom_layout, tgt_layout=None):
    """dense real matrix of a (real-)linear NIFTy operator: columns = images of the real unit vectors"""
    N = ndim(dom_layout)
    cols = []
    for j in range(N):
        u = np.zeros(N)
        u[j] = 1.
        y = linop(unflatten(u, linop.domain, dom_layout))
        if tgt_layout is None:
            tgt_layout = layout_of(y)
        cols.append(flatten(y, tgt_layout))
    return np.array(cols).T, tgt_layout


def position(case, op):
    """the position field from the flat real coordinates case["x"] and the declared layout"""
    lay = [(k, n, bool(c)) for k, n, c in case["layout"]]
    dom = op.domain
    I = ift()
    keys = list(dom.keys()) if isinstance(dom, I.MultiDomain) else [None]
    if [k for k, _, _ in lay] != keys:
        raise DomainMismatch(f"energy domain has keys {keys}, its parts need {[k for k, _, _ in lay]}")
    return unflatten(np.array(case["x"], dtype=np.float64), dom, lay), lay


def measure(case, xflat=None, want_trafo=True):
    """run the real code -> dict(val, grad, met, tval, tjac, tlayout) with numpy arrays"""
    I = ift()
    dom = mkdom(case["dom"])
    op = build(case["e"], dom)
    c2 = case if xflat is None else dict(case, x=list(xflat))
    x, lay = position(c2, op)
    lin = op(I.Linearization.make_var(x, want_metric=True))
    DROPPED[0] = 0.0
    out = {"val": float(np.real(lin.val.asnumpy()[()])), "val_imag": float(np.imag(lin.val.asnumpy()[()])),
           "grad": flatten(lin.gradient, lay)}
    out["grad_dropped_imag"] = DROPPED[0]
    DROPPED[0] = 0.0
    out["met"] = None if lin.metric is None else dense(lin.metric, lay, lay)[0]
    out["met_dropped_imag"] = DROPPED[0]
    out["met_at"] = out["herm"] = None
    if want_trafo and lin.metric is not None:
        # sesquilinear form through NIFTy's own vdot on fields of the domain's own dtypes (deterministic vectors)
        N = ndim(lay)
        u = unflatten(np.cos(1.0 + 0.7 * np.arange(N)), op.domain, lay)
        v = unflatten(np.sin(0.3 + 1.3 * np.arange(N)), op.domain, lay)
        s1, s2 = u.s_vdot(lin.metric(v)), v.s_vdot(lin.metric(u))
        out["herm"] = (complex(s1), complex(s2), complex(v.s_vdot(lin.metric(v))))
    if want_trafo and hasattr(op, "get_metric_at"):
        DROPPED[0] = 0.0
        out["met_at"] = dense(op.get_metric_at(x), lay, lay)[0]
        out["met_at_dropped_imag"] = DROPPED[0]
    out["tval"] = out["tjac"] = out["tlayout"] = out["tdtype"] = None
    if want_trafo and hasattr(op, "get_transformation"):
        tr = op.get_transformation()
        if tr is not None:
            dtp, t = tr
            tl = t(I.Linearization.make_var(x))
            tlay = layout_of(tl.val)
            # a complex sampling dtype means complex target coordinates even when the value happens to be real
            if isinstance(dtp, dict):
                tlay = [(k, n, c or (dtp.get(k) is not None and np.issubdtype(np.dtype(dtp[k]), np.complexfloating)))
                        for k, n, c in tlay]
            elif dtp is not None and np.issubdtype(np.dtype(dtp), np.complexfloating):
                tlay = [(k, n, True) for k, n, c in tlay]
            out["tval"] = flatten(tl.val, tlay)
            out["tjac"] = dense(tl.jac, lay, tlay)[0]
            out["tlayout"] = tlay
            out["tdtype"] = ({k: (None if v is None else np.dtype(v).name) for k, v in sorted(dtp.items())}
                             if isinstance(dtp, dict) else (None if dtp is None else np.dtype(dtp).name))
    return out


def value_only(case, xflat):
    I = ift()
    dom = mkdom(case["dom"])
    op = build(case["e"], dom)
    x, lay = position(dict(case, x=list(xflat)), op)
    return float(np.real(op(x).asnumpy()[()]))


def evaluator(case):
    """build the operator once; returns f(xflat) -> energy value (used by the finite-difference oracle)"""
    dom = mkdom(case["dom"])
    op = build(case["e"], dom)

    def f(xflat):
        x, _ = position(dict(case, x=list(xflat)), op)
        return float(np.real(op(x).asnumpy()[()]))
    return f
