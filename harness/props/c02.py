"""C02 — Every library linear operator is adjoint/inverse consistent and correct (DESIGN.md §5 C02).

Tie (class E): for every operator class a constructor configuration is generated from the repo's own domain types;
the dense matrix of EVERY advertised mode is extracted from the real object with integer basis fields and compared
with the Lean model's COO matrices (Model/LinOps.lean over exact Gaussian rationals); model `apply`/`applyAdj` on
random integer vectors are compared with the real apply; constructor error kinds are compared on a malformed stream.
Oracle (real code only): <y,Ax> = <A^H y,x> (real part for real-linear), A^-1 A = 1, linearity, output domain is the
declared target, input bytes unchanged, action equals an independent numpy transcription of the documented definition.
"""
import copy
import json
import zlib

import numpy as np

from . import _c02_util as U
from ._c02_classes import CLASSES, _Skip, _dt

ID = "C02"
LEAN_MODULES = ["NiftyVerif.Props.C02", "NiftyVerif.Model.LinOpsProto", "NiftyVerif.Core.Proto"]
DRIVER = "Driver/C02.lean"
TRANSLATORS = []
OBLIGATIONS = ["NiftyVerif.C02." + t for t in (
    # generic: every well-formed COO operator, all sizes
    "coo_adjoint", "coo_linear", "coo_dense_adj", "coo_comp", "coo_apply_dense", "onAxis_spec", "onAxis_adjoint",
    "onAxis_wellformed", "unravel_ravel_id", "ravel_unravel_id", "cq_isConj", "ofRows_adjoint",
    # per operator: documented definition as closed formula
    "gather_spec", "gather_adj_spec", "gather_perm_unitary", "contraction_spec", "contraction_adj_spec",
    "weightApplier_spec", "weightApplier_modes", "distributor1_spec", "distributor1_adj_spec", "distributor_spec",
    "mask_spec", "mask_rows", "mask_adj_spec", "mask_adj_flagged", "pad1_plain_spec", "pad1_central_spec",
    "valueInserter_spec", "outerProduct_spec", "vdot_spec", "vdot_adj_spec", "diag_spec", "conjugation_involutive",
    "conjugation_spec", "realizer_idempotent", "regrid1_spec", "regrid1_wf", "axisSelect_spec", "sliceIdx_spec", "shift1_inverse", "diagonalOp_spec", "models_wellformed", "transpose_inverse", "subdomain_granularity", "squeeze_is_identity", "identity_ops_spec", "block_ops_spec", "block_ops_wellformed", "einsum_spec", "einsum_adjoint", "einsum_adjoint_identity", "coo_comp_apply", "alongAxes_spec", "sliceSel_spec", "parseSpaces_ok", "harmonic_coo_adjoint", "fieldInserter_spec", "extractAt_spec", "matrixProduct_spec", "mask_adjoint", "padder_adjoint", "regridding_adjoint", "distributor_adjoint", "matrixProduct1_spec", "transpose2_inverse_partial")]
RULE = ("one case = (operator class, constructor configuration generated from RGSpace/UnstructuredDomain/DOFSpace tuples of "
        "1-3 sub-domains with axis lengths 1-4(5), spaces subset, index arrays, flags, weights, dtype); non-trivial = the "
        "operator was constructed and has at least one non-zero matrix entry; distinct by canonical JSON of the case")
TRUSTED_BASE = [
    "Lean 4.33 kernel; axioms propext/Classical.choice/Quot.sound only (audited every run)",
    "hand-written Lean models Model/Coo.lean, Model/LinOps.lean of nifty/cl/operators/* (tied by exact dense-matrix "
    "comparison of every advertised mode, not by translation)",
    "domain objects' shape/dvol/pindex are read from the real domain classes (their correctness is C08)",
    "numpy/scipy executed, not modelled; class E inputs (small integers, dyadic volumes) make every float operation exact",
    "harness: generators, dense extraction with basis fields, canonicalisation",
]
ASSUMPTIONS = [
    "operators with irrational weights (FFT, SHT, NFT, LOS, interpolation at generic points) are handled under C09/C35",
    "ChainOperator/SumOperator/SandwichOperator/DiagonalOperator/ScalingOperator/BlockDiagonalOperator are C01",
    "SplitOperator is exercised on 1-D sub-domains with at most one fancy index per key (numpy broadcasting of several "
    "fancy indices is outside the documented use)",
]


def _errkind(e):
    return type(e).__name__


def _build(case):
    spec = CLASSES[case["cls"]]
    return spec, spec.build(case)


def _quiet(f):
    """the real code prints in places (MatrixProductOperator.apply): keep stdout clean for the VIOLATION protocol"""
    import contextlib
    import functools
    import io

    @functools.wraps(f)
    def g(*a, **kw):
        with contextlib.redirect_stdout(io.StringIO()):
            return f(*a, **kw)
    return g


@_quiet
def _impl(case, vec_x, vec_y, classes=None):
    """canonical observable of the real operator; never raises"""
    spec = (classes or CLASSES)[case["cls"]]
    try:
        op = spec.build(case)
    except _Skip:
        return None, None
    except Exception as e:
        return {"error": _errkind(e)}, None
    problems = []
    out = {"doubled": spec.doubled, "wf": True}
    try:
        dt = _dt(case)
        modes = {}
        for mode in U.MODES:
            if not (op.capability & mode):
                continue
            ro = spec.real_only_input.get(mode, False)
            M = U.dense_of(op, mode, dt, doubled=spec.doubled, real_only_input=ro, problems=problems)
            modes[str(mode)] = U.sparse_canon(M)
            if mode == 1:
                out["rows"], out["cols"] = int(M.shape[0]), int(M.shape[1])
        out["modes"] = modes
        if vec_x is not None:
            x = np.asarray(vec_x)
            dom, tgt = op.domain, op.target
            single = case.get("dtype") in ("F", "C")
            cdt, rdt = (np.complex64, np.float32) if single else (np.complex128, np.float64)
            if spec.doubled:
                y = U.double(U.to_flat(op(U.from_flat(dom, U.undouble(x.real), cdt)), tgt))
            else:
                y = U.to_flat(op(U.from_flat(dom, x, cdt if np.iscomplexobj(x) else rdt)), tgt)
            out["Ax"] = U.canon_vec(y)
        if vec_y is not None and (op.capability & 2) and not spec.real_only_input.get(2, False):
            yv = np.asarray(vec_y)
            dom, tgt = op.domain, op.target
            single = case.get("dtype") in ("F", "C")
            cdt, rdt = (np.complex64, np.float32) if single else (np.complex128, np.float64)
            if spec.doubled:
                z = U.double(U.to_flat(op.adjoint_times(U.from_flat(tgt, U.undouble(yv.real), cdt)), dom))
            else:
                z = U.to_flat(op.adjoint_times(U.from_flat(tgt, yv, cdt if np.iscomplexobj(yv) else rdt)), dom)
            out["AHy"] = U.canon_vec(z)
        if hasattr(spec, "extras"):
            out.update(spec.extras(case, op))
    except Exception as e:
        return {"error": "apply:" + _errkind(e)}, op
    # side conditions of the property as part of the compared surface (the model is pure and lives on `rows`)
    out["side"] = {"input_unchanged": not any(k == "mutated-input" for k, _ in problems),
                   "output_on_declared_target": not any(k == "target-identity" for k, _ in problems)}
    try:
        import nifty.cl as ift
        if isinstance(op.domain, ift.DomainTuple):
            out["dshapes"] = [[int(v) for v in d.shape] for d in op.domain]
        if isinstance(op.target, ift.DomainTuple):
            out["tshapes"] = [[int(v) for v in d.shape] for d in op.target]
    except Exception as e:
        return {"error": "apply:" + _errkind(e)}, op
    return out, op


def _canon_model(m, spec, case):
    if "error" in m:
        return m
    out = {"doubled": m.get("doubled", False), "wf": m.get("wf"), "rows": m.get("rows"), "cols": m.get("cols")}
    modes = {}
    for k, ent in m.get("modes", {}).items():
        if spec.real_only_input.get(int(k), False):
            ent = [e for e in ent if e[1] % 2 == 0]
        modes[k] = U.densify_model(ent)
    out["modes"] = modes
    for k in ("Ax", "AHy", "wgt", "tshapes", "dshapes", "tsizes"):
        if k in m:
            out[k] = m[k]
    out["side"] = {"input_unchanged": True, "output_on_declared_target": True}
    for k in getattr(spec, "drop_extras", lambda: [])():
        out.pop(k, None)
    return out


def _vdot(a, b):
    return complex(np.vdot(np.asarray(a, dtype=np.complex128), np.asarray(b, dtype=np.complex128)))


@_quiet
def oracle(case, classes=None):
    """the property on the REAL code only; returns None or (what, signature)"""
    import random
    spec = (classes or CLASSES).get(case.get("cls"))
    if spec is None:
        if classes is None and case.get("cls") in ("Nufft", "Gridder", "VarPos", "ShiftedFFT"):
            from . import c35
            return c35.nft_oracle(case)
        if classes is None and "seed" in case:
            from . import _c02_tol
            return _c02_tol.oracle(case)
        return None
    try:
        op = spec.build(case)
    except _Skip:
        return None
    except Exception:
        return None          # constructor rejections are compared with the model's error kinds, not judged here
    cls = case["cls"]
    rng = random.Random(zlib.crc32(json.dumps(case, sort_keys=True, default=str).encode()))
    sig = lambda kind, **kw: dict(cls=cls, kind=kind, **kw)
    cplx = "c" in spec.dtypes and case.get("dtype", "f") in ("c", "C")
    dt = _dt(case) if (cplx or case.get("dtype", "f") in ("i", "f", "F")) else np.float64
    problems = []
    try:
        dom, tgt = op.domain, op.target
        n, m = U.dom_size(dom), U.dom_size(tgt)
        if op.capability & 1 == 0:
            return (f"{cls}: TIMES not advertised", sig("capability"))
        for trial in range(3):
            x1 = U.rand_int_vec(rng, n, cplx)
            x2 = U.rand_int_vec(rng, n, cplx)
            y1 = U.rand_int_vec(rng, m, cplx)
            fx1, fx2 = U.from_flat(dom, x1, dt), U.from_flat(dom, x2, dt)
            Ax1 = U.to_flat(U.apply_checked(op, fx1, 1, problems), tgt)
            Ax2 = U.to_flat(U.apply_checked(op, fx2, 1, problems), tgt)
            # linearity (integer coefficients; real-linear operators: real coefficients)
            a, b = rng.randint(-3, 3), rng.randint(-3, 3)
            Ac = U.to_flat(U.apply_checked(op, U.from_flat(dom, a * x1 + b * x2, dt), 1, problems), tgt)
            if not np.array_equal(Ac, a * Ax1 + b * Ax2):
                return (f"{cls}: A(a x1 + b x2) != a A x1 + b A x2", sig("linearity"))
            if cplx and not spec.doubled:
                Ai = U.to_flat(U.apply_checked(op, U.from_flat(dom, 1j * x1, dt), 1, problems), tgt)
                if not np.array_equal(Ai, 1j * Ax1):
                    return (f"{cls}: A(i x) != i A x for a complex-linear operator", sig("linearity"))
            # documented definition
            if spec.ref is not None:
                want = np.asarray(spec.ref(case, x1.astype(np.complex128) if cplx else x1))
                if want.shape != Ax1.shape or not np.array_equal(np.asarray(Ax1, dtype=np.complex128), want.astype(np.complex128)):
                    return (f"{cls}: A x differs from the documented definition (numpy reference)", sig("definition"))
            # adjointness
            if op.capability & 2:
                ydt = dt
                if spec.real_only_input.get(2, False):
                    y1 = y1.real
                    ydt = np.float32 if dt == np.complex64 else np.float64
                AHy = U.to_flat(U.apply_checked(op, U.from_flat(tgt, y1, ydt), 2, problems), dom)
                lhs, rhs = _vdot(y1, Ax1), _vdot(AHy, x1)
                if spec.doubled:
                    lhs, rhs = lhs.real, rhs.real
                if lhs != rhs:
                    return (f"{cls}: <y,Ax> = {lhs} but <A^H y,x> = {rhs}", sig("adjoint"))
            # inverses
            if op.capability & 4:
                back = U.to_flat(U.apply_checked(op, U.apply_checked(op, fx1, 1, problems), 4, problems), dom)
                if not np.array_equal(back, x1):
                    return (f"{cls}: A^-1 A x != x", sig("inverse"))
            if op.capability & 8 and op.capability & 2:
                fy = U.from_flat(tgt, y1, dt)
                back = U.to_flat(U.apply_checked(op, U.apply_checked(op, fy, 2, problems), 8, problems), tgt)
                if not np.array_equal(back, y1):
                    return (f"{cls}: A^-H A^H y != y", sig("adjoint-inverse"))
        # inputs on a different (equal-shaped) domain must be rejected (_check_input)
        import nifty.cl as ift
        for mode in (1, 2):
            if not (op.capability & mode):
                continue
            d = op._dom(mode)
            if isinstance(d, ift.DomainTuple) and len(d) >= 1 and d.size > 0:
                try:
                    wrong = ift.DomainTuple.make(tuple(ift.UnstructuredDomain(dd.shape) if not isinstance(dd, ift.UnstructuredDomain)
                                                       else ift.RGSpace(dd.shape) for dd in d))
                except Exception:
                    continue            # no equal-shaped other domain exists (e.g. a zero-dimensional sub-domain)
                try:
                    op.apply(ift.full(wrong, 1. + 0j if cplx else 1.), mode)
                    return (f"{cls}: mode {mode} accepted a field that lives on a different domain", sig("domain-check", mode=mode))
                except Exception:
                    pass
        if hasattr(spec, "extra_oracle"):
            r = spec.extra_oracle(case, op, rng)
            if r is not None:
                return (f"{cls}: {r[0]}", sig(r[1]))
    except Exception as e:
        return (f"{cls}: apply raised {type(e).__name__}: {str(e)[:120]} on an operator its constructor accepted",
                sig("apply-error", error=type(e).__name__))
    if problems:
        k, mode = problems[0]
        return (f"{cls}: {k} in mode {mode}", sig(k))
    return None


def shrink(case):
    """smaller candidates: shrink every sub-domain axis, drop sub-domains where the class allows, simplify numbers"""
    if "doms" in case:
        doms = case["doms"]
        for i, d in enumerate(doms):
            for j, s in enumerate(d.get("shape", [])):
                if s > 1 and d["kind"] in ("RG", "U") and case["cls"] in ("ConjugationOperator", "Realizer", "Imaginizer",
                                                                            "GeometryRemover", "FieldAdapter", "FFTShiftOperator"):
                    c = copy.deepcopy(case)
                    c["doms"][i]["shape"][j] = s - 1
                    c["doms"][i] = U.sub_json({k: v for k, v in c["doms"][i].items() if k != "dvol"})
                    yield c
    if case.get("cls") == "SplitOperator":
        for k in list(case["slices"]):
            if len(case["slices"]) > 1:
                c = copy.deepcopy(case)
                del c["slices"][k]
                yield c
        if len(case["sizes"]) > 1:
            c = copy.deepcopy(case)
            c["sizes"] = c["sizes"][:1]
            c["slices"] = {k: v[:1] for k, v in c["slices"].items()}
            yield c
    if "mdom" in case and len(case["mdom"]) > 1:
        for k in list(case["mdom"]):
            if k not in case.get("keys", []) and k != case.get("name") and k not in case.get("tkeys", []):
                c = copy.deepcopy(case)
                del c["mdom"][k]
                yield c


def _cases(ctx, per_class, per_malformed, classes=None):
    cases = []
    for name, spec in (classes or CLASSES).items():
        for _ in range(per_class):
            cases.append((spec.gen(ctx.rng, ctx.quick), True))
        for _ in range(per_malformed):
            c = spec.malformed(ctx.rng)
            if c is not None:
                c["malformed"] = True
                cases.append((c, False))
    return cases


def _corpus(pid="C02"):
    import glob
    import json
    import os
    from core.ctx import VERIF
    out = []
    for p in sorted(glob.glob(os.path.join(VERIF, "corpus", pid, "*.json"))):
        try:
            d = json.load(open(p))
            out.append(d.get("case", d))
        except Exception:
            pass
    return out


def run(ctx):
    run_table(ctx, CLASSES, DRIVER, ctx.n(11, 150), ctx.n(3, 20), "C02")
    # operators with irrational weights: the generic part of the property at a tolerance (their documented
    # quantity is C09/C35); NFT through the explicit-sum oracle of C35
    from . import _c02_tol, c35
    _c02_tol.run(ctx, ctx.n(120, 2000))
    for _ in range(ctx.n(40, 400)):
        c = c35._gen_nft(ctx.rng)
        ctx.stat("tol-cls:" + c["cls"])
        ctx.case(c, True)
        r = c35.nft_oracle(c)
        if r is not None:
            ctx.counterexample(c, r[0], r[1])


def run_table(ctx, classes, driver, per_class, per_mal, pid):
    """correspondence + oracle for every class of a class table (shared with C35)"""
    DRIVER = driver
    CLASSES = classes
    cases = [(c, True) for c in _corpus(pid) if c.get("cls") in CLASSES] + _cases(ctx, per_class, per_mal, classes)
    lines, meta = [], []
    for case, valid in cases:
        spec = CLASSES[case["cls"]]
        try:
            line = spec.line(case)
        except Exception as e:
            ctx.stat("line-error:" + _errkind(e))
            continue
        # random integer probe vectors for the model's apply / applyAdj
        sizes_known = None
        lines.append(line)
        meta.append((case, spec))
    outs0 = ctx.model(DRIVER, lines)
    # second pass with probe vectors sized from the model's answer (rows/cols)
    lines2 = []
    probes = []
    for (case, spec), line, m in zip(meta, lines, outs0):
        if "error" in m:
            lines2.append(line)
            probes.append((None, None))
            continue
        cplx = case.get("dtype") in ("c", "C") and not spec.doubled
        x = U.rand_int_vec(ctx.rng, m["cols"], cplx)
        y = U.rand_int_vec(ctx.rng, m["rows"], cplx)
        l2 = dict(line)
        l2["x"] = [U.cq(v) for v in x]
        l2["y"] = [U.cq(v) for v in y]
        lines2.append(l2)
        probes.append((x, y))
    outs = ctx.model(DRIVER, lines2)
    for (case, spec), m, (x, y) in zip(meta, outs, probes):
        impl, op = _impl(case, x, y, classes)
        if impl is None:
            ctx.stat("skipped")
            continue
        cm = _canon_model(m, spec, case)
        if "error" not in impl and "AHy" not in impl:
            cm.pop("AHy", None)
        if "error" not in impl:
            for k in ("dshapes", "tshapes"):          # declared shapes are compared where the class model provides them
                if k not in cm:
                    impl.pop(k, None)
        ctx.stat("cls:" + case["cls"])
        ctx.stat("dtype:" + case.get("dtype", "f"))
        if "error" in impl:
            ctx.stat("error:" + impl["error"])
        else:
            ctx.stat("modes:" + "".join(sorted(impl["modes"].keys())))
            ctx.stat("size<=%d" % (8 if impl["cols"] <= 8 else 24 if impl["cols"] <= 24 else 64))
        nontrivial = "error" not in impl and any(len(v) for v in impl["modes"].values())
        ctx.compare(case, impl, cm, note=f"{case['cls']}: dense matrices of all advertised modes / apply / error kind, "
                                         f"real operator vs Lean model", nontrivial=nontrivial)
        if "error" not in impl or impl["error"].startswith("apply:"):
            r = oracle(case, classes)
            if r is not None:
                ctx.counterexample(case, r[0], r[1])


def search(ctx):
    for name, spec in CLASSES.items():
        for _ in range(ctx.n(40, 200)):
            c = spec.gen(ctx.rng, ctx.quick)
            r = oracle(c)
            if r is not None:
                ctx.counterexample(c, r[0], r[1])
                break
