"""C03 auxiliary stream: anchored mechanisms that are NOT in the Lean model (Linearization.outer, MultiLinearEinsum,
LinearEinsum, integrate).  Oracle on the real code only: value against an independent NumPy reference, Jacobian against
Richardson finite differences of that reference, adjoint = transpose."""
import numpy as np

FUN = {"id": lambda v: v, "exp": np.exp, "sin": np.sin, "tanh": np.tanh, "sq": lambda v: v * v}
EIN = [  # (subscripts, shapes per key in key order)
    ("i,i->i", lambda n, m, l: [(n,), (n,)]),
    ("i,j->ij", lambda n, m, l: [(n,), (m,)]),
    ("i,ij->j", lambda n, m, l: [(n,), (n, m)]),
    ("ij,j->i", lambda n, m, l: [(n, m), (m,)]),
    ("ij,jk->ik", lambda n, m, l: [(n, m), (m, l)]),
    ("i,i,i->i", lambda n, m, l: [(n,), (n,), (n,)]),
    ("i,j,ij->ij", lambda n, m, l: [(n,), (m,), (n, m)]),
    ("ij,ij->j", lambda n, m, l: [(n, m), (n, m)]),
    ("i,i->", lambda n, m, l: [(n,), (n,)]),
]


def gen(rng, n):
    out = []
    dy = lambda: rng.randint(-12, 12) / 8
    for _ in range(n):
        kind = rng.choice(["outer", "outer", "einsum", "einsum", "einsum", "lineinsum", "integrate"])
        if kind == "outer":
            na, nb = rng.choice([1, 2, 3]), rng.choice([1, 2, 3])
            out.append(dict(aux="outer", fa=rng.choice(sorted(FUN)), fb=rng.choice(sorted(FUN)),
                            other=rng.choice(["lin", "lin", "field", "same"]),
                            xa=[dy() for _ in range(na)], xb=[dy() for _ in range(nb)]))
        elif kind in ("einsum", "lineinsum"):
            ss, shp = rng.choice(EIN)
            shapes = shp(rng.choice([1, 2, 3]), rng.choice([1, 2, 3]), rng.choice([1, 2]))
            xs = [[dy() for _ in range(int(np.prod(s)))] for s in shapes]
            static = rng.randrange(len(shapes)) if (kind == "einsum" and rng.random() < 0.3) else None
            out.append(dict(aux=kind, ss=ss, shapes=[list(s) for s in shapes], xs=xs, static=static,
                            pre=rng.choice(["id", "id", "exp", "tanh"])))
        else:
            n1 = rng.choice([1, 2, 3, 4])
            out.append(dict(aux="integrate", f=rng.choice(sorted(FUN)), x=[dy() for _ in range(n1)],
                            dist=rng.choice([0.5, 1.0, 0.25, 2.0])))
    return out


def _arr(f):
    v = f.val
    return np.asarray(v.asnumpy() if hasattr(v, "asnumpy") else v, dtype=np.float64)


def _fd(f, x0):
    J = np.zeros((f(x0).size, x0.size))
    for j in range(x0.size):
        h = 1e-4 * max(1.0, abs(x0[j]))
        e = np.zeros(x0.size)
        e[j] = h
        d1 = (f(x0 + e) - f(x0 - e)) / (2 * h)
        d2 = (f(x0 + e / 2) - f(x0 - e / 2)) / h
        J[:, j] = (4 * d2 - d1) / 3
    return J


def _close(a, b, tol):
    a, b = np.asarray(a, dtype=float), np.asarray(b, dtype=float)
    return a.shape == b.shape and bool(np.all(np.abs(a - b) <= tol * max(1.0, float(np.max(np.abs(b), initial=0)))))


def _check(kind, val, ref, Jr, A, J):
    sig = {"site": "aux:" + kind}
    if not _close(val, ref, 1e-12):
        return (f"{kind}: value on a Linearization differs from the reference value", dict(sig, kind="value"))
    if not _close(Jr, J, 2e-6):
        return (f"{kind}: Jacobian differs from finite differences (max dev {np.max(np.abs(Jr - J)):.3g})", dict(sig, kind="jacobian"))
    if not _close(A, Jr.T, 1e-12):
        return (f"{kind}: adjoint Jacobian is not the transpose", dict(sig, kind="adjoint"))
    return None


def oracle(case):
    from .c03 import quiet, err_site
    kind = case["aux"]
    try:
        with quiet():
            return _oracle(case)
    except Exception as e:
        return (f"{kind}: raised {type(e).__name__} in {err_site(e)}: {str(e)[:120]}",
                {"site": "aux:" + kind, "kind": "error:" + type(e).__name__, "where": err_site(e)})


def _multi(ift, doms, xs):
    return ift.MultiField.from_dict({k: ift.makeField(d, np.array(x, dtype=np.float64).reshape(d.shape))
                                     for (k, d), x in zip(doms.items(), xs)})


def _dense(ift, lin, doms, sizes, tgt):
    """dense Jacobian and adjoint of a Linearization over the multi-domain `doms`"""
    nin = sum(sizes)
    tshape = tgt.shape
    nout = int(np.prod(tshape)) if len(tshape) else 1
    J = np.zeros((nout, nin))
    A = np.zeros((nin, nout))
    for j in range(nin):
        e = np.zeros(nin)
        e[j] = 1
        parts, o = [], 0
        for s in sizes:
            parts.append(e[o:o + s])
            o += s
        J[:, j] = _arr(lin.jac(_multi(ift, doms, parts))).ravel()
    for i in range(nout):
        e = np.zeros(nout)
        e[i] = 1
        g = lin.jac.adjoint_times(ift.makeField(tgt, e.reshape(tshape)))
        A[:, i] = np.concatenate([_arr(g[k]).ravel() for k in doms])
    return J, A


def _oracle(case):
    import nifty.cl as ift
    kind = case["aux"]
    U = lambda n: ift.UnstructuredDomain(n)
    if kind == "outer":
        xa, xb = np.array(case["xa"]), np.array(case["xb"])
        fa, fb = FUN[case["fa"]], FUN[case["fb"]]
        ptw = lambda l, name: l if name == "id" else (l * l if name == "sq" else l.ptw(name))
        if case["other"] == "same":
            # both factors depend on the same single-domain input
            d = ift.DomainTuple.make(U(xa.size))
            x = ift.makeField(d, xa)
            lin = ift.Linearization.make_var(x)
            r = ptw(lin, case["fa"]).outer(ptw(lin, case["fb"]))
            ref = lambda v: np.multiply.outer(fa(v), fb(v)).ravel()
            x0 = xa
            J = np.zeros((xa.size ** 2, xa.size))
            A = np.zeros((xa.size, xa.size ** 2))
            for j in range(xa.size):
                e = np.zeros(xa.size)
                e[j] = 1
                J[:, j] = _arr(r.jac(ift.makeField(d, e))).ravel()
            for i in range(xa.size ** 2):
                e = np.zeros(xa.size ** 2)
                e[i] = 1
                A[:, i] = _arr(r.jac.adjoint_times(ift.makeField(r.target, e.reshape(r.target.shape)))).ravel()
            return _check(kind, _arr(r.val).ravel(), ref(x0), J, A, _fd(ref, x0))
        doms = {"a": ift.DomainTuple.make(U(xa.size)), "b": ift.DomainTuple.make(U(xb.size))}
        lin = ift.Linearization.make_var(_multi(ift, doms, [xa, xb]))
        la = ptw(lin["a"], case["fa"])
        if case["other"] == "lin":
            r = la.outer(ptw(lin["b"], case["fb"]))
            ref = lambda v: np.multiply.outer(fa(v[:xa.size]), fb(v[xa.size:])).ravel()
        else:
            r = la.outer(ift.makeField(doms["b"], fb(xb)))
            ref = lambda v: np.multiply.outer(fa(v[:xa.size]), fb(xb)).ravel()
        # the Jacobian lives on the domain of `lin`; for other == "field" only key a is read but the domain is still {a, b}
        J, A = _dense(ift, r, doms, [xa.size, xb.size], r.target)
        x0 = np.concatenate([xa, xb])
        return _check(kind, _arr(r.val).ravel(), ref(x0), J, A, _fd(ref, x0))
    if kind in ("einsum", "lineinsum"):
        keys = ["a", "b", "c"][:len(case["shapes"])]
        doms = {k: ift.DomainTuple.make(tuple(U(n) for n in s)) for k, s in zip(keys, case["shapes"])}
        xs = [np.array(x, dtype=np.float64).reshape(s) for x, s in zip(case["xs"], case["shapes"])]
        pre = FUN[case["pre"]]
        if kind == "lineinsum":
            # linear in the LAST operand, the others are fixed fields
            mf = _multi(ift, {k: doms[k] for k in keys[:-1]}, xs[:-1])
            op = ift.LinearEinsum(doms[keys[-1]], mf, case["ss"], key_order=tuple(keys[:-1]))
            xin = ift.makeField(doms[keys[-1]], xs[-1])
            ref = lambda v: np.einsum(case["ss"], *xs[:-1], v.reshape(case["shapes"][-1])).ravel()
            val = _arr(op(xin)).ravel()
            n = xs[-1].size
            tshape = op.target.shape
            nout = int(np.prod(tshape)) if len(tshape) else 1
            J, A = np.zeros((nout, n)), np.zeros((n, nout))
            for j in range(n):
                e = np.zeros(n)
                e[j] = 1
                J[:, j] = _arr(op(ift.makeField(doms[keys[-1]], e.reshape(case["shapes"][-1])))).ravel()
            for i in range(nout):
                e = np.zeros(nout)
                e[i] = 1
                A[:, i] = _arr(op.adjoint_times(ift.makeField(op.target, e.reshape(tshape)))).ravel()
            return _check(kind, val, ref(xs[-1].ravel()), J, A, _fd(ref, xs[-1].ravel()))
        st = case["static"]
        vkeys = [k for i, k in enumerate(keys) if i != st]
        vdoms = {k: doms[k] for k in vkeys}
        if st is None:
            op = ift.MultiLinearEinsum(doms, case["ss"], key_order=tuple(keys))
        else:
            smf = ift.MultiField.from_dict({keys[st]: ift.makeField(doms[keys[st]], xs[st])})
            op = ift.MultiLinearEinsum(vdoms, case["ss"], key_order=tuple(keys), static_mf=smf)
        if case["pre"] != "id":
            op = op @ ift.ScalingOperator(op.domain, 1.).ptw(case["pre"])
        vx = [xs[i] for i, k in enumerate(keys) if i != st]
        sizes = [v.size for v in vx]

        def ref(v):
            parts, o, it = [], 0, 0
            for i, k in enumerate(keys):
                if i == st:
                    parts.append(xs[i])
                else:
                    parts.append(pre(v[o:o + sizes[it]]).reshape(case["shapes"][i]))
                    o += sizes[it]
                    it += 1
            return np.einsum(case["ss"], *parts).ravel()
        p = _multi(ift, vdoms, [v.ravel() for v in vx])
        lin = op(ift.Linearization.make_var(p))
        J, A = _dense(ift, lin, vdoms, sizes, op.target)
        x0 = np.concatenate([v.ravel() for v in vx])
        r = _check(kind, _arr(lin.val).ravel(), ref(x0), J, A, _fd(ref, x0))
        if r is None and not _close(_arr(op(p)).ravel(), ref(x0), 1e-12):
            return (f"{kind}: plain value differs from np.einsum", {"site": "aux:" + kind, "kind": "value"})
        return r
    if kind == "integrate":
        x = np.array(case["x"])
        d = ift.DomainTuple.make(ift.RGSpace(x.size, distances=case["dist"]))
        f = FUN[case["f"]]
        lin = ift.Linearization.make_var(ift.makeField(d, x))
        l = lin if case["f"] == "id" else (lin * lin if case["f"] == "sq" else lin.ptw(case["f"]))
        r = l.integrate()
        ref = lambda v: np.array([np.sum(f(v)) * case["dist"]])
        J = np.zeros((1, x.size))
        for j in range(x.size):
            e = np.zeros(x.size)
            e[j] = 1
            J[:, j] = _arr(r.jac(ift.makeField(d, e))).ravel()
        A = _arr(r.jac.adjoint_times(ift.Field.scalar(1.))).reshape(x.size, 1)
        return _check(kind, _arr(r.val).ravel(), ref(x), J, A, _fd(ref, x))
    raise ValueError(kind)
