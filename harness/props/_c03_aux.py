"""C03 auxiliary stream: anchored mechanisms that are NOT in the Lean model (Linearization.outer, MultiLinearEinsum,
LinearEinsum, integrate).  Oracle on the real code only: value against an independent NumPy reference, Jacobian against
Richardson finite differences of that reference, adjoint = transpose."""
import numpy as np

FUN = {"id": lambda v: v, "exp": np.exp, "sin": np.sin, "tanh": np.tanh, "sq": lambda v: v * v}
EIN = [  # (subscripts, shapes per key in key order)
    ("i,i->i", lambda n, m, l: [(n,), (n,)]),
    ("i,j->ij", lambda n, m, l: [(n,), (m,)]),
    ("i,ij->j", lambda n, m, l: [(n,), (n, m)]),
    ("ij,j->i", lambda n, m, l: [(n, m), (m,)]),
    ("ij,jk->ik", lambda n, m, l: [(n, m), (m, l)]),
    ("i,i,i->i", lambda n, m, l: [(n,), (n,), (n,)]),
    ("i,j,ij->ij", lambda n, m, l: [(n,), (m,), (n, m)]),
    ("ij,ij->j", lambda n, m, l: [(n, m), (n, m)]),
    ("i,i->", lambda n, m, l: [(n,), (n,)]),
]


def gen(rng, n):
    out = []
    dy = lambda: rng.randint(-12, 12) / 8
    for _ in range(n):
        kind = rng.choice(["outer", "outer", "einsum", "einsum", "einsum", "lineinsum", "integrate"])
        if kind == "outer":
            na, nb = rng.choice([1, 2, 3]), rng.choice([1, 2, 3])
            out.append(dict(aux="outer", fa=rng.choice(sorted(FUN)), fb=rng.choice(sorted(FUN)),
                            other=rng.choice(["lin", "lin", "field", "same"]),
                            xa=[dy() for _ in range(na)], xb=[dy() for _ in range(nb)]))
        elif kind in ("einsum", "lineinsum"):
            ss, shp = rng.choice(EIN)
            shapes = shp(rng.choice([1, 2, 3]), rng.choice([1, 2, 3]), rng.choice([1, 2]))
            xs = [[dy() for _ in range(int(np.prod(s)))] for s in shapes]
            static = rng.randrange(len(shapes)) if (kind == "einsum" and rng.random() < 0.3) else None
            out.append(dict(aux=kind, ss=ss, shapes=[list(s) for s in shapes], xs=xs, static=static,
                            pre=rng.choice(["id", "id", "exp", "tanh"])))
        else:
            n1 = rng.choice([1, 2, 3, 4])
            out.append(dict(aux="integrate", f=rng.choice(sorted(FUN)), x=[dy() for _ in range(n1)],
                            dist=rng.choice([0.5, 1.0, 0.25, 2.0])))
    return out


def _arr(f):
    v = f.val
    return np.asarray(v.asnumpy() if hasattr(v, "asnumpy") else v, dtype=np.float64)


def _fd(f, x0):
    J = np.zeros((f(x0).size, x0.size))
    for j in range(x0.size):
        h = 1e-4 * max(1.0, abs(x0[j]))
        e = np.zeros(x0.size)
        e[j] = h
        d1 = (f(x0 + e) - f(x0 - e)) / (2 * h)
        d2 = (f(x0 + e / 2) - f(x0 - e / 2)) / h
        J[:, j] = (4 * d2 - d1) / 3
    return J


def _close(a, b, tol):
    a, b = np.asarray(a, dtype=float), np.asarray(b, dtype=float)
    return a.shape == b.shape and bool(np.all(np.abs(a - b) <= tol * max(1.0, float(np.max(np.abs(b), initial=0)))))


def _check(kind, val, ref, Jr, A, J):
    sig = {"site": "aux:" + kind}
    if not _close(val, ref, 1e-12):
        return (f"{kind}: value on a Linearization differs from the reference value", dict(sig, kind="value"))
    if not _close(Jr, J, 2e-6):
        return (f"{kind}: Jacobian differs from finite differences (max dev {np.max(np.abs(Jr - J)):.3g})", dict(sig, kind="jacobian"))
    if not _close(A, Jr.T, 1e-12):
        return (f"{kind}: adjoint Jacobian is not the transpose", dict(sig, kind="adjoint"))
    return None


def oracle(case):
    from .c03 import quiet, err_site
    kind = case["aux"]
    try:
        with quiet():
            return _oracle(case)
    except Exception as e:
        return (f"{kind}: raised {type(e).__name__} in {err_site(e)}: {str(e)[:120]}",
                {"site": "aux:" + kind, "kind": "error:" + type(e).__name__, "where": err_site(e)})


def _multi(ift, doms, xs):
    return ift.MultiField.from_dict({k: ift.makeField(d, np.array(x, dtype=np.float64).reshape(d.shape))
                                     for (k, d), x in zip(doms.items(), xs)})


def _dense(ift, lin, doms, sizes, tgt):
    """dense Jacobian and adjoint of a Linearization over the multi-domain `doms`"""
    nin = sum(sizes)
    tshape = tgt.shape
    nout = int(np.prod(tshape)) if len(tshape) else 1
    J = np.zeros((nout, nin))
    A = np.zeros((nin, nout))
    for j in range(nin):
        e = np.zeros(nin)
        e[j] = 1
        parts, o = [], 0
        for s in sizes:
            parts.append(e[o:o + s])
            o += s
        J[:, j] = _arr(lin.jac(_multi(ift, doms, parts))).ravel()
    for i in range(nout):
        e = np.zeros(nout)
        e[i] = 1
        g = lin.jac.adjoint_times(ift.makeField(tgt, e.reshape(tshape)))
        A[:, i] = np.concatenate([_arr(g[k]).ravel() for k in doms])
    return J, A


def _oracle(case):
    import nifty.cl as ift
    kind = case["aux"]
    if kind == "cmetric":
        return _oracle_cmetric(case, ift)
    U = lambda n: ift.UnstructuredDomain(n)
    if kind == "outer":
        xa, xb = np.array(case["xa"]), np.array(case["xb"])
        fa, fb = FUN[case["fa"]], FUN[case["fb"]]
        ptw = lambda l, name: l if name == "id" else (l * l if name == "sq" else l.ptw(name))
        if case["other"] == "same":
            # both factors depend on the same single-domain input
            d = ift.DomainTuple.make(U(xa.size))
            x = ift.makeField(d, xa)
            lin = ift.Linearization.make_var(x)
            r = ptw(lin, case["fa"]).outer(ptw(lin, case["fb"]))
            ref = lambda v: np.multiply.outer(fa(v), fb(v)).ravel()
            x0 = xa
            J = np.zeros((xa.size ** 2, xa.size))
            A = np.zeros((xa.size, xa.size ** 2))
            for j in range(xa.size):
                e = np.zeros(xa.size)
                e[j] = 1
                J[:, j] = _arr(r.jac(ift.makeField(d, e))).ravel()
            for i in range(xa.size ** 2):
                e = np.zeros(xa.size ** 2)
                e[i] = 1
                A[:, i] = _arr(r.jac.adjoint_times(ift.makeField(r.target, e.reshape(r.target.shape)))).ravel()
            return _check(kind, _arr(r.val).ravel(), ref(x0), J, A, _fd(ref, x0))
        doms = {"a": ift.DomainTuple.make(U(xa.size)), "b": ift.DomainTuple.make(U(xb.size))}
        lin = ift.Linearization.make_var(_multi(ift, doms, [xa, xb]))
        la = ptw(lin["a"], case["fa"])
        if case["other"] == "lin":
            r = la.outer(ptw(lin["b"], case["fb"]))
            ref = lambda v: np.multiply.outer(fa(v[:xa.size]), fb(v[xa.size:])).ravel()
        else:
            r = la.outer(ift.makeField(doms["b"], fb(xb)))
            ref = lambda v: np.multiply.outer(fa(v[:xa.size]), fb(xb)).ravel()
        # the Jacobian lives on the domain of `lin`; for other == "field" only key a is read but the domain is still {a, b}
        J, A = _dense(ift, r, doms, [xa.size, xb.size], r.target)
        x0 = np.concatenate([xa, xb])
        return _check(kind, _arr(r.val).ravel(), ref(x0), J, A, _fd(ref, x0))
    if kind in ("einsum", "lineinsum"):
        keys = ["a", "b", "c"][:len(case["shapes"])]
        doms = {k: ift.DomainTuple.make(tuple(U(n) for n in s)) for k, s in zip(keys, case["shapes"])}
        xs = [np.array(x, dtype=np.float64).reshape(s) for x, s in zip(case["xs"], case["shapes"])]
        pre = FUN[case["pre"]]
        if kind == "lineinsum":
            # linear in the LAST operand, the others are fixed fields
            mf = _multi(ift, {k: doms[k] for k in keys[:-1]}, xs[:-1])
            op = ift.LinearEinsum(doms[keys[-1]], mf, case["ss"], key_order=tuple(keys[:-1]))
            xin = ift.makeField(doms[keys[-1]], xs[-1])
            ref = lambda v: np.einsum(case["ss"], *xs[:-1], v.reshape(case["shapes"][-1])).ravel()
            val = _arr(op(xin)).ravel()
            n = xs[-1].size
            tshape = op.target.shape
            nout = int(np.prod(tshape)) if len(tshape) else 1
            J, A = np.zeros((nout, n)), np.zeros((n, nout))
            for j in range(n):
                e = np.zeros(n)
                e[j] = 1
                J[:, j] = _arr(op(ift.makeField(doms[keys[-1]], e.reshape(case["shapes"][-1])))).ravel()
            for i in range(nout):
                e = np.zeros(nout)
                e[i] = 1
                A[:, i] = _arr(op.adjoint_times(ift.makeField(op.target, e.reshape(tshape)))).ravel()
            return _check(kind, val, ref(xs[-1].ravel()), J, A, _fd(ref, xs[-1].ravel()))
        st = case["static"]
        vkeys = [k for i, k in enumerate(keys) if i != st]
        vdoms = {k: doms[k] for k in vkeys}
        if st is None:
            op = ift.MultiLinearEinsum(doms, case["ss"], key_order=tuple(keys))
        else:
            smf = ift.MultiField.from_dict({keys[st]: ift.makeField(doms[keys[st]], xs[st])})
            op = ift.MultiLinearEinsum(vdoms, case["ss"], key_order=tuple(keys), static_mf=smf)
        if case["pre"] != "id":
            op = op @ ift.ScalingOperator(op.domain, 1.).ptw(case["pre"])
        vx = [xs[i] for i, k in enumerate(keys) if i != st]
        sizes = [v.size for v in vx]

        def ref(v):
            parts, o, it = [], 0, 0
            for i, k in enumerate(keys):
                if i == st:
                    parts.append(xs[i])
                else:
                    parts.append(pre(v[o:o + sizes[it]]).reshape(case["shapes"][i]))
                    o += sizes[it]
                    it += 1
            return np.einsum(case["ss"], *parts).ravel()
        p = _multi(ift, vdoms, [v.ravel() for v in vx])
        lin = op(ift.Linearization.make_var(p))
        J, A = _dense(ift, lin, vdoms, sizes, op.target)
        x0 = np.concatenate([v.ravel() for v in vx])
        r = _check(kind, _arr(lin.val).ravel(), ref(x0), J, A, _fd(ref, x0))
        if r is None and not _close(_arr(op(p)).ravel(), ref(x0), 1e-12):
            return (f"{kind}: plain value differs from np.einsum", {"site": "aux:" + kind, "kind": "value"})
        return r
    if kind == "integrate":
        x = np.array(case["x"])
        d = ift.DomainTuple.make(ift.RGSpace(x.size, distances=case["dist"]))
        f = FUN[case["f"]]
        lin = ift.Linearization.make_var(ift.makeField(d, x))
        l = lin if case["f"] == "id" else (lin * lin if case["f"] == "sq" else lin.ptw(case["f"]))
        r = l.integrate()
        ref = lambda v: np.array([np.sum(f(v)) * case["dist"]])
        J = np.zeros((1, x.size))
        for j in range(x.size):
            e = np.zeros(x.size)
            e[j] = 1
            J[:, j] = _arr(r.jac(ift.makeField(d, e))).ravel()
        A = _arr(r.jac.adjoint_times(ift.Field.scalar(1.))).reshape(x.size, 1)
        return _check(kind, _arr(r.val).ravel(), ref(x), J, A, _fd(ref, x))
    raise ValueError(kind)


# ---------------------------------------------------------------------------------------------- complex models + metric
CF = {"id": lambda z: z, "exp": np.exp, "sin": np.sin, "tanh": np.tanh, "sinh": np.sinh}


def gen_cmetric(rng, n):
    """a Gaussian energy (complex data) on top of a complex-valued model built from complex scalings, complex diagonal
    operators, complex dense matrices, FFTs and holomorphic point-wise functions; `want_metric` requested"""
    out = []
    dy = lambda: rng.randint(-8, 8) / 8
    cz = lambda: [dy(), dy()]
    for _ in range(n):
        m = rng.choice([1, 2, 3, 4])
        steps = []
        for _ in range(rng.choice([1, 1, 2, 3])):
            k = rng.choice(["scale", "scale", "diag", "dense", "fft", "ptw", "scale_real_neg"])
            if k == "scale":
                g = rng.choice([[0.0, 1.0], [0.0, -2.0], [1.0, 1.0], [-0.5, 0.75], [0.0, 0.5]])
                steps.append(dict(k="scale", g=g))
            elif k == "scale_real_neg":
                steps.append(dict(k="scale", g=[rng.choice([-1.0, -2.0, -0.5]), 0.0]))
            elif k == "diag":
                steps.append(dict(k="diag", d=[[rng.choice([-1.5, -1, 0.5, 1, 2]), dy()] for _ in range(m)]))
            elif k == "dense":
                steps.append(dict(k="dense", a=[[cz() for _ in range(m)] for _ in range(m)]))
            elif k == "fft":
                steps.append(dict(k="fft"))
            else:
                steps.append(dict(k="ptw", f=rng.choice(["exp", "sin", "tanh", "sinh"])))
        out.append(dict(aux="cmetric", n=m, steps=steps, x=[[dy() / 2, dy() / 2] for _ in range(m)],
                        data=[cz() for _ in range(m)], icov=[rng.choice([0.25, 0.5, 1.0, 2.0]) for _ in range(m)],
                        cov=rng.choice(["diag", "none", "scalar"]), scale_lh=rng.choice([None, None, 2.0, 0.5]),
                        wm=True))
    return out


def _cplx(l):
    return np.array([complex(a, b) for a, b in l])


def _oracle_cmetric(case, ift):
    n = case["n"]
    sp = ift.RGSpace(n)
    d = ift.DomainTuple.make(sp)
    cur = ift.ScalingOperator(d, 1.)
    tgt = d
    refs = []
    for s in case["steps"]:
        if s["k"] == "scale":
            g = complex(*s["g"])
            cur = ift.ScalingOperator(tgt, g if g.imag != 0 else g.real) @ cur
            refs.append(lambda z, g=g: g * z)
        elif s["k"] == "diag":
            dv = _cplx(s["d"])
            cur = ift.makeOp(ift.makeField(tgt, dv)) @ cur
            refs.append(lambda z, dv=dv: dv * z)
        elif s["k"] == "dense":
            a = np.array([[complex(*c) for c in row] for row in s["a"]])
            cur = ift.MatrixProductOperator(tgt, a) @ cur
            refs.append(lambda z, a=a: a @ z)
        elif s["k"] == "fft":
            F = ift.FFTOperator(tgt)
            cur = F @ cur
            ctgt = F.target
            Fm = np.array([_arrc(F(ift.makeField(tgt, e))) for e in np.eye(n, dtype=complex)]).T
            refs.append(lambda z, Fm=Fm: Fm @ z)
            tgt = ctgt
        else:
            cur = cur.ptw(s["f"])
            refs.append(CF[s["f"]])
    model = cur

    def ref_model(z):
        for r in refs:
            z = r(z)
        return z
    data = ift.makeField(tgt, _cplx(case["data"]))
    icov = np.array(case["icov"])
    if case["cov"] == "diag":
        N = ift.makeOp(ift.makeField(tgt, icov), sampling_dtype=np.complex128)
    elif case["cov"] == "scalar":
        N = ift.ScalingOperator(tgt, float(icov[0]), np.complex128)
        icov = np.full(n, icov[0])
    else:
        N = None
        icov = np.ones(n)
    E = ift.GaussianEnergy(data=data, inverse_covariance=N) @ model
    c = case["scale_lh"]
    if c is not None:
        E = E.scale(c)
    else:
        c = 1.0
    x0 = _cplx(case["x"])
    x = ift.makeField(d, x0)
    lin = E(ift.Linearization.make_var(x, True))
    sig = {"site": "aux:cmetric"}
    dv = _cplx(case["data"])
    ref = lambda z: c * 0.5 * float(np.real(np.vdot(ref_model(z) - dv, icov * (ref_model(z) - dv))))
    val = float(np.real(_arrc(lin.val)[()] if _arrc(lin.val).shape == () else _arrc(lin.val).ravel()[0]))
    if not np.isfinite(ref(x0)) or abs(ref(x0)) > 1e6:
        return None
    tol = lambda b: 1e-10 * max(1.0, float(np.max(np.abs(b), initial=0)))
    if abs(val - ref(x0)) > tol(ref(x0)):
        return (f"cmetric: value {val!r} differs from the reference {ref(x0)!r}", dict(sig, kind="value"))
    # real-linear probing: directions e_j and i e_j
    dirs = [e for e in np.eye(n, dtype=complex)] + [1j * e for e in np.eye(n, dtype=complex)]
    Jh = np.array([float(np.real(_arrc(lin.jac(ift.makeField(d, h))).ravel()[0])) for h in dirs])
    FD = []
    for h in dirs:
        t = 1e-4
        d1 = (ref(x0 + t * h) - ref(x0 - t * h)) / (2 * t)
        d2 = (ref(x0 + t / 2 * h) - ref(x0 - t / 2 * h)) / t
        FD.append((4 * d2 - d1) / 3)
    FD = np.array(FD)
    if np.any(np.abs(Jh - FD) > 5e-6 * max(1.0, np.max(np.abs(FD)))):
        return ("cmetric: Jacobian of the energy differs from finite differences of the reference", dict(sig, kind="jacobian"))
    g = _arrc(lin.gradient).ravel()
    if np.any(np.abs(np.array([np.real(np.vdot(g, h)) for h in dirs]) - Jh) > tol(Jh)):
        return ("cmetric: gradient (adjoint Jacobian applied to 1) is inconsistent with the Jacobian: Re<g,h> != J h",
                dict(sig, kind="adjoint"))
    # the metric demanded by the property: J_model^H N J_model (times the likelihood scale), from the REAL model Jacobian
    lm = model(ift.Linearization.make_var(x))
    Jm = np.array([_arrc(lm.jac(ift.makeField(d, e))).ravel() for e in np.eye(n, dtype=complex)]).T
    Jmi = np.array([_arrc(lm.jac(ift.makeField(d, 1j * e))).ravel() for e in np.eye(n, dtype=complex)]).T
    if np.any(np.abs(Jmi - 1j * Jm) > tol(Jm)):
        return ("cmetric: the model's Jacobian is not complex-linear", dict(sig, kind="linearity"))
    Mexp = c * (Jm.conj().T @ np.diag(icov) @ Jm)
    if lin.metric is None:
        return ("cmetric: the requested metric was not carried through", dict(sig, kind="metric-missing"))
    mechs = {"linearization": lin.metric}
    if case["scale_lh"] is None:
        mechs["get_metric_at"] = E.get_metric_at(x)
    for name, M in mechs.items():
        Mm = np.array([_arrc(M(ift.makeField(d, h))).ravel() for h in dirs]).T        # n x 2n
        want = np.concatenate([Mexp, 1j * Mexp], axis=1)
        if np.any(np.abs(Mm - want) > tol(want)):
            return (f"cmetric: metric ({name}) is not J^H N J of the model (max dev {np.max(np.abs(Mm - want)):.3g})",
                    dict(sig, kind="metric", mechanism=name))
        Mh = Mm[:, :n]
        if np.any(np.abs(Mh - Mh.conj().T) > tol(Mh)):
            return (f"cmetric: metric ({name}) is not Hermitian", dict(sig, kind="metric-hermitian", mechanism=name))
        if np.min(np.linalg.eigvalsh((Mh + Mh.conj().T) / 2)) < -tol(Mh):
            return (f"cmetric: metric ({name}) is not positive semi-definite", dict(sig, kind="metric-psd", mechanism=name))
    # transformation pull-back (when the likelihood provides one)
    if case["scale_lh"] is None:
        tr = E.get_transformation()
        if tr is not None:
            lt = tr[1](ift.Linearization.make_var(x))
            Jt = np.array([_arrc(lt.jac(ift.makeField(d, e))).ravel() for e in np.eye(n, dtype=complex)]).T
            if np.any(np.abs(Jt.conj().T @ Jt - Mexp) > tol(Mexp)):
                return ("cmetric: J^H J of get_transformation() differs from J^H N J of the model",
                        dict(sig, kind="metric", mechanism="transformation"))
    return None


def _arrc(f):
    v = f.val
    return np.asarray(v.asnumpy() if hasattr(v, "asnumpy") else v)
