"""C04 auxiliary stream: per-class simplification rules that are NOT in the Lean model
(VariableCovarianceGaussianEnergy._simplify_for_constant_input_nontrivial -> _SpecialGammaEnergy / GaussianEnergy,
StandardHamiltonian._simplify_for_constant_input_nontrivial).  Oracle on the real code only: the simplified energy at the
variable part vs. the original at the full position (value, gradient, metric block)."""
import numpy as np


def _arr(f):
    v = f.val
    v = np.asarray(v.asnumpy() if hasattr(v, "asnumpy") else v)
    return (v if np.iscomplexobj(v) else v.astype(np.float64)).ravel()


def gen(rng, n):
    out = []
    dy = lambda lo, hi: rng.randint(int(lo * 8), int(hi * 8)) / 8
    for _ in range(n):
        m = rng.choice([1, 2, 3])
        kind = rng.choice(["varcov", "varcov", "hamiltonian", "hamiltonian_varcov", "varcov_c", "counting"])
        out.append(dict(aux=kind, n=m, r=[dy(-2, 2) for _ in range(m)], i=[dy(0.25, 3) for _ in range(m)],
                        d=[dy(-2, 2) for _ in range(m)], S=rng.choice([["a"], ["b"]]), wm=rng.random() < 0.7,
                        f=rng.choice(["exp", "tanh", "sin"]), r_im=[dy(-2, 2) for _ in range(m)]))
    return out


def _dense(op_apply, dom_in, dom_out, ift):
    def units(dom):
        if hasattr(dom, "keys"):
            for k in dom.keys():
                for j in range(dom[k].size):
                    e = {kk: np.zeros(dom[kk].shape) for kk in dom.keys()}
                    e[k].ravel()[j] = 1
                    yield ift.MultiField.from_dict({kk: ift.makeField(dom[kk], vv) for kk, vv in e.items()})
        else:
            for j in range(max(dom.size, 1)):
                e = np.zeros(dom.shape)
                e.ravel()[j] = 1
                yield ift.makeField(dom, e)

    def flat(f):
        if hasattr(f, "keys"):
            return np.concatenate([_arr(f[k]) for k in f.keys()])
        return _arr(f)
    return np.array([flat(op_apply(u)) for u in units(dom_in)]).T


def oracle(case):
    import contextlib, io, logging
    from .c03 import err_site
    try:
        with contextlib.redirect_stdout(io.StringIO()):
            import warnings
            import nifty.cl as ift
            ift.logger.setLevel(logging.ERROR)
            with warnings.catch_warnings():
                warnings.simplefilter("ignore")
                return _oracle(case, ift)
    except Exception as e:
        return (f"{case['aux']}: raised {type(e).__name__} in {err_site(e)}: {str(e)[:120]}",
                {"site": "aux:" + case["aux"], "kind": "error:" + type(e).__name__, "where": err_site(e)})


def _oracle(case, ift):
    if case["aux"] == "sea":
        return _oracle_sea(case, ift)
    if case["aux"] == "jaxsimp":
        return _oracle_jax(case, ift)
    kind, n, S, wm = case["aux"], case["n"], case["S"], case["wm"]
    d = ift.DomainTuple.make(ift.UnstructuredDomain(n))
    fa = lambda k: ift.FieldAdapter(d, k)
    x = ift.MultiField.from_dict({"a": ift.makeField(d, np.array(case["r"])), "b": ift.makeField(d, np.array(case["i"]))})
    if kind == "varcov":
        E = ift.VariableCovarianceGaussianEnergy(d, "a", "b", np.float64)
    elif kind == "varcov_c":
        # complex residual: the log-determinant constant is NOT halved
        x = ift.MultiField.from_dict({"a": ift.makeField(d, np.array(case["r"]) + 1j * np.array(case["r_im"])),
                                      "b": ift.makeField(d, np.array(case["i"]))})
        E = ift.VariableCovarianceGaussianEnergy(d, "a", "b", np.complex128)
    elif kind == "counting":
        # CountingOperator has its own rule (self @ InsertionOperator)
        cnt = ift.CountingOperator(ift.MultiDomain.make({"a": d, "b": d}))
        E = ift.GaussianEnergy(data=ift.makeField(d, np.array(case["d"]))) @ (fa("a").ptw(case["f"]) * fa("b")) @ cnt
    elif kind == "hamiltonian":
        lh = ift.GaussianEnergy(data=ift.makeField(d, np.array(case["d"]))) @ (fa("a").ptw(case["f"]) * fa("b"))
        E = ift.StandardHamiltonian(lh)
    else:
        E = ift.StandardHamiltonian(ift.VariableCovarianceGaussianEnergy(d, "a", "b", np.float64))
    var = [k for k in ("a", "b") if k not in S]
    _, Es = E.simplify_for_constant_input(x.extract_by_keys(S))
    xv = x.extract_by_keys(var)
    sig = {"site": "aux:" + kind}
    if sorted(Es.domain.keys()) != var:
        return (f"{kind}: simplified energy reads {sorted(Es.domain.keys())}", dict(sig, kind="domain"))
    l0 = E(ift.Linearization.make_var(x, wm))
    l1 = Es(ift.Linearization.make_var(xv, wm))
    v0, v1 = float(_arr(l0.val)[0]), float(_arr(l1.val)[0])
    close = lambda a, b, tol=1e-11: bool(np.all(np.abs(np.asarray(a) - np.asarray(b)) <= tol * max(1.0, float(np.max(np.abs(b), initial=0)))))
    if not close(_arr(Es(xv)), [v1], 1e-12):
        return (f"{kind}: simplified energy: value on a Linearization differs from plain evaluation", dict(sig, kind="value-lin"))
    g0 = _arr(l0.gradient[var[0]])
    g1 = _arr(l1.gradient[var[0]])
    if not close(g1, g0):
        return (f"{kind}: gradient of the simplified energy differs from the variable part of the original gradient",
                dict(sig, kind="gradient"))
    if (l0.metric is None) != (l1.metric is None):
        return (f"{kind}: metric presence differs", dict(sig, kind="metric-presence"))
    if l0.metric is not None:
        M0 = _dense(l0.metric, l0.domain, l0.domain, ift)
        M1 = _dense(l1.metric, l1.domain, l1.domain, ift)
        idx = [j for j, k in enumerate([kk for kk in l0.domain.keys() for _ in range(n)]) if k in var]
        if not close(M1, M0[np.ix_(idx, idx)]):
            return (f"{kind}: metric of the simplified energy is not the variable block of the original metric",
                    dict(sig, kind="metric"))
    if not close([v1], [v0]):
        # StandardHamiltonian rebuilds its prior term on the variable keys only: is the deviation exactly the prior energy
        # of the constants, 0.5*|c|^2 ?  (then it is the recorded known finding; anything else is a different violation)
        half = 0.5 * float(np.sum(_arr(x[S[0]]) ** 2))
        if kind.startswith("hamiltonian") and close([v0 - v1], [half]):
            return (f"{kind}: value of the simplified Hamiltonian differs from the original with the constants inserted by "
                    f"the prior energy of the constant keys, 0.5*|c|^2 = {half!r}", dict(sig, site="StandardHamiltonian",
                                                                                        kind="value-prior-offset"))
        return (f"{kind}: value of the simplified energy ({v1!r}) differs from the original with the constants inserted "
                f"({v0!r}); difference {v1 - v0!r}", dict(sig, kind="value"))
    return None


# ---------------------------------------------------------------------------------------------- StochasticEnergyAdapter
def gen_sea(rng, n):
    out = []
    dy = lambda lo, hi: rng.randint(int(lo * 8), int(hi * 8)) / 8
    for _ in range(n):
        m = rng.choice([1, 2, 3])
        out.append(dict(aux="sea", n=m, a=[dy(-1, 1) for _ in range(m)], b=[dy(-1, 1) for _ in range(m)],
                        d=[dy(-2, 2) for _ in range(m)], f=rng.choice(["exp", "tanh", "sin"]),
                        nsamp=rng.choice([1, 2, 3]), mirror=rng.random() < 0.5, seed=rng.randint(0, 10 ** 6)))
    return out


def _oracle_sea(case, ift):
    """StochasticEnergyAdapter.make(position, op, sampling_keys, n_samples, mirror): the noise keys are inserted as constants
    (simplify_for_constant_input per sample); value and gradient must be the sample averages of op at position ∪ noise_i,
    the gradient has components for the position keys only."""
    n = case["n"]
    d = ift.DomainTuple.make(ift.UnstructuredDomain(n))
    fa = lambda k: ift.FieldAdapter(d, k)
    op = ift.GaussianEnergy(data=ift.makeField(d, np.array(case["d"]))) @ (fa("a").ptw(case["f"]) * fa("b") + fa("s"))
    pos = ift.MultiField.from_dict({"a": ift.makeField(d, np.array(case["a"])), "b": ift.makeField(d, np.array(case["b"]))})
    ift.random.push_sseq_from_seed(case["seed"])
    try:
        sea = ift.StochasticEnergyAdapter.make(pos, op, ["s"], case["nsamp"], case["mirror"])
    finally:
        ift.random.pop_sseq()
    sig = {"site": "aux:sea"}
    noise = sea.samples()
    want_n = case["nsamp"] * (2 if case["mirror"] else 1)
    if len(noise) != want_n:
        return (f"sea: {len(noise)} noise realisations for n_samples={case['nsamp']}, mirror={case['mirror']}", dict(sig, kind="samples"))
    vals, grads = [], []
    for nn in noise:
        full = pos.unite(nn)
        lin = op(ift.Linearization.make_var(full))
        vals.append(float(_arr(lin.val)[0]))
        g = lin.gradient
        grads.append(np.concatenate([_arr(g["a"]), _arr(g["b"])]))
    close = lambda a, b, tol=1e-11: bool(np.all(np.abs(np.asarray(a) - np.asarray(b)) <= tol * max(1.0, float(np.max(np.abs(b), initial=0)))))
    if not close([float(sea.value)], [np.mean(vals)]):
        return (f"sea: value {float(sea.value)!r} is not the sample average {np.mean(vals)!r} of the energy with the noise inserted",
                dict(sig, kind="value"))
    g = sea.gradient
    if sorted(g.domain.keys()) != ["a", "b"]:
        return (f"sea: gradient has keys {sorted(g.domain.keys())}", dict(sig, kind="gradient-keys"))
    if not close(np.concatenate([_arr(g["a"]), _arr(g["b"])]), np.mean(grads, axis=0)):
        return ("sea: gradient is not the sample average of the gradients w.r.t. the position keys", dict(sig, kind="gradient"))
    if case["mirror"]:
        for i in range(0, len(noise), 2):
            if not close(_arr(noise[i]["s"]), -_arr(noise[i + 1]["s"]), 1e-15):
                return ("sea: mirrored samples are not negatives of each other", dict(sig, kind="mirror"))
    # metric: average of the per-sample metrics
    v = ift.MultiField.from_dict({"a": ift.makeField(d, np.arange(1., n + 1)), "b": ift.makeField(d, -np.ones(n))})
    mv = sea.apply_metric(v)
    ref = None
    for nn in noise:
        lin = op(ift.Linearization.make_var(pos.unite(nn), True))
        w = lin.metric(v.unite(ift.full(nn.domain, 0.)))
        w = np.concatenate([_arr(w["a"]), _arr(w["b"])])
        ref = w if ref is None else ref + w
    if not close(np.concatenate([_arr(mv["a"]), _arr(mv["b"])]), ref / len(noise)):
        return ("sea: apply_metric is not the sample average of the position block of the metrics", dict(sig, kind="metric"))
    return None


# ---------------------------------------------------------------------------------------------- JAX operators
def gen_jax(rng, n):
    out = []
    dy = lambda lo, hi: rng.randint(int(lo * 8), int(hi * 8)) / 8
    for _ in range(n):
        m = rng.choice([1, 2, 3])
        out.append(dict(aux="jaxsimp", n=m, a=[dy(-1, 1) for _ in range(m)], b=[dy(-1, 1) for _ in range(m)],
                        d=[dy(-2, 2) for _ in range(m)], S=rng.choice([["a"], ["b"]]), wm=rng.random() < 0.6,
                        kind=rng.choice(["operator", "likelihood"])))
    return out


def _oracle_jax(case, ift):
    """JaxOperator / JaxLikelihoodEnergyOperator: own simplification rules (closure over the constants)"""
    import jax
    jax.config.update("jax_enable_x64", True)
    import jax.numpy as jnp
    import warnings
    n, S, wm = case["n"], case["S"], case["wm"]
    d = ift.DomainTuple.make(ift.UnstructuredDomain(n))
    md = ift.MultiDomain.make({"a": d, "b": d})
    x = ift.MultiField.from_dict({"a": ift.makeField(d, np.array(case["a"])), "b": ift.makeField(d, np.array(case["b"]))})
    data = np.array(case["d"])
    sig = {"site": "aux:jaxsimp", "jaxkind": case["kind"]}
    var = [k for k in ("a", "b") if k not in S]
    if case["kind"] == "operator":
        op = ift.JaxOperator(md, d, lambda t: jnp.exp(t["a"]) * t["b"] + jnp.sin(t["a"]))
        wm = False
    else:
        func = lambda t: 0.5 * jnp.sum((jnp.exp(t["a"]) * t["b"] - jnp.asarray(data)) ** 2)
        trafo = ift.Adder(ift.makeField(d, data), neg=True) @ (ift.FieldAdapter(d, "a").ptw("exp") * ift.FieldAdapter(d, "b"))
        with warnings.catch_warnings():
            warnings.simplefilter("ignore")
            op = ift.JaxLikelihoodEnergyOperator(md, func, transformation=trafo, sampling_dtype=np.float64)
    _, ops = op.simplify_for_constant_input(x.extract_by_keys(S))
    if sorted(ops.domain.keys()) != var:
        return (f"jaxsimp: simplified operator reads {sorted(ops.domain.keys())}", dict(sig, kind="domain"))
    xv = x.extract_by_keys(var)
    l0 = op(ift.Linearization.make_var(x, wm))
    l1 = ops(ift.Linearization.make_var(xv, wm))
    close = lambda a, b, tol=1e-11: bool(np.all(np.abs(np.asarray(a) - np.asarray(b)) <= tol * max(1.0, float(np.max(np.abs(b), initial=0)))))
    if not close(_arr(l1.val), _arr(l0.val)) or not close(_arr(ops(xv)), _arr(op(x))):
        return ("jaxsimp: value of the simplified operator differs from the original with the constants inserted", dict(sig, kind="value"))
    tgt = l0.jac.target
    m = max(tgt.size, 1)
    idx = list(range(n)) if var == ["a"] else list(range(n, 2 * n))
    J0 = _dense(l0.jac, md, tgt, ift)
    J1 = _dense(l1.jac, l1.domain, tgt, ift)
    if not close(J1, J0[:, idx]):
        return ("jaxsimp: Jacobian of the simplified operator differs from the variable columns of the original", dict(sig, kind="jacobian"))
    if (l0.metric is None) != (l1.metric is None):
        return ("jaxsimp: metric presence differs", dict(sig, kind="metric-presence"))
    if l0.metric is not None:
        M0 = _dense(l0.metric, md, md, ift)
        M1 = _dense(l1.metric, l1.domain, l1.domain, ift)
        if not close(M1, M0[np.ix_(idx, idx)]):
            return ("jaxsimp: metric of the simplified energy is not the variable block", dict(sig, kind="metric"))
    return None
