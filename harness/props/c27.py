"""C27 — The classic VI driver accepts every documented configuration (DESIGN.md §5 C27)."""
import itertools
import os
import shutil
import tempfile

ID = "C27"
LEAN_MODULES = ["NiftyVerif.Props.C27"]
DRIVER = "Driver/C27.lean"
OBLIGATIONS = ["NiftyVerif.C27." + t for t in (
    "loop_balanced", "loop_iterations", "precheckB_iff_validB", "valid_accepted", "invalid_rejected_kind",
    "keyOf_le", "seeds_equal_iff", "shared_object_not_frozen", "seedsRepeatFrom_spec",
    "rejected_only_invalid", "rng_stack_balanced", "asFound_dry_run_unbalanced", "asFound_terminate_unbalanced",
    "asFound_sanity_false_unbound", "asFound_stale_output_directory")]
RULE = ("case = one value per option group (18 groups: output directory, sanity checks, save strategy, plotting, constants, "
        "point estimates, n_samples/controller, transitions, inspect callback, terminate callback, fresh stochasticity, dry run, "
        "return_final_position, export_operator_outputs, earlier call with an output directory, resume, initial index, "
        "continuation of an earlier call into the same directory), n_samples and controller also per iteration; taken "
        "from a greedy pairwise (thorough: plus a 3-wise) covering array incl. invalid values, a pairwise array over "
        "valid values only and single-fault rows (each invalid value with everything else valid); each case is one "
        "real call of optimize_kl on a tiny two-key model; non-trivial = any non-default value; distinct by case")
TRUSTED_BASE = [
    "Lean 4.33 kernel; axioms propext/Classical.choice/Quot.sound only (audited every run)",
    "hand-written model Model/DriverCfg.lean of the option checks (order and exception kind), the loop's push/pop/early-exit "
    "structure and the option-dependent result shape, tied by differential execution of the covering array against the real "
    "driver (exception class or iterations / number of samples / return arity / files written / RNG stack depth change)",
]
ASSUMPTIONS = [
    "'runs to completion on a valid model' is established for the tiny model of the tie only; the theorems cover the option logic",
    "effect oracles (real code only): fresh_stochasticity False <=> the iteration pushes a seed sequence in the same state "
    "(spawn_key, n_children_spawned) as the previous one; constants: key bit-identical to the fixed initial position, the "
    "free key moved; point_estimates: no residual in that key, residual in the other; dry_run: position untouched; n_samples "
    "0 at the last iteration: SampleList; transitions / inspect / terminate callbacks: called exactly for the documented "
    "iterations with the iteration index",
    "type errors / a missing sampling controller are only generated together with sanity_checks=True (without the checks "
    "such configurations are not valid, merely unchecked)",
    "MPI communicators are outside the covering array; initial_index > 0 is covered in its documented use (continuation of an "
    "earlier call into the same output directory); with a directory no earlier call wrote into it raises (known finding)",
]

GROUPS = [
    ("outdir", ["none", "dir"]),
    ("sanity", [True, False]),
    ("strategy", ["latest", "all", "bogus"]),
    ("plots", [False, True]),
    ("constants", ["empty", "xi2", "callable"]),
    ("point_estimates", ["empty", "xi2"]),
    ("nsamp", ["one", "zero", "two", "vi_then_map", "map_then_vi", "callable_const", "one_noctrl", "noctrl_at1", "noctrl_vi_at1", "float"]),
    ("transitions", ["none", "callable", "arity2"]),
    ("inspect", ["none", "one", "two", "three"]),
    ("terminate", ["none", "never", "at0", "arity0"]),
    ("fresh", ["true", "false_at1", "false"]),
    ("dry_run", [False, True]),
    ("return_final", [False, True]),
    ("export", ["empty", "sig", "pickle", "list"]),
    ("prev", [False, True]),
    ("resume", [False, True]),
    ("initial_index", ["zero", "one", "total", "float"]),
    ("cont", [False, True]),       # initial_index = 1: an earlier call (total = 1) wrote into the SAME output directory
]
NS = {"one": [1, 1], "zero": [0, 0], "two": [2, 2], "vi_then_map": [1, 0], "map_then_vi": [0, 2], "callable_const": [1, 1],
      "one_noctrl": [1, 1], "noctrl_at1": [1, 1], "noctrl_vi_at1": [0, 1], "float": [1, 1]}
NOCTRL = {"zero": [True, True], "vi_then_map": [False, True], "map_then_vi": [True, False], "one_noctrl": [True, True],
          "noctrl_at1": [False, True], "noctrl_vi_at1": [True, True]}
DEFAULT = {k: v[0] for k, v in GROUPS}
TOTAL = 2


def covering(rng, groups, strength=2, extra=None, tries=12):
    """greedy covering array: every `strength`-tuple of (group, value) occurs in some row"""
    names = [g for g, _ in groups]
    vals = dict(groups)
    todo = set()
    for combo in itertools.combinations(names, strength):
        for vs in itertools.product(*[vals[g] for g in combo]):
            todo.add(tuple(zip(combo, vs)))
    rows = []
    while todo:
        best, bestc = None, -1
        seed = next(iter(todo))
        for _ in range(tries):
            row = {g: rng.choice(vals[g]) for g in names}
            row.update(dict(seed))
            c = sum(1 for t in itertools.combinations(sorted(row.items(), key=lambda kv: names.index(kv[0])), strength)
                    if t in todo)
            if c > bestc:
                best, bestc = row, c
        rows.append(best)
        items = sorted(best.items(), key=lambda kv: names.index(kv[0]))
        for t in itertools.combinations(items, strength):
            todo.discard(t)
    return rows


def to_config(case, version):
    """the model's view of a case"""
    ns = case["nsamp"]
    return dict(
        op="accepts", version=version, total=TOTAL,
        initialIndex={"zero": 0, "one": 1, "total": TOTAL, "float": 0}[case["initial_index"]],
        initialIndexIsInt=case["initial_index"] != "float",
        exportIsDict=case["export"] != "list", exportHasPickle=case["export"] == "pickle",
        strategyValid=case["strategy"] != "bogus", outDir=case["outdir"] == "dir", resume=bool(case["resume"]),
        transitionsArity=2 if case["transitions"] == "arity2" else 1,
        inspectArity={"none": 1, "one": 1, "two": 2, "three": 3}[case["inspect"]],
        terminateArity=0 if case["terminate"] == "arity0" else 1, targetScalar=True, sanity=bool(case["sanity"]),
        typesOk=ns != "float", ctrlNoneAt=NOCTRL.get(ns, [False, False]), nSamplesAt=NS[ns],
        freshAt={"true": [True, True], "false_at1": [True, False], "false": [False, False]}[case["fresh"]],
        hasTransitions=case["transitions"] == "callable", hasInspect=case["inspect"] in ("one", "two"),
        hasTerminate=case["terminate"] in ("never", "at0"), dryRun=bool(case["dry_run"]),
        **({"terminateAt": 0} if case["terminate"] == "at0" else {}),
        returnFinal=bool(case["return_final"]), prevOutDir=bool(case["prev"]))


def admissible(case):
    """combinations the model does not describe (see ASSUMPTIONS): unchecked type errors"""
    if case["nsamp"] in ("one_noctrl", "noctrl_at1", "noctrl_vi_at1", "float") and not case["sanity"]:
        return False
    if case["cont"] and case["resume"] and case["initial_index"] == "one" and case["outdir"] == "dir":
        return False        # the call would load the earlier call's state from the files: resume is C25's subject
    return True


def fresh_dir_continuation(case):
    """initial_index > 0 with an output directory that no earlier call wrote into (known finding, not in the model)"""
    return (case["initial_index"] == "one" and case["outdir"] == "dir" and not case["cont"] and not case["dry_run"])


_M = {}


def _model_objs():
    if _M:
        return _M
    import numpy as np
    import nifty.cl as ift
    sp = ift.RGSpace(4)
    xi = ift.ducktape(sp, None, "xi")
    xi2 = ift.ducktape(sp, None, "xi2")
    sig = (0.5 * xi).exp() + xi2
    data = ift.makeField(sp, np.array([1.0, -1.0, 2.0, 0.0]))
    lh = ift.GaussianEnergy(data=data, inverse_covariance=ift.ScalingOperator(sp, 4.0, sampling_dtype=np.float64)) @ sig
    _M.update(ift=ift, np=np, lh=lh, sig=sig,
              ic=ift.AbsDeltaEnergyController(deltaE=0.1, iteration_limit=4),
              mini=ift.NewtonCG(ift.AbsDeltaEnergyController(deltaE=0.1, iteration_limit=2)))
    return _M


def _tree(d):
    out = {}
    if d and os.path.isdir(d):
        for root, _, files in os.walk(d):
            for fn in files:
                p = os.path.join(root, fn)
                st = os.stat(p)
                out[os.path.relpath(p, d)] = (st.st_size, st.st_mtime_ns)
    return out


def _real(case, work):
    """one real call of optimize_kl with the options of `case` -> canonical observation"""
    import sys
    m = _model_objs()
    ift, np = m["ift"], m["np"]
    okl = sys.modules["nifty.cl.minimization.optimize_kl"]
    shutil.rmtree(work, ignore_errors=True)
    os.makedirs(work)
    # fresh module state, then (optionally) an earlier call of the same process that had an output directory
    okl._output_directory, okl._save_strategy = None, None
    ift.random._sseq[:] = [np.random.SeedSequence(42)]
    ift.random._rng[:] = [np.random.default_rng(ift.random._sseq[-1])]
    prev_dir = None
    if case["prev"]:
        prev_dir = os.path.join(work, "prev")
        ift.random.push_sseq_from_seed(5)
        ift.optimize_kl(m["lh"], 1, 1, m["mini"], m["ic"], output_directory=prev_dir, plot_energy_history=False,
                        plot_minisanity_history=False)
        ift.random.pop_sseq()
    n_it = [0]
    orig = ift.NewtonCG.__call__

    def counting(self, energy, *a, **kw):
        if self is m["mini"]:
            n_it[0] += 1
        return orig(self, energy, *a, **kw)
    odir = os.path.join(work, "out") if case["outdir"] == "dir" else None
    ns = case["nsamp"]
    if ns in ("vi_then_map", "map_then_vi", "callable_const", "noctrl_at1", "noctrl_vi_at1"):
        n_samples = (lambda lst: (lambda i: lst[i]))(NS[ns])
        ic = (lambda none: (lambda i: None if none[i] else m["ic"]))(NOCTRL.get(ns, [False, False]))
    else:
        n_samples = {"one": 1, "zero": 0, "two": 2, "one_noctrl": 1, "float": 1.5}[ns]
        ic = None if ns in ("zero", "one_noctrl") else m["ic"]
    if case["initial_index"] == "one" and case["cont"] and odir is not None:
        # documented use of initial_index: an earlier call enumerated 0 … initial_index-1 into the same directory
        ift.random.push_sseq_from_seed(7)
        ift.optimize_kl(m["lh"], 1, 1, m["mini"], m["ic"], output_directory=odir, plot_energy_history=False,
                        plot_minisanity_history=False, save_strategy=case["strategy"] if case["strategy"] != "bogus" else "latest")
        ift.random.pop_sseq()
    rec = dict(transitions=[], inspect=[], terminate=[], seeds=[])

    def r_transitions(i):
        rec["transitions"].append(i)
        return None

    def r_inspect1(sl):
        rec["inspect"].append(("it", len(rec["seeds"]) - 1))

    def r_inspect2(sl, i):
        rec["inspect"].append(("arg", i))

    def r_never(i):
        rec["terminate"].append(i)
        return False

    def r_at0(i):
        rec["terminate"].append(i)
        return i == 0
    # fixed initial position: makes "this key was not touched" / "the position was not touched" checkable exactly
    dom = m["lh"].domain
    init = ift.MultiField.from_dict({"xi": ift.makeField(dom["xi"], 0.125 * np.arange(4.0)),
                                     "xi2": ift.makeField(dom["xi2"], np.full(4, 0.25))})
    orig_push = okl.push_sseq

    def rec_push(sseq):   # the driver's own pushes: one per iteration
        rec["seeds"].append((tuple(sseq.spawn_key), int(sseq.n_children_spawned)))
        return orig_push(sseq)
    kw = dict(
        initial_position=init,
        output_directory=odir, sanity_checks=bool(case["sanity"]), save_strategy=case["strategy"],
        plot_energy_history=bool(case["plots"]), plot_minisanity_history=bool(case["plots"]),
        constants={"empty": [], "xi2": ["xi2"], "callable": (lambda i: ["xi2"] if i == 1 else [])}[case["constants"]],
        point_estimates={"empty": [], "xi2": ["xi2"]}[case["point_estimates"]],
        transitions={"none": None, "callable": r_transitions, "arity2": (lambda i, j: None)}[case["transitions"]],
        inspect_callback={"none": None, "one": r_inspect1, "two": r_inspect2,
                          "three": (lambda sl, i, j: None)}[case["inspect"]],
        terminate_callback={"none": None, "never": r_never, "at0": r_at0,
                            "arity0": (lambda: False)}[case["terminate"]],
        fresh_stochasticity={"true": True, "false_at1": (lambda i: i != 1), "false": False}[case["fresh"]],
        dry_run=bool(case["dry_run"]), return_final_position=bool(case["return_final"]),
        export_operator_outputs={"empty": {}, "sig": {"sig": m["sig"]}, "pickle": {"pickle": m["sig"]},
                                 "list": [m["sig"]]}[case["export"]],
        resume=bool(case["resume"]),
        initial_index={"zero": 0, "one": 1, "total": TOTAL, "float": 0.0}[case["initial_index"]])
    before_prev = _tree(prev_dir)
    marker = os.path.join(odir, "last_finished_iteration") if odir else None
    marker_before = (os.stat(marker).st_mtime_ns, open(marker).read()) if marker and os.path.exists(marker) else None
    ift.random.push_sseq_from_seed(11)
    depth0 = len(ift.random._sseq)
    ift.NewtonCG.__call__ = counting
    okl.push_sseq = rec_push
    try:
        try:
            r = ift.optimize_kl(m["lh"], TOTAL, n_samples, m["mini"], ic, **kw)
        finally:
            ift.NewtonCG.__call__ = orig
            okl.push_sseq = orig_push
            delta = len(ift.random._sseq) - depth0
    except Exception as e:  # noqa: BLE001 - the kind is the observation
        import traceback
        tb = traceback.extract_tb(e.__traceback__)
        site = next((f"{os.path.basename(fr.filename)}:{fr.name}" for fr in reversed(tb) if "/nifty/" in fr.filename), "")
        stale = bool(prev_dir) and odir is None and (_tree(prev_dir) != before_prev or prev_dir in str(e))
        return dict(error=type(e).__name__, site=site, msg=str(e)[:120], stackDelta=delta, stale=stale)
    arity = 2 if isinstance(r, tuple) else 1
    sl = r[0] if isinstance(r, tuple) else r
    marker_after = (os.stat(marker).st_mtime_ns, open(marker).read()) if marker and os.path.exists(marker) else None
    wrote = (marker_after is not None and marker_after != marker_before) or _tree(prev_dir) != before_prev
    mean_ok = True
    if isinstance(r, tuple):
        mean_ok = set(r[1].keys()) == {"xi", "xi2"} if n_it[0] else True
    first = {"zero": 0, "one": 1}.get(case["initial_index"], 0)
    seeds = rec["seeds"]
    seeds_repeat = [seeds[k] == seeds[k - 1] for k in range(1, len(seeds))]
    inspect_calls = [first + v if kind == "it" else v for kind, v in rec["inspect"]]
    # effects of the options on the result (exact: fixed initial position)
    eff = {}
    if isinstance(r, tuple):
        mean = r[1]
        same = lambda a, b: bool(np.array_equal(a.val.asnumpy(), b.val.asnumpy()))
        if case["dry_run"]:
            eff["dry_run_position_untouched"] = all(same(mean[k], init[k]) for k in ("xi", "xi2"))
        elif n_it[0] and case["constants"] == "xi2":
            eff["constant_key_untouched"] = same(mean["xi2"], init["xi2"])
            eff["free_key_moved"] = not same(mean["xi"], init["xi"])
    if n_it[0] and case["point_estimates"] == "xi2" and hasattr(sl, "mean") and sl.n_samples > 1:
        mm = sl.mean
        eff["point_estimate_no_residual"] = all(
            np.array_equal(s["xi2"].val.asnumpy(), mm["xi2"].val.asnumpy()) for s in sl.iterator())
        eff["sampled_key_has_residual"] = any(
            not np.array_equal(s["xi"].val.asnumpy(), mm["xi"].val.asnumpy()) for s in sl.iterator())
    last_n = None
    if n_it[0]:
        last_n = NS[ns][first + n_it[0] - 1]
        eff["map_iteration_gives_SampleList"] = (type(sl).__name__ == ("SampleList" if last_n == 0 else "ResidualSampleList"))
    return dict(iterations=n_it[0], nResult=int(sl.n_samples), arity=arity, writesFiles=wrote, stackDelta=delta,
                mean_ok=mean_ok, seedsRepeat=seeds_repeat, transitionCalls=list(rec["transitions"]),
                inspectCalls=inspect_calls, terminateCalls=list(rec["terminate"]), effects=eff)


def _canon_real(o):
    if "error" in o:
        return dict(error=o["error"])
    return {k: o[k] for k in SHAPE_KEYS}


SHAPE_KEYS = ("iterations", "nResult", "arity", "writesFiles", "stackDelta", "seedsRepeat", "transitionCalls", "inspectCalls",
              "terminateCalls")


def _canon_model(o):
    if "error" in o:
        return dict(error=o["error"])
    return {k: o[k] for k in SHAPE_KEYS}


def _judge(case, obs, model_valid):
    """the property on the real code: a documented (valid) configuration runs to completion, the result is consistent with
    the options, the RNG stack is left as found; -> None | (what, signature)"""
    if obs.get("stale"):
        return (f"output_directory=None but the call used the output directory of an earlier call and raised {obs['error']}",
                dict(site="cl.optimize_kl", kind="stale-output-directory"))
    if "error" not in obs and obs.get("stackDelta", 0) != 0:
        why = "dry_run" if case["dry_run"] else ("terminate_callback" if case["terminate"] == "at0" else "other")
        return (f"nifty.cl.random stack depth changed by {obs['stackDelta']} across optimize_kl ({why})",
                dict(site="cl.optimize_kl", kind="rng-stack", why=why))
    if model_valid and "error" in obs and fresh_dir_continuation(case) and obs["error"] == "FileNotFoundError" \
            and "_pickle_load_values" in obs.get("site", ""):
        return ("initial_index = 1 with an output directory that no earlier call wrote into: _minisanity loads "
                "minisanity_history of iteration 0, which does not exist (FileNotFoundError)",
                dict(site="cl.optimize_kl", kind="initial-index-fresh-directory"))
    if model_valid and "error" in obs:
        return (f"valid configuration raised {obs['error']} at {obs.get('site')}: {obs.get('msg')}",
                dict(site="cl.optimize_kl", kind="raises", error=obs["error"], where=obs.get("site", "")))
    if "error" not in obs:
        # every option has its documented EFFECT (stated on the real code only)
        first = {"zero": 0, "one": 1}.get(case["initial_index"], 0)
        fr = {"true": [True, True], "false_at1": [True, False], "false": [False, False]}[case["fresh"]]
        want = [not fr[first + k] for k in range(1, len(obs["seedsRepeat"]) + 1)]
        sampled = [NS[case["nsamp"]][first + k - 1] > 0 and not case["dry_run"] for k in range(1, len(obs["seedsRepeat"]) + 1)]
        for k, (got, w, smp) in enumerate(zip(obs["seedsRepeat"], want, sampled)):
            if got != w and (smp or w is False):
                return (f"fresh_stochasticity: iteration {first + k + 1} {'re-uses' if got else 'does NOT re-use'} the seed "
                        f"sequence state of iteration {first + k} although fresh_stochasticity({first + k + 1}) is {not w}",
                        dict(site="cl.optimize_kl", kind="effect", option="fresh_stochasticity"))
        for name, ok in obs.get("effects", {}).items():
            if not ok:
                return (f"option effect violated: {name}", dict(site="cl.optimize_kl", kind="effect", option=name))
        pushed = len(obs["seedsRepeat"]) + 1
        exp_tr = list(range(first, first + pushed)) if case["transitions"] == "callable" else []
        exp_in = list(range(first, first + obs["iterations"])) if case["inspect"] in ("one", "two") else []
        exp_te = list(range(first, first + obs["iterations"])) if case["terminate"] in ("never", "at0") else []
        for nm, got, exp in (("transitions", obs["transitionCalls"], exp_tr), ("inspect_callback", obs["inspectCalls"], exp_in),
                             ("terminate_callback", obs["terminateCalls"], exp_te)):
            if got != exp:
                return (f"{nm} was called for iterations {got}, documented: once per iteration {exp}",
                        dict(site="cl.optimize_kl", kind="effect", option=nm))
        if case["outdir"] == "none" and obs["writesFiles"]:
            return ("output_directory=None but files were written (into the output directory of an earlier call)",
                    dict(site="cl.optimize_kl", kind="stale-output-directory"))
        if obs["arity"] != (2 if case["return_final"] else 1) or not obs.get("mean_ok", True):
            return ("return value inconsistent with return_final_position", dict(site="cl.optimize_kl", kind="return-arity"))
    return None


_WORK = None


def _workdir():
    global _WORK
    if _WORK is None:
        import atexit
        _WORK = tempfile.mkdtemp(prefix="c27_")
        atexit.register(lambda: shutil.rmtree(_WORK, ignore_errors=True))
    return os.path.join(_WORK, "case")


def oracle(case):
    import logging
    logging.disable(logging.CRITICAL)
    case = {**DEFAULT, **{k: v for k, v in case.items() if k in DEFAULT}}
    obs = _real(case, _workdir())
    # validity = the documented constraints, evaluated directly (not through the model)
    invalid = (case["export"] in ("pickle", "list") or case["initial_index"] != "zero" or case["strategy"] == "bogus"
               or (case["outdir"] == "none" and case["resume"]) or case["transitions"] == "arity2"
               or case["inspect"] == "three" or case["terminate"] == "arity0" or case["fresh"] == "false"
               or case["nsamp"] in ("one_noctrl", "noctrl_at1", "noctrl_vi_at1", "float"))
    return _judge(case, obs, not invalid)


def shrink(case):
    for k, v in DEFAULT.items():
        if case.get(k, v) != v:
            yield {**case, k: v}


def run(ctx):
    import json
    import logging
    import warnings
    from core.ctx import VERIF
    logging.disable(logging.CRITICAL)
    warnings.simplefilter("ignore")
    os.environ.setdefault("MPLBACKEND", "Agg")
    cases = []
    d = os.path.join(VERIF, "corpus", ID)
    for fn in sorted(os.listdir(d)) if os.path.isdir(d) else []:
        if fn.endswith(".json"):
            rec = json.load(open(os.path.join(d, fn)))
            cases += [{**DEFAULT, **c} for c in rec.get("cases", [])]
    rows = covering(ctx.rng, GROUPS, 2)
    if not ctx.quick:
        rows += covering(ctx.rng, GROUPS, 3, tries=4)
        rows = [{**DEFAULT, **r} for r in rows]
    # the valid core: every pair of VALID values must also occur in a row without any invalid value (else the first
    # failing check hides everything behind it)
    valid_groups = [(g, [v for v in vs if v not in ("bogus", "one_noctrl", "noctrl_at1", "noctrl_vi_at1", "float", "arity2", "three", "arity0", "false",
                                                    "pickle", "list", "total")]) for g, vs in GROUPS]
    valid_groups = [(g, vs if g != "cont" else [True]) for g, vs in valid_groups]
    valid_groups = [(g, vs if g != "resume" else [False]) for g, vs in valid_groups]
    rows += covering(ctx.rng, valid_groups, 2)
    # single-fault rows: every invalid value once with everything else valid (random valid values for the other groups), so
    # that no check is only ever exercised behind an earlier failing one
    valid_of = dict(valid_groups)
    for g, vs in GROUPS:
        for v in vs:
            if v not in valid_of[g]:
                for rep in range(ctx.n(1, 3)):
                    row = dict(DEFAULT) if rep == 0 else {h: ctx.rng.choice(valid_of[h]) for h, _ in GROUPS}
                    row[g] = v
                    if g == "resume":
                        row["outdir"] = "none"
                    rows.append(row)
    cases += [r for r in rows if admissible(r)]
    if ctx.quick:
        # plots are slow (matplotlib): keep them in a few rows only
        k = 0
        for c in cases:
            if c["plots"] and c["outdir"] == "dir":
                k += 1
                if k > 6:
                    c["plots"] = False
    outs = ctx.model(DRIVER, [to_config(c, "repaired") for c in cases] + [to_config(c, "asFound") for c in cases])
    rep, asf = outs[:len(cases)], outs[len(cases):]
    work = _workdir()
    for case, mo, ma in zip(cases, rep, asf):
        obs = _real(case, work)
        nontrivial = any(case[k] != v for k, v in DEFAULT.items())
        ctx.stat("valid" if mo["valid"] else "invalid")
        ctx.stat("outcome:" + (obs["error"] if "error" in obs else "completed"))
        for k in ("outdir", "dry_run", "terminate", "nsamp", "export", "prev", "sanity"):
            ctx.stat(f"{k}={case[k]}")
        if fresh_dir_continuation(case) and "error" not in mo and obs.get("error") == "FileNotFoundError" \
                and "_pickle_load_values" in obs.get("site", ""):
            ctx.case(case, nontrivial)
            ctx.stat("known:initial-index-fresh-directory")
            ctx.counterexample({k: v for k, v in case.items() if v != DEFAULT[k]},
                               "initial_index = 1 with an output directory that no earlier call wrote into: _minisanity loads "
                               "minisanity_history of iteration 0, which does not exist (FileNotFoundError)",
                               dict(site="cl.optimize_kl", kind="initial-index-fresh-directory"))
            continue
        ok = ctx.compare(case, _canon_real(obs), _canon_model(mo),
                         note="outcome of the real call vs model of the repaired driver"
                              + (" — the real outcome equals the model of the driver AS FOUND"
                                 if _canon_real(obs) == _canon_model(ma) and _canon_model(ma) != _canon_model(mo) else ""),
                         nontrivial=nontrivial)
        j = _judge(case, obs, mo["valid"])
        if j:
            ctx.counterexample({k: v for k, v in case.items() if v != DEFAULT[k]}, *j)
        elif not ok and "error" in obs and mo["valid"]:
            pass
    ctx.extra["covering_rows"] = len(cases)


def search(ctx):
    for c in ({"dry_run": True}, {"terminate": "at0"}, {"outdir": "dir", "sanity": False}, {"prev": True}):
        r = oracle(c)
        if r:
            ctx.counterexample(c, *r)
            return
