"""C09 — Harmonic transforms follow the volume convention and all backends agree (DESIGN.md §5 C09, design.d/C09.md)."""
import glob
import json
import os
from fractions import Fraction

import numpy as np

from core import ctx as _ctx
from props import _c09_util as U

ID = "C09"
LEAN_MODULES = ["NiftyVerif.Props.C09"]
DRIVER = "Driver/C09.lean"
OBLIGATIONS = ["NiftyVerif.C09." + t for t in (
    "dft_orthogonal", "fft_zero_mode_is_integral", "fft_modes_consistent", "hartley_symmetric",
    "hartley_is_matrix", "hartley_involutive_up_to_n", "hartley3_involutive_up_to_n",
    "hartley_modes_consistent", "hartley_complex_split", "smoothing_sigma0_id", "rg_dvol_product",
    "smoothing_is_fourier_convolution", "subspace_transform_onAxis", "subspace_hartley_onAxis",
    "sht_adjoint", "sht_normalisation")]
RULE = ("operator cases: product domains of 1-3 spaces, transformed RGSpace of 1-3 dims (axis lengths 1..6), "
        "position/harmonic domain, default or explicit codomain, FFTOperator/HartleyOperator (4 modes) and "
        "HarmonicTransformOperator (2 modes), both hartley conventions, real/complex integer input (random + basis "
        "vector); class E (exact) when all transformed axes have length 1,2,4 and power-of-two distances, class T "
        "otherwise; backend cases: ducc/scipy/jax fftn, ifftn, hartley on arrays with any axes subset; SHT lmax<=4 "
        "GL/HP; smoothing. non-trivial = transformed block has >1 cell; distinct by canonical case")
TRUSTED_BASE = [
    "Lean 4.33 kernel; axioms propext/Classical.choice/Quot.sound only (audited every run)",
    "hand-written model Model/Harmonic.lean of FFTOperator/HartleyOperator/HarmonicTransformOperator/"
    "HarmonicSmoothingOperator factor logic and of fftn/ifftn/hartley as explicit DFT sums; tied by differential "
    "execution (exact at axis lengths 1,2,4; 1e-9 otherwise)",
    "ducc0 / scipy.fft / jax.numpy.fft kernels: executed, compared to the exact model at small sizes only",
    "scipy.special.sph_harm_y and Gauss-Legendre nodes (numpy) as reference for the SHT normalisation (no Lean model)",
    "driver arithmetic ℚ[X]/(X^N-1)[I] and its numeric evaluation at X=exp(-2πi/N) in the harness",
]
ASSUMPTIONS = [
    "float rounding outside the model (class T tolerance 1e-9 relative to the output scale)",
    "complex conjugation modelled as a ring involution σ with σ(ω)=ω⁻¹ (true in ℂ for |ω|=1)",
]

MODES = (1, 2, 4, 8)


# ======================================================================================================
# adapters into the real code
# ======================================================================================================

def _build_op(case):
    """construct the real operator of an operator case; returns (op, None) or (None, error dict)"""
    import nifty.cl as ift
    try:
        dom = U.mk_domain(case["spaces"])
        tgt = U.mk_space(case["tgt"]) if case.get("tgt") else None
        cls = {"fft": ift.FFTOperator, "hartley": ift.HartleyOperator, "htop": ift.HarmonicTransformOperator}[case["kind"]]
        return cls(dom, target=tgt, space=case["space"]), None
    except Exception as e:  # constructor rejections are part of the compared surface
        return None, U.err_kind(e)


def _field(dom, vals, cplx, single=False):
    import nifty.cl as ift
    a = np.array([complex(r, i) for r, i in vals]) if cplx else np.array([float(r) for r, _ in vals])
    if single:
        a = a.astype(np.complex64 if cplx else np.float32)
    return ift.Field(dom, a.reshape(dom.shape))


def _apply_real(case):
    """run the real operator on case['x'] in case['mode'] under case['conv'] -> numpy array | error dict"""
    with U.hartley_convention(case["conv"]):
        op, err = _build_op(case)
        if err:
            return err
        try:
            mode = case["mode"]
            if mode not in MODES:
                op._check_mode(mode)
            dom = op._dom(mode)
            x = _field(dom, case["x"], case["cplx"], case.get("single", False))
            return op.apply(x, mode).asnumpy()
        except Exception as e:
            return U.err_kind(e)


def _model_case(case):
    g = U.model_geometry(case["spaces"], case["space"])
    m = dict(op="apply", kind=case["kind"], mode=case["mode"], nc=case["conv"] == U.CONVS[0],
             x=[[int(r), int(i)] for r, i in case["x"]], **g)
    if case.get("tgt"):
        t = case["tgt"]
        if t["kind"] == "rg":
            td = U.mk_space(t)
            m["tgt"] = dict(kind="rg", n=U.pad3(td.shape, 1), rdist=U.pad3([U.frac_str(float(v)) for v in td._rdistances], "1"),
                            harmonic=bool(td.harmonic))
        else:
            m["tgt"] = dict(kind=t["kind"])
    return m


def _is_exact(case):
    """class E: transformed axes of length 1,2,4, power-of-two distances, integer data"""
    sp = case["spaces"][case["space"]]
    if sp["kind"] != "rg":
        return False
    if any(n not in (1, 2, 4) for n in sp["shape"]):
        return False
    ds = sp.get("dist")
    if ds is None:
        ds = [1.0 / n for n in sp["shape"]]
    if not all(U.is_pow2(float(d)) for d in ds):
        return False
    if case.get("tgt"):
        t = case["tgt"]
        if t["kind"] != "rg" or not all(U.is_pow2(float(d)) for d in (t.get("dist") or [1.0])):
            return False
    return True


# ======================================================================================================
# oracle: the property on the real code only
# ======================================================================================================

def _rand_field(rng, dom, cplx, single=False):
    import nifty.cl as ift
    a = rng.integers(-9, 10, size=dom.shape).astype(float)
    if cplx:
        a = a + 1j * rng.integers(-9, 10, size=dom.shape)
    if single:
        a = a.astype(np.complex64 if cplx else np.float32)
    return ift.Field(dom, a)


def _oracle_op(case):
    import nifty.cl as ift
    sig = dict(site=case["kind"], conv=case["conv"])
    with U.hartley_convention(case["conv"]):
        op, err = _build_op(case)
        if err:
            if case.get("malformed"):
                return None      # expected rejection (compared in the correspondence)
            return (f"{case['kind']}: constructing the operator on a valid domain/codomain raises {err['error']}",
                    dict(sig, kind="constructor-exception", error=err["error"]))
        space = case["space"]
        rng = np.random.default_rng(case.get("oseed", 0))
        caps = [m for m in MODES if op.capability & m]
        single = bool(case.get("single", False))
        tol = 2e-4 if single else 1e-9
        try:
            for cplx in ((False, True) if case["kind"] == "fft" else (False, True)):
                x = _rand_field(rng, op.domain, cplx, single)
                y = _rand_field(rng, op.target, cplx, single)
                if single and op.apply(x, 1).asnumpy().dtype not in (np.float32, np.complex64):
                    return (f"{case['kind']}: single-precision input gives {op.apply(x, 1).asnumpy().dtype} output",
                            dict(sig, kind="dtype"))
                Tx = op.apply(x, 1)
                Ay = op.apply(y, 2)
                # <y, T x> = <T^H y, x>
                a, b = y.s_vdot(Tx), Ay.s_vdot(x)
                if abs(a - b) > tol * (abs(a) + abs(b) + 1):
                    return (f"{case['kind']}: <y,Ax>={a} but <A^H y,x>={b}", dict(sig, kind="adjoint"))
                if 4 in caps:
                    for m1, m2, u in ((1, 4, x), (4, 1, y), (2, 8, y), (8, 2, x)):
                        r = op.apply(op.apply(u, m1), m2)
                        e = float(np.max(np.abs((r - u).asnumpy())))
                        if e > tol * (1 + float(np.max(np.abs(u.asnumpy())))):
                            return (f"{case['kind']}: mode {m2} after mode {m1} is not the identity (err {e:.3g})",
                                    dict(sig, kind="inverse", modes=[m1, m2]))
                    Iy = op.apply(y, 4)
                    AIx = op.apply(x, 8)
                    a, b = x.s_vdot(Iy), AIx.s_vdot(y)
                    if abs(a - b) > tol * (abs(a) + abs(b) + 1):
                        return (f"{case['kind']}: <x,A^-1 y>={a} but <A^-H x,y>={b}", dict(sig, kind="adjoint-inverse"))
                # zero mode of the transform of a position-space field = its integral
                for m in caps:
                    idom, odom = op._dom(m), op._tgt(m)
                    forward = (m == 1 and not op.domain[space].harmonic) or (m == 4 and op.domain[space].harmonic)
                    backward = (m == 1 and op.domain[space].harmonic) or (m == 4 and not op.domain[space].harmonic)
                    u = x if idom is op.domain else y
                    r = op.apply(u, m)
                    ax = idom.axes[space]
                    sl = tuple(0 if k in ax else slice(None) for k in range(len(idom.shape)))
                    if forward:
                        integ = u.asnumpy().sum(axis=ax) * idom[space].scalar_dvol
                        z = r.asnumpy()[sl]
                        e = float(np.max(np.abs(z - integ)))
                        if e > tol * (1 + float(np.max(np.abs(integ)))):
                            return (f"{case['kind']}: zero mode of the transform differs from the integral of the "
                                    f"position-space field (mode {m}, err {e:.3g})", dict(sig, kind="zero-mode", mode=m))
                    if backward:
                        integ = r.asnumpy().sum(axis=ax) * odom[space].scalar_dvol
                        z = u.asnumpy()[sl]
                        e = float(np.max(np.abs(z - integ)))
                        if e > tol * (1 + float(np.max(np.abs(z)))):
                            return (f"{case['kind']}: integral of the back-transformed field differs from the zero "
                                    f"mode of its harmonic input (mode {m}, err {e:.3g})",
                                    dict(sig, kind="zero-mode-back", mode=m))
                if case["kind"] in ("hartley", "htop"):
                    # Hartley applied twice (operator on the codomain) = ncells * dvol * dvol' * identity = identity
                    cls = ift.HartleyOperator
                    back = cls(op.target, target=op.domain[space], space=space)
                    r = back.apply(Tx, 1)
                    e = float(np.max(np.abs((r - x).asnumpy())))
                    if e > tol * (1 + float(np.max(np.abs(x.asnumpy())))):
                        return (f"hartley: transform on the codomain applied after the transform is not the identity "
                                f"(err {e:.3g})", dict(sig, kind="hartley-twice"))
                    # complex input = transform of real and imaginary part
                    if cplx:
                        r2 = op.apply(x.real, 1) + 1j * op.apply(x.imag, 1)
                        e = float(np.max(np.abs((r2 - Tx).asnumpy())))
                        if e > tol * (1 + float(np.max(np.abs(Tx.asnumpy())))):
                            return ("hartley: complex input is not transformed part by part", dict(sig, kind="complex-split"))
                    else:
                        if np.iscomplexobj(Tx.asnumpy()):
                            return ("hartley: real input gives complex output", dict(sig, kind="hartley-real"))
                if case["kind"] == "fft" and not cplx:
                    # real input = complex input with zero imaginary part
                    r2 = op.apply(x + 0j * x, 1)
                    e = float(np.max(np.abs((r2 - Tx).asnumpy())))
                    if e > tol * (1 + float(np.max(np.abs(Tx.asnumpy())))):
                        return ("fft: real input is not transformed like the same complex input", dict(sig, kind="fft-real"))
        except Exception as e:
            return (f"{case['kind']}: {type(e).__name__} on a valid operator/input: {e}",
                    dict(sig, kind="exception", error=type(e).__name__))
    return None


def _backend_calls(conv):
    """name -> callable(np array, axes) for every advertised backend; imports inside (sys.path set by vcheck)"""
    from nifty.cl import ducc_dispatch as dd
    from nifty.cl.any_array import AnyArray
    from nifty.re.correlated_field import hartley as jax_hartley

    def wrap(f):
        return lambda a, axes: np.asarray(f(AnyArray(a), axes=axes)._val)
    return dict(
        fftn=dict(ducc=wrap(dd.fftn), scipy=wrap(dd._scipy_fftn)),
        ifftn=dict(ducc=wrap(dd.ifftn), scipy=wrap(dd._scipy_ifftn)),
        hartley=dict(ducc=wrap(dd.hartley), scipy=wrap(dd._scipy_hartley),
                     jax=lambda a, axes: np.asarray(jax_hartley(a, axes=axes))),
    )


def _backend_array(case):
    a = np.array([complex(r, i) for r, i in case["x"]]).reshape(case["shape"])
    if not case["cplx"]:
        a = a.real.copy()
    if case.get("single"):
        a = a.astype(np.complex64 if case["cplx"] else np.float32)
    return a


def _oracle_backend(case):
    """native, SciPy and JAX implementations agree pairwise (both conventions via case['conv'])"""
    sig = dict(site="backend", fn=case["fn"], conv=case["conv"])
    a = _backend_array(case)
    axes = tuple(case["axes"])
    with U.hartley_convention(case["conv"]):
        res = {}
        for name, f in _backend_calls(case["conv"])[case["fn"]].items():
            try:
                res[name] = f(a.copy(), axes)
            except Exception as e:
                res[name] = U.err_kind(e)
    names = sorted(res)
    for i in range(len(names)):
        for j in range(i + 1, len(names)):
            u, v = res[names[i]], res[names[j]]
            if isinstance(u, dict) or isinstance(v, dict):
                if not (isinstance(u, dict) and isinstance(v, dict)):
                    return (f"{case['fn']}: backend {names[i]} -> {u if isinstance(u, dict) else 'ok'}, "
                            f"{names[j]} -> {v if isinstance(v, dict) else 'ok'}",
                            dict(sig, kind="backend-error", pair=[names[i], names[j]]))
                continue
            ok, err = U.close(u, v, scale=float(np.max(np.abs(u))) + float(np.max(np.abs(v))),
                              rtol=2e-5 if case.get("single") else U.RTOL)
            if not ok:
                return (f"{case['fn']} ({case['conv']}): backends {names[i]} and {names[j]} disagree (rel err {err:.3g})",
                        dict(sig, kind="backend-mismatch", pair=[names[i], names[j]]))
    return None


def _sht_op(case):
    import nifty.cl as ift
    dom = U.mk_domain(case["spaces"])
    tgt = U.mk_space(case["tgt"]) if case.get("tgt") else None
    return ift.SHTOperator(dom, target=tgt, space=case["space"])


def _sht_angles(op, space):
    import nifty.cl as ift
    px = op.target[space]
    if isinstance(px, ift.GLSpace):
        nodes = np.polynomial.legendre.leggauss(px.nlat)[0]
        th = np.arccos(nodes[::-1])             # north to south
        return np.repeat(th, px.nlon), np.tile(2 * np.pi * np.arange(px.nlon) / px.nlon, px.nlat)
    import ducc0
    ang = ducc0.healpix.Healpix_Base(px.nside, "RING").pix2ang(np.arange(px.size))
    return ang[:, 0], ang[:, 1]


def _sht_model_lines(case, rng):
    """driver lines for `_slice_h2p` / `_slice_p2h` with scipy's Y_lm values shipped exactly (single-space cases)"""
    from scipy.special import sph_harm_y
    if len(case["spaces"]) != 1:
        return None
    try:
        op = _sht_op(case)
    except Exception:
        return None
    lm = op.domain[0]
    theta, phi = _sht_angles(op, 0)
    if theta.size > 100:
        return None
    ks = [(l, 0) for l in range(lm.lmax + 1)] + [(l, m) for m in range(1, lm.mmax + 1) for l in range(m, lm.lmax + 1)]
    Y = [sph_harm_y(l, m, theta, phi) for l, m in ks]
    base = dict(op="sht", L=lm.lmax + 1, M=len(ks) - lm.lmax - 1, npix=int(theta.size),
                yre=[[U.frac_str(float(v)) for v in y.real] for y in Y],
                yim=[[U.frac_str(float(v)) for v in y.imag] for y in Y],
                r2=U.frac_str(float(np.sqrt(2.0))), rh=U.frac_str(float(np.sqrt(0.5))),
                c=U.frac_str(float(1.0 / np.sqrt(4 * np.pi))))
    xh = [rng.randint(-9, 9) for _ in range(lm.size)]
    xp = [rng.randint(-9, 9) for _ in range(int(theta.size))]
    return op, [dict(base, dir="h2p", x=xh), dict(base, dir="p2h", x=xp)], (xh, xp)


def _sht_reference(op, space):
    """dense matrix pix x lm of the documented transform: synthesis with orthonormal real Y_lm divided by sqrt(4 pi)"""
    import nifty.cl as ift
    lm = op.domain[space]
    px = op.target[space]
    if isinstance(px, ift.GLSpace):
        nodes = np.polynomial.legendre.leggauss(px.nlat)[0]
        th = np.arccos(nodes[::-1])             # north to south
        theta = np.repeat(th, px.nlon)
        phi = np.tile(2 * np.pi * np.arange(px.nlon) / px.nlon, px.nlat)
    else:
        import ducc0
        ang = ducc0.healpix.Healpix_Base(px.nside, "RING").pix2ang(np.arange(px.size))
        theta, phi = ang[:, 0], ang[:, 1]
    return U.real_sph_matrix(lm.lmax, lm.mmax, theta, phi) / np.sqrt(4 * np.pi)


def _oracle_sht(case):
    sig = dict(site="sht")
    try:
        op = _sht_op(case)
    except Exception:
        return None
    space = case["space"]
    rng = np.random.default_rng(case.get("oseed", 0))
    try:
        R = _sht_reference(op, space)
        for cplx in (False, True):
            x = _rand_field(rng, op.domain, cplx)
            y = _rand_field(rng, op.target, cplx)
            Tx = op.apply(x, 1).asnumpy()
            Ay = op.apply(y, 2).asnumpy()
            ax = op.domain.axes[space][0]
            ref = np.moveaxis(np.tensordot(R, x.asnumpy(), axes=(1, ax)), 0, ax)
            ok, err = U.close(Tx, ref)
            if not ok:
                return (f"SHT times differs from the documented normalisation (synthesis/sqrt(4pi)), rel err {err:.3g}",
                        dict(sig, kind="sht-times"))
            refa = np.moveaxis(np.tensordot(R.T, y.asnumpy(), axes=(1, ax)), 0, ax)
            ok, err = U.close(Ay, refa)
            if not ok:
                return (f"SHT adjoint_times is not the transpose of times (no pixel weights), rel err {err:.3g}",
                        dict(sig, kind="sht-adjoint"))
            a, b = np.vdot(y.asnumpy(), Tx), np.vdot(Ay, x.asnumpy())
            if abs(a - b) > 1e-9 * (abs(a) + abs(b) + 1):
                return (f"SHT: <y,Ax>={a} but <A^H y,x>={b}", dict(sig, kind="adjoint"))
        # volume convention: the monopole coefficient is the integral of the synthesised field
        e0 = np.zeros(op.domain.shape)
        sl = tuple(0 if k == op.domain.axes[space][0] else slice(None) for k in range(len(op.domain.shape)))
        e0[sl] = 1.0
        import nifty.cl as ift
        m = op.apply(ift.Field(op.domain, e0), 1)
        val = m.integrate(spaces=space)
        val = val.asnumpy() if hasattr(val, "asnumpy") else np.array(val)
        if np.max(np.abs(val - 1.0)) > 1e-9:
            return (f"SHT: unit monopole coefficient synthesises a field with integral {val.reshape(-1)[0]}, not 1",
                    dict(sig, kind="sht-integral"))
    except Exception as e:
        return (f"SHT: {type(e).__name__}: {e}", dict(sig, kind="exception", error=type(e).__name__))
    return None


def _smooth_op(case):
    import nifty.cl as ift
    dom = U.mk_domain(case["spaces"])
    return ift.HarmonicSmoothingOperator(dom, case["sigma"], space=case["space"]), dom


def _smooth_reference(case, dom, x):
    """F^-1 diag(exp(-2 pi^2 sigma^2 k^2)) F with explicit DFT sums and explicit k (documented Gaussian convolution)"""
    space = case["space"]
    sp = dom[space]
    axes = dom.axes[space]
    ksq = np.zeros(sp.shape)
    for a, (n, d) in enumerate(zip(sp.shape, sp.distances)):
        hd = 1.0 / (n * d)
        j = np.arange(n)
        kk = (np.minimum(j, n - j) * hd) ** 2
        ksq = ksq + kk.reshape([-1 if b == a else 1 for b in range(len(sp.shape))])
    kern = np.exp(-2 * np.pi ** 2 * case["sigma"] ** 2 * ksq)
    shp = [dom.shape[k] if k in axes else 1 for k in range(len(dom.shape))]
    fx = U.dft_explicit(x, axes, -1) * kern.reshape(shp)
    return U.dft_explicit(fx, axes, +1) / sp.size, kern


def _oracle_smooth(case):
    import nifty.cl as ift
    sig = dict(site="smoothing")
    try:
        op, dom = _smooth_op(case)
    except Exception:
        return None
    rng = np.random.default_rng(case.get("oseed", 0))
    try:
        x = _rand_field(rng, dom, False)
        y = _rand_field(rng, dom, False)
        r = op(x).asnumpy()
        if case["sigma"] == 0:
            if not np.array_equal(r, x.asnumpy()):
                return ("smoothing with sigma=0 is not the identity", dict(sig, kind="sigma0"))
            return None
        ref, _ = _smooth_reference(case, dom, x.asnumpy())
        ok, err = U.close(r, ref.real)
        if not ok or np.max(np.abs(ref.imag)) > 1e-9 * (1 + np.max(np.abs(ref.real))):
            return (f"smoothing differs from the Gaussian convolution F^-1 exp(-2 pi^2 sigma^2 k^2) F (rel err {err:.3g})",
                    dict(sig, kind="gaussian"))
        a, b = y.s_vdot(op(x)), op(y).s_vdot(x)
        if abs(a - b) > 1e-9 * (abs(a) + abs(b) + 1):
            return ("smoothing operator is not symmetric", dict(sig, kind="adjoint"))
    except Exception as e:
        return (f"smoothing: {type(e).__name__}: {e}", dict(sig, kind="exception", error=type(e).__name__))
    return None


def oracle(case):
    t = case.get("t")
    if t == "op":
        return _oracle_op(case)
    if t == "backend":
        return _oracle_backend(case)
    if t == "sht":
        return _oracle_sht(case)
    if t == "smooth":
        return _oracle_smooth(case)
    return None


# ======================================================================================================
# generators
# ======================================================================================================

def _dist(rng, exact):
    if exact:
        return float(2.0 ** rng.randint(-3, 2))
    return rng.choice([0.1, 0.3, 0.7, 1.0, 1.3, 2.5, 0.05, 3.0]) * rng.choice([1.0, 1.0, 0.37, 1.9])


def _gen_rg(rng, exact, maxcells, shape=None):
    for _ in range(50 if shape is None else 0):
        nd = rng.choice([1, 1, 2, 2, 3])
        lens = (1, 2, 4) if exact else (1, 2, 3, 4, 5, 6)
        shape = [rng.choice(lens) for _ in range(nd)]
        if 1 < int(np.prod(shape)) <= maxcells or (rng.random() < 0.05 and int(np.prod(shape)) == 1):
            break
    else:
        shape = list(shape) if shape is not None else [2]
    style = rng.random()
    if style < 0.15:
        dist = None
    elif style < 0.35:
        dist = [_dist(rng, exact)] * len(shape)
    else:
        dist = [_dist(rng, exact) for _ in shape]
    return dict(kind="rg", shape=shape, dist=dist, harmonic=rng.random() < 0.5)


def _gen_other(rng, exact):
    r = rng.random()
    if r < 0.5:
        return dict(kind="un", shape=[rng.choice([1, 2, 3])])
    return dict(kind="rg", shape=[rng.choice([2, 3])], dist=[_dist(rng, exact)], harmonic=rng.random() < 0.3)


def _gen_spaces(rng, exact, maxcells=30, maxtotal=60, k=None, space=None, shape=None):
    for _ in range(200):
        kk = k if k is not None else rng.choice([1, 1, 2, 2, 3])
        sp = space if space is not None else rng.randrange(kk)
        spaces = [(_gen_rg(rng, exact, maxcells, shape) if i == sp else _gen_other(rng, exact)) for i in range(kk)]
        tot = 1
        for d in spaces:
            tot *= int(np.prod(d["shape"]))
        if tot <= maxtotal:
            return spaces, sp
    return [dict(kind="rg", shape=[4], dist=[0.5], harmonic=False)], 0


SWEEP = [(kind, k, sp, None) for kind in ("fft", "hartley", "htop") for k in (1, 2, 3) for sp in range(k)]
# unit axes (length-1 axes broadcast trivially; the volume factor must still be applied)
SWEEP += [("fft", 1, 0, [1]), ("hartley", 2, 1, [1, 1]), ("hartley", 1, 0, [1, 3]), ("fft", 2, 0, [4, 1]),
          ("htop", 2, 1, [1]), ("hartley", 1, 0, [2, 1, 1])]


def _gen_x(rng, size, cplx, basis):
    if basis:
        k = rng.randrange(size)
        v = rng.choice([1, -2, 3])
        return [[v if i == k else 0, (1 if (cplx and i == k) else 0)] for i in range(size)]
    return [[rng.randint(-9, 9), rng.randint(-9, 9) if cplx else 0] for _ in range(size)]


def _gen_op_cases(rng, n_cfg, exact_share, sweeps=0):
    """`sweeps` passes over every (operator kind, number of spaces, transformed space) combination, then n_cfg random"""
    cases = []
    forced = [f for _ in range(sweeps) for f in SWEEP] + [None] * n_cfg
    for c, f in enumerate(forced):
        exact = rng.random() < exact_share
        if f is None:
            spaces, space = _gen_spaces(rng, exact)
            kind = rng.choice(["fft", "hartley", "hartley", "htop"])
        else:
            kind = f[0]
            spaces, space = _gen_spaces(rng, exact, maxcells=16, maxtotal=40, k=f[1], space=f[2], shape=f[3])
        if kind == "htop":
            spaces[space]["harmonic"] = True if rng.random() < 0.93 else spaces[space]["harmonic"]
        tgt = None
        if rng.random() < 0.25:
            # explicit codomain, built from the public constructor with the partner's distances
            sp = spaces[space]
            dom = U.mk_space(sp)
            cod = dom.get_default_codomain()
            tgt = dict(kind="rg", shape=list(cod.shape), dist=[float(d) for d in cod.distances], harmonic=bool(cod.harmonic))
        size = 1
        for d in spaces:
            size *= int(np.prod(d["shape"]))
        single = rng.random() < 0.25
        for conv in U.CONVS if kind != "fft" else (rng.choice(U.CONVS),):
            modes = MODES if kind != "htop" else (1, 2)
            for mode in modes:
                for basis in (False, True):
                    cplx = (rng.random() < 0.75) if kind == "fft" else (rng.random() < 0.4)
                    cases.append(dict(t="op", kind=kind, spaces=spaces, space=space, tgt=tgt, mode=mode, conv=conv,
                                      cplx=cplx, x=_gen_x(rng, size, cplx, basis), oseed=rng.randrange(1 << 30),
                                      cfg=c, single=single,
                                      malformed=(kind == "htop" and not spaces[space]["harmonic"])))
    return cases


def _gen_malformed(rng):
    rg = dict(kind="rg", shape=[4], dist=[0.5], harmonic=False)
    rgh = dict(kind="rg", shape=[4], dist=[0.5], harmonic=True)
    un = dict(kind="un", shape=[3])
    x4 = [[1, 0], [2, 0], [3, 0], [4, 0]]
    base = dict(t="op", conv=U.CONVS[0], cplx=False, oseed=1, cfg=-1, malformed=True)
    out = []
    for kind in ("fft", "hartley"):
        out.append(dict(base, kind=kind, spaces=[un], space=0, tgt=None, mode=1, x=[[1, 0]] * 3))        # not an RGSpace
        out.append(dict(base, kind=kind, spaces=[rg], space=0, tgt=dict(kind="rg", shape=[4], dist=[0.5], harmonic=False),
                        mode=1, x=x4))                                                                    # same harmonic flag
        out.append(dict(base, kind=kind, spaces=[rg], space=0, tgt=dict(kind="rg", shape=[5], dist=[0.4], harmonic=True),
                        mode=1, x=x4))                                                                    # shape mismatch
        out.append(dict(base, kind=kind, spaces=[rg], space=0, tgt=dict(kind="rg", shape=[4], dist=[0.7], harmonic=True),
                        mode=1, x=x4))                                                                    # distances mismatch
        out.append(dict(base, kind=kind, spaces=[rg], space=0, tgt=dict(kind="un", shape=[4]), mode=1, x=x4))
        out.append(dict(base, kind=kind, spaces=[rg], space=0, tgt=None, mode=3, x=x4))                   # invalid mode
    out.append(dict(base, kind="htop", spaces=[rg], space=0, tgt=None, mode=1, x=x4))                     # not harmonic
    out.append(dict(base, kind="htop", spaces=[rgh], space=0, tgt=None, mode=4, x=x4))                    # unsupported mode
    return out


def _gen_backend_cases(rng, n):
    cases = []
    for _ in range(n):
        nd = rng.choice([1, 2, 2, 3, 3])
        exact = rng.random() < 0.4
        lens = (1, 2, 4) if exact else (1, 2, 3, 4, 5, 6)
        while True:
            shape = [rng.choice(lens) for _ in range(nd)]
            if int(np.prod(shape)) <= 60:
                break
        k = rng.randint(1, nd)
        axes = sorted(rng.sample(range(nd), k))
        fn = rng.choice(["fftn", "ifftn", "hartley", "hartley"])
        cplx = fn != "hartley" and rng.random() < 0.7
        size = int(np.prod(shape))
        single = rng.random() < 0.25
        for conv in (U.CONVS if fn == "hartley" else (U.CONVS[0],)):
            cases.append(dict(t="backend", fn=fn, shape=shape, axes=axes, conv=conv, cplx=cplx, single=single,
                              x=_gen_x(rng, size, cplx, rng.random() < 0.3)))
    return cases


def _gen_sht_cases(rng, n):
    cases = []
    for _ in range(n):
        lmax = rng.randint(0, 4)
        mmax = rng.choice([None, None, rng.randint(0, lmax)])
        lm = dict(kind="lm", lmax=lmax, mmax=mmax)
        r = rng.random()
        if r < 0.4:
            tgt = None
        elif r < 0.7:
            tgt = dict(kind="gl", nlat=lmax + 1 + rng.randint(0, 2), nlon=2 * lmax + 1 + rng.randint(0, 3))
        else:
            tgt = dict(kind="hp", nside=rng.choice([1, 2, 4]))
        k = rng.choice([1, 1, 2])
        space = rng.randrange(k)
        spaces = [lm if i == space else dict(kind="un", shape=[2]) for i in range(k)]
        cases.append(dict(t="sht", spaces=spaces, space=space, tgt=tgt, oseed=rng.randrange(1 << 30)))
    return cases


def _gen_smooth_cases(rng, n):
    cases = []
    for i in range(n):
        exact = rng.random() < 0.3
        spaces, space = _gen_spaces(rng, exact, maxcells=16, maxtotal=32)
        spaces[space]["harmonic"] = False
        sigma = 0.0 if i % 4 == 0 else rng.choice([0.05, 0.1, 0.3, 0.8, 1.5]) * rng.choice([1.0, 0.5, 2.0])
        cases.append(dict(t="smooth", spaces=spaces, space=space, sigma=sigma, oseed=rng.randrange(1 << 30)))
    return cases


# ======================================================================================================
# correspondence
# ======================================================================================================

def _compare_arrays(ctx, case, impl, mout, exact, note, nontrivial):
    """impl: numpy array or error dict; mout: model output dict"""
    if isinstance(impl, dict) or "error" in mout:
        i = impl if isinstance(impl, dict) else {"ok": True}
        m = {"error": mout["error"]} if "error" in mout else {"ok": True}
        ctx.stat("error:" + (i.get("error") or "none"))
        return ctx.compare(case, i, m, note=note, nontrivial=True)
    if exact:
        ctx.stat("class:E")
        return ctx.compare(case, U.exact_list(impl), U.model_exact_list(mout) if 4 % mout["N"] == 0 else None,
                           note=note + " [class E, exact]", nontrivial=nontrivial)
    ctx.stat("class:T")
    mv = np.array(U.eval_entries(mout, False))
    ok, err = U.close(impl, mv, rtol=2e-5 if case.get("single") else U.RTOL)
    ctx.case(case, nontrivial)
    if not ok:
        ctx.disagree(case, dict(values=[str(v) for v in np.asarray(impl).reshape(-1)[:8]], relerr=err),
                     dict(values=[str(v) for v in mv[:8]]), note + " [class T]")
    return ok


def _backend_model_case(case):
    """consecutive axes only: (pre, block of 1-3 axes, post)"""
    axes, shape = case["axes"], case["shape"]
    if axes != list(range(axes[0], axes[-1] + 1)):
        return None
    pre = int(np.prod(shape[:axes[0]], dtype=int))
    post = int(np.prod(shape[axes[-1] + 1:], dtype=int))
    return dict(op="backend", fn=case["fn"], pre=pre, n=U.pad3([shape[a] for a in axes], 1), post=post,
                nc=case["conv"] == U.CONVS[0], x=[[int(r), int(i)] for r, i in case["x"]])


def _load_corpus():
    d = os.path.join(_ctx.VERIF, "corpus", ID)
    out = []
    for p in sorted(glob.glob(os.path.join(d, "*.json"))):
        try:
            rec = json.load(open(p))
            out.append(rec.get("case", rec))
        except Exception:
            pass
    return out


_T0 = [None]


def _t(label):
    import time
    if os.environ.get("C09_TIMING"):
        now = time.time()
        print(f"  [c09 timing] {label}: {now - (_T0[0] or now):.1f}s", flush=True)
        _T0[0] = now


def run(ctx):
    _t("start")
    import jax
    jax.config.update("jax_enable_x64", True)
    rng = ctx.rng
    corpus = _load_corpus()
    op_cases = [c for c in corpus if c.get("t") == "op"]
    op_cases += _gen_op_cases(rng, ctx.n(6, 60), exact_share=0.45, sweeps=ctx.n(1, 5)) + _gen_malformed(rng)
    be_cases = [c for c in corpus if c.get("t") == "backend"] + _gen_backend_cases(rng, ctx.n(40, 400))
    sht_cases = [c for c in corpus if c.get("t") == "sht"] + _gen_sht_cases(rng, ctx.n(10, 60))
    sm_cases = [c for c in corpus if c.get("t") == "smooth"] + _gen_smooth_cases(rng, ctx.n(12, 60))

    # ---- one batch through the model driver -------------------------------------------------------
    lines, owners = [], []
    for c in op_cases:
        lines.append(_model_case(c)); owners.append(("op", c))
    for c in be_cases:
        m = _backend_model_case(c)
        if m is not None:
            lines.append(m); owners.append(("be", c))
    # smoothing: geometry + operator lines (kernel from the harness' own k² formula; compared with the model's below)
    sm_own, err_cases = [], []
    for c in sm_cases:
        g = U.model_geometry(c["spaces"], c["space"])
        lines.append(dict(op="geom", n=g["n"], rdist=g["rdist"])); owners.append(("geom", c))
        try:
            op, dom = _smooth_op(c)
        except Exception as e:
            sm_own.append((c, None, U.err_kind(e), None, None))
            continue
        sp = dom[c["space"]]
        ksq = np.zeros(sp.shape)
        for ax, (n, rd) in enumerate(zip(sp.shape, sp._rdistances)):
            j = np.arange(n)
            kk = (np.minimum(j, n - j) * (1.0 / (n * rd))) ** 2
            ksq = ksq + kk.reshape([-1 if b == ax else 1 for b in range(len(sp.shape))])
        ksq = ksq.reshape(-1)
        kern = np.exp(-2 * np.pi ** 2 * c["sigma"] ** 2 * ksq)
        xs = [rng.randint(-9, 9) for _ in range(dom.size)]
        lines.append(dict(op="smooth", pre=g["pre"], n=g["n"], post=g["post"], rdist=g["rdist"], dh=g["dh"], nc=True,
                          sigma="zero" if c["sigma"] == 0 else "pos", spacekind=g["spacekind"],
                          kern=[U.frac_str(float(k)) for k in kern], x=xs))
        owners.append(("sm", c))
        sm_own.append((c, op, dom, xs, ksq))
    for spaces, sigma in (([dict(kind="rg", shape=[4], dist=[0.5], harmonic=False)], -1.0),
                          ([dict(kind="rg", shape=[4], dist=[0.5], harmonic=True)], 0.5),
                          ([dict(kind="rg", shape=[4], dist=[0.5], harmonic=True)], 0.0),
                          ([dict(kind="un", shape=[3])], 0.5)):
        c = dict(t="smooth", spaces=spaces, space=0, sigma=sigma)
        g = U.model_geometry(spaces, 0)
        ncell = int(np.prod(g["n"]))
        lines.append(dict(op="smooth", pre=1, n=g["n"], post=1, rdist=g["rdist"], dh=g["dh"], nc=True,
                          sigma="neg" if sigma < 0 else ("zero" if sigma == 0 else "pos"), spacekind=g["spacekind"],
                          kern=["1"] * ncell, x=[1] * ncell))
        owners.append(("smerr", c))
        err_cases.append(c)
    sht_tie = []
    for c in sht_cases:
        r = _sht_model_lines(c, rng)
        if r is not None:
            op_s, ls, xs_s = r
            for l in ls:
                lines.append(l); owners.append(("sht-" + l["dir"], c))
            sht_tie.append((c, op_s, xs_s))
    _t("gen+real-setup")
    outs = ctx.model(DRIVER, lines)
    _t(f"model batch 1 ({len(lines)} lines)")
    by_case = {}
    for (k, c), o in zip(owners, outs):
        by_case[(k, id(c))] = o

    # ---- operators: model vs real, then oracle per configuration ------------------------------------
    seen_cfg = set()
    for c in op_cases:
        impl = _apply_real(c)
        mout = by_case[("op", id(c))]
        exact = _is_exact(c)
        sp = c["spaces"][c["space"]]
        nontrivial = int(np.prod(sp["shape"])) > 1
        ctx.stat(f"kind:{c['kind']}"); ctx.stat(f"mode:{c['mode']}"); ctx.stat(f"ndim:{len(sp['shape'])}")
        ctx.stat(f"nspaces:{len(c['spaces'])}"); ctx.stat("dom:harmonic" if sp.get("harmonic") else "dom:position")
        ctx.stat("conv:" + c["conv"][:5]); ctx.stat("input:complex" if c["cplx"] else "input:real")
        ctx.stat("dtype:single" if c.get("single") else "dtype:double")
        if 1 in sp["shape"]:
            ctx.stat("unit-axis")
        if c.get("tgt"):
            ctx.stat("target:explicit")
        _compare_arrays(ctx, _strip(c), impl, mout, exact,
                        f"{c['kind']} operator apply vs Model/Harmonic (fftApply/hartleyApplyComplex)", nontrivial)
        key = (c["cfg"], c["conv"])
        if c["cfg"] >= 0 and key not in seen_cfg:
            seen_cfg.add(key)
            r = oracle(c)
            if r:
                ctx.counterexample(_strip(c), *r)

    _t("operators")
    # ---- raw backends: model (consecutive axes) / explicit sums (any axes) + pairwise agreement -----
    for c in be_cases:
        ctx.stat("backend:" + c["fn"]); ctx.stat(f"backend-axes:{len(c['axes'])}/{len(c['shape'])}")
        a = _backend_array(c)
        axes = tuple(c["axes"])
        mout = by_case.get(("be", id(c)))
        exact = all(c["shape"][k] in (1, 2, 4) for k in axes)
        with U.hartley_convention(c["conv"]):
            calls = _backend_calls(c["conv"])[c["fn"]]
            for name in sorted(calls):
                try:
                    v = calls[name](a.copy(), axes)
                except Exception as e:
                    v = U.err_kind(e)
                cc = dict(c, backend=name)
                if mout is not None:
                    # ifftn divides by the number of cells: exact only for powers of two (true for 1,2,4)
                    _compare_arrays(ctx, cc, v, mout, exact, f"ducc_dispatch/{name} {c['fn']} vs Model/Harmonic", True)
                else:
                    ctx.stat("backend:nonconsecutive-axes(explicit sums)")
                    F = U.dft_explicit(a, axes, -1)
                    if c["fn"] == "fftn":
                        ref = F
                    elif c["fn"] == "ifftn":
                        ref = U.dft_explicit(a, axes, +1) / np.prod([c["shape"][k] for k in axes])
                    else:
                        ref = F.real + F.imag if c["conv"] == U.CONVS[0] else F.real - F.imag
                    ctx.case(cc, True)
                    if isinstance(v, dict):
                        ctx.disagree(cc, v, {"ok": True}, f"{name} {c['fn']} raised on valid input")
                    else:
                        ok, err = U.close(v, ref, rtol=2e-5 if c.get("single") else U.RTOL)
                        if not ok:
                            ctx.disagree(cc, dict(relerr=err), {"ok": True}, f"{name} {c['fn']} vs explicit O(n^2) sums [class T]")
        r = oracle(c)
        if r:
            ctx.counterexample(c, *r)

    _t("backends")
    # ---- SHT: model-free, documented normalisation (class T) -----------------------------------------
    for c in sht_cases:
        lm = c["spaces"][c["space"]]
        ctx.stat(f"sht:lmax={lm['lmax']}"); ctx.stat("sht:tgt=" + (c["tgt"]["kind"] if c["tgt"] else "default"))
        ctx.case(c, lm["lmax"] > 0)
        r = oracle(c)
        if r:
            ctx.counterexample(c, *r)

    import nifty.cl as ift
    for c, op_s, (xh, xp) in sht_tie:
        for d, xv, mode, dom in (("h2p", xh, 1, op_s.domain), ("p2h", xp, 2, op_s.target)):
            mo = by_case[("sht-" + d, id(c))]
            cc = dict(c, dir=d, x=xv)
            ctx.stat("sht-model:" + d)
            try:
                v = op_s.apply(ift.Field(dom, np.array(xv, dtype=float)), mode).asnumpy()
            except Exception as e:
                v = U.err_kind(e)
            ctx.case(cc, True)
            if isinstance(v, dict) or "error" in mo:
                ctx.disagree(cc, v if isinstance(v, dict) else {"ok": True}, mo, "SHTOperator vs Model sliceH2P/sliceP2H")
                continue
            mv = np.array([float(Fraction(t)) for t in mo["y"]])
            ok, err = U.close(v, mv)
            if not ok:
                ctx.disagree(cc, dict(relerr=err, values=[str(t) for t in v[:6]]), dict(values=[str(t) for t in mv[:6]]),
                             "SHTOperator vs Model sliceH2P/sliceP2H with scipy Y_lm [class T]")
    _t("sht")
    # ---- smoothing: geometry (model k², dvol vs code), operator through the model (class F/T) -----------
    import nifty.cl as ift
    for c in err_cases:
        mout = by_case[("smerr", id(c))]
        try:
            _smooth_op(c)
            impl = {"ok": True}
        except Exception as e:
            impl = U.err_kind(e)
        ctx.stat("smooth-error:" + impl.get("error", "none"))
        ctx.compare(c, impl, {"error": mout["error"]} if "error" in mout else {"ok": True},
                    note="HarmonicSmoothingOperator constructor checks vs driver")
    for c, op, dom, xs, ksq in sm_own:
        ctx.stat("smooth:sigma0" if c["sigma"] == 0 else "smooth:sigma>0")
        if op is None:
            ctx.compare(_strip(c), dom, {"ok": True}, note="HarmonicSmoothingOperator construction on a valid domain")
            continue
        geo = by_case[("geom", id(c))]
        mout = by_case[("sm", id(c))]
        sp = dom[c["space"]]
        mksq = np.array([float(Fraction(t)) for t in geo["ksq"]])
        ok0, _ = U.close(ksq, mksq, scale=float(np.max(mksq)) + 1.0, rtol=1e-12)
        ok1, _ = U.close([sp.scalar_dvol, sp.get_default_codomain().scalar_dvol],
                         [float(Fraction(geo["dvol_pos"])), float(Fraction(geo["dvol_harm"]))], scale=None)
        kcode = sp.get_default_codomain().get_k_length_array().asnumpy().reshape(-1) ** 2
        ok2, _ = U.close(kcode, mksq, scale=float(np.max(mksq)) + 1.0)
        ctx.case(dict(c, part="geometry"), True)
        if not (ok0 and ok1 and ok2):
            ctx.disagree(dict(c, part="geometry"), dict(dvol=[sp.scalar_dvol, sp.get_default_codomain().scalar_dvol]),
                         dict(dvol=[geo["dvol_pos"], geo["dvol_harm"]]), "RGSpace dvol / k-lengths vs Model rgDvol/kSq")
        try:
            v = op(ift.Field(dom, np.array(xs, dtype=float).reshape(dom.shape))).asnumpy()
        except Exception as e:
            v = U.err_kind(e)
        cc = dict(_strip(c), x=xs)
        if c["sigma"] == 0:
            ctx.compare(cc, v if isinstance(v, dict) else U.exact_list(v), mout if "error" in mout else
                        [[str(Fraction(e[0])), str(Fraction(e[1]))] for e in mout["y"]],
                        note="HarmonicSmoothingOperator(sigma=0) is the identity [class E]")
        else:
            _compare_arrays(ctx, cc, v, mout, False, "HarmonicSmoothingOperator vs Model smoothApply (kernel shipped exactly)", True)
        r = oracle(c)
        if r:
            ctx.counterexample(_strip(c), *r)
    _t("smoothing")


def _strip(c):
    return {k: v for k, v in c.items() if k not in ("cfg",)}


def shrink(case):
    t = case.get("t")
    if t == "op":
        sp = case["spaces"]
        # drop spectator spaces
        if len(sp) > 1:
            s = case["space"]
            yield dict(case, spaces=[sp[s]], space=0)
        # shorter axes
        cur = sp[case["space"]]
        if cur["kind"] == "rg":
            for a, n in enumerate(cur["shape"]):
                for n2 in (2, 3):
                    if n2 < n:
                        sh = list(cur["shape"]); sh[a] = n2
                        new = dict(cur, shape=sh)
                        yield dict(case, spaces=[new if i == case["space"] else d for i, d in enumerate(sp)], tgt=None)
            if len(cur["shape"]) > 1:
                new = dict(cur, shape=cur["shape"][:1], dist=cur["dist"][:1] if cur.get("dist") else None)
                yield dict(case, spaces=[new if i == case["space"] else d for i, d in enumerate(sp)], tgt=None)
    elif t == "backend":
        if len(case["shape"]) > 1:
            a = case["axes"][0]
            n = case["shape"][a]
            yield dict(case, shape=[n], axes=[0], x=case["x"][:n])
    elif t == "smooth":
        if len(case["spaces"]) > 1:
            yield dict(case, spaces=[case["spaces"][case["space"]]], space=0)


def search(ctx):
    """targeted search on the real code: every kind x convention x domain flavour at small sizes"""
    rng = ctx.rng
    for c in _gen_op_cases(rng, 30, exact_share=0.3, sweeps=2):
        if c["mode"] != 1 or c["x"][0][0] == 0 and False:
            continue
        r = oracle(c)
        if r:
            ctx.counterexample(_strip(c), *r)
            return
    for c in _gen_backend_cases(rng, 200):
        r = oracle(c)
        if r:
            ctx.counterexample(c, *r)
            return
    for c in _gen_sht_cases(rng, 30) + _gen_smooth_cases(rng, 30):
        r = oracle(c)
        if r:
            ctx.counterexample(_strip(c), *r)
            return
