"""C24 — The JAX VI driver resumes after a crash with identical results (DESIGN.md §5 C24)."""
import hashlib
import json
import os
import pickle
import shutil
import tempfile

from core.ctx import REPO
from props import _crash_fsfault as F

ID = "C24"
LEAN_MODULES = ["NiftyVerif.Props.C24"]
DRIVER = "Driver/C24.lean"
OBLIGATIONS = ["NiftyVerif.C24." + t for t in (
    "never_unresumable", "crash_safe", "crash_safe_single", "final_files", "natSys_lawful",
    "inplace_not_crash_safe", "inplace_witness", "inplace_crash_states", "resume_possible_iff", "natSys_prefixFree")]
RULE = ("case = (model configuration, sequence of kill points of successive runs, then an unkilled resume); ALL single "
        "kill points of the MODEL's byte-granular operation sequence (every op boundary, every position inside a "
        "write) plus random double/triple kills are mapped to the real run (before op / partial write with the same "
        "fraction) and executed on the real driver with simulated kills (exception + dead file system) in few "
        "processes; a sample (and every distinct failure) is re-executed with real process kills (os._exit) and must "
        "give byte-identical directories; non-trivial = first kill strictly inside the run; distinct by (cfg, kills)")
TRUSTED_BASE = [
    "Lean 4.33 kernel; axioms propext/Classical.choice/Quot.sound only (audited every run)",
    "hand-written model Model/CrashRe.lean of optimize_kl's file protocol and resume logic, tied by (a) equality of the "
    "recorded real op sequence with the model's, for the first and every resumed run, (b) equality of the directory "
    "content class (absent/empty/partial/complete:i per file, minisanity tokens) after every kill, (c) resumed-from "
    "iteration = number of OptimizeVI.update calls of the resumed process, (d) read-set of the resumed run",
    "Lawful: update increments nit; pickle.load(pickle.dump(x)) == x for (samples, state) — observed by the oracle (final "
    "(samples, state) equal by value: tree structure, dtype, shape and bytes of every leaf), not proved",
    "fault injector harness/props/_crash_fsfault.py: kill = os._exit inside the real process; write() calls are flushed "
    "at once, so a file holds all completed writes plus a prefix of the interrupted one",
]
ASSUMPTIONS = [
    "a crash is a process kill; power loss (unsynced data after close) is outside the model",
    "OptimizeVI.update is a deterministic function of (samples, state) on this platform (CPU, fixed thread count)",
    "os.replace is atomic (POSIX rename)",
    "the restarted call gets the same arguments (likelihood, position, key, n_total_iterations) as the killed one",
]


# ------------------------------------------------------------------------------------------------ inside the workers
def _setup(cfg, jcache=None):
    """build the tiny model and return drive(odir, resume, copy_to=None) -> result dict (runs the REAL optimize_kl)"""
    import sys
    import jax
    jax.config.update("jax_enable_x64", True)
    if jcache:  # persistent compilation cache: the processes differ only in where they are killed
        jax.config.update("jax_compilation_cache_dir", jcache)
        jax.config.update("jax_persistent_cache_min_compile_time_secs", 0)
        jax.config.update("jax_persistent_cache_min_entry_size_bytes", -1)
    import jax.numpy as jnp
    import numpy as np
    import nifty.re as jft
    okl = sys.modules["nifty.re.optimize_kl"]

    class Fwd(jft.Model):
        def __init__(self):
            super().__init__(domain={"a": jax.ShapeDtypeStruct((3,), jnp.float64)})

        def __call__(self, x):
            return jnp.exp(0.3 * x["a"]) + x["a"][::-1]

    f = Fwd()
    d = jnp.array([1.0, 2.0, 0.5])
    lh = jft.Gaussian(d, noise_cov_inv=lambda x: 4.0 * x).amend(f)
    key = jax.random.PRNGKey(int(cfg.get("seed", 0)))
    k1, k2 = jax.random.split(key)
    pos = jft.Vector(jft.random_like(k1, f.domain))
    # count the driver's calls of OptimizeVI.update (= iterations really performed by one call of the driver)
    n_upd = [0]
    orig_update = okl.OptimizeVI.update

    def counting_update(self, samples, state, **kw):
        n_upd[0] += 1
        return orig_update(self, samples, state, **kw)
    okl.OptimizeVI.update = counting_update

    def drive(odir, resume, copy_to=None):
        n_upd[0] = 0
        callback = None
        if copy_to:
            def callback(samples, st):  # reference run only: keep every iteration's files (outside odir)
                for fn in ("last.pkl", "minisanity.txt"):
                    shutil.copyfile(os.path.join(odir, fn), os.path.join(copy_to, f"{int(st.nit)}.{fn}"))
        s, st = jft.optimize_kl(
            lh, pos, key=k2, n_total_iterations=int(cfg["n"]), n_samples=int(cfg.get("n_samples", 1)),
            draw_linear_kwargs=dict(cg_name=None, cg_kwargs=dict(absdelta=1e-8, maxiter=10)),
            nonlinearly_update_kwargs=dict(
                minimize_kwargs=dict(name=None, xtol=1e-4, cg_kwargs=dict(name=None), maxiter=3)),
            kl_kwargs=dict(minimize_kwargs=dict(name=None, xtol=1e-4, cg_kwargs=dict(name=None), maxiter=4)),
            sample_mode=cfg.get("sample_mode", "nonlinear_resample"), odir=odir, resume=bool(resume),
            callback=callback)
        blob = pickle.dumps((s, st._replace(config={})))
        leaves = [np.asarray(x).tobytes() for x in jax.tree_util.tree_leaves((s.pos, s._samples, st.key))]
        last = os.path.join(odir, "last.pkl")
        return dict(sha=_value_digest((s, st._replace(config={}))), pkl=hashlib.sha1(blob).hexdigest(),
                    leaves=hashlib.sha1(b"|".join(leaves)).hexdigest(), nit=int(st.nit), updates=n_upd[0],
                    last_digest=_file_digest(last) if os.path.exists(last) else None)
    return drive


def _value_digest(obj):
    """value identity of a (samples, state) pytree: structure + dtype/shape/bytes of every leaf.  (The pickle BYTES of
    equal values may differ — memoisation of shared objects differs between a state that was computed and one that was
    unpickled and continued — so bytes are only compared between runs with the same history.)"""
    import jax
    import numpy as np
    leaves, treedef = jax.tree_util.tree_flatten(obj)
    h = hashlib.sha1(str(treedef).encode())
    for x in leaves:
        if isinstance(x, (str, bytes, type(None))):
            h.update(repr(x).encode())
        else:
            a = np.asarray(x)
            h.update(f"{a.dtype.str}{a.shape}".encode())
            h.update(np.ascontiguousarray(a).tobytes())
    return h.hexdigest()


def _file_digest(path):
    """value digest of a pickle file; None if it does not load"""
    try:
        with open(path, "rb") as f:
            return _value_digest(pickle.load(f))
    except Exception:  # noqa: BLE001
        return None


def worker(args):
    """one real process = one call of the driver (killed by os._exit at the point given to the injector)"""
    drive = _setup(args["cfg"], args.get("jcache"))
    res = drive(args["odir"], args["resume"])
    with open(args["result"], "w") as fh:
        json.dump(res, fh)


def _status(path, pickles):
    if not os.path.exists(path):
        return "absent"
    b = open(path, "rb").read()
    if not b:
        return "empty"
    for i, p in pickles.items():
        if b == p:
            return f"complete:{i}"
    d = _file_digest(path)
    if d is None:
        return "partial"          # non-empty and does not unpickle
    for i, p in pickles.items():
        if i not in _REFDIG:
            _REFDIG[i] = _value_digest(pickle.loads(p))
        if _REFDIG[i] == d:
            return f"complete:{i}"
    return "garbage"


_REFDIG = {}


def _is_partials(piece, msgs):
    """is `piece` a concatenation of one or more proper prefixes of messages? (several killed appends in a row)"""
    reach = {0}
    for p in range(len(piece)):
        if p not in reach:
            continue
        for m in msgs:
            L = 0
            while L < len(m) - 1 and p + L < len(piece) and m[L] == piece[p + L]:
                L += 1
                reach.add(p + L)
    return len(piece) in reach


def _tokens(path, msgs):
    if not os.path.exists(path):
        return "absent"
    b = open(path, "rb").read()
    out, pos = [], 0
    while pos < len(b):
        hit = [i for i, m in msgs.items() if b.startswith(m, pos)]
        if hit:
            out.append(str(hit[0]))
            pos += len(msgs[hit[0]])
            continue
        # partial message: up to the next position where a complete message starts (or EOF)
        nxt = len(b)
        for q in range(pos + 1, len(b)):
            if any(b.startswith(m, q) for m in msgs.values()):
                nxt = q
                break
        piece = b[pos:nxt]
        out.append("~" if _is_partials(piece, list(msgs.values())) else "?")
        pos = nxt
    return out


def _files(odir, ref):
    return {"last.pkl": _status(os.path.join(odir, "last.pkl"), ref["pickles"]),
            "last.pkl.tmp": _status(os.path.join(odir, "last.pkl.tmp"), ref["pickles"]),
            "minisanity.txt": _collapse(_tokens(os.path.join(odir, "minisanity.txt"), ref["msgs"]))}


def _snap(odir):
    return F.snapshot(odir) if os.path.isdir(odir) else {}


def _real_kill(pos, ops):
    """model position {coarse, off, len} -> kill spec on a real op list whose coarse view equals the model's"""
    if pos == "end":
        return dict(at=10 ** 6, when="before")
    c, off, ln = pos["coarse"], pos["off"], pos["len"]
    groups, last = [], None
    for idx, ev in enumerate(ops):
        key = (ev["op"], ev["path"]) if ev["op"] == "write" else None
        if key is not None and key == last:
            groups[-1].append(idx)
        else:
            groups.append([idx])
        last = key
    if c >= len(groups):
        return dict(at=10 ** 6, when="before")
    g = groups[c]
    if off == 0:
        return dict(at=g[0], when="before")
    total = sum(ops[i]["n"] for i in g)
    target = max(1, min(total - 1, (total * off) // ln))
    acc = 0
    for i in g:
        n = ops[i]["n"]
        if target < acc + n:
            if target == acc:
                return dict(at=i, when="before")
            return dict(at=i, when="partial", frac=[target - acc, n])
        acc += n
    return dict(at=g[-1], when="after")


def session(args):
    """one process, many scenarios, SIMULATED kills (F.simulate): reference run first, then for every scenario the
    successive killed runs and the final unkilled resume.  Output (json) -> args['out']."""
    cfg = args["cfg"]
    drive = _setup(cfg, args.get("jcache"))
    w = args["work"]
    cp = os.path.join(w, "copies")
    os.makedirs(cp, exist_ok=True)
    rdir = os.path.join(w, "ref", "out")
    r = F.simulate(lambda: drive(rdir, cfg.get("r0", False), copy_to=cp), rdir)
    out = dict(ref=dict(status=r["status"], exc=r["exc"], res=r["value"], ops=r["ops"],
                        coarse=F.coarse(r["ops"], drop_noop_mkdir=False)), scen={})
    if r["status"] != "done":
        json.dump(out, open(args["out"], "w"))
        return
    n = cfg["n"]
    ref = dict(pickles={i: open(os.path.join(cp, f"{i}.last.pkl"), "rb").read() for i in range(1, n + 1)}, msgs={})
    prev = b""
    for i in range(1, n + 1):
        cur = open(os.path.join(cp, f"{i}.minisanity.txt"), "rb").read()
        ref["msgs"][i] = cur[len(prev):]
        prev = cur
    out["ref"]["pickle_sha"] = {i: hashlib.sha1(p).hexdigest() for i, p in ref["pickles"].items()}
    proto = None
    for name, coarse in (args.get("model_coarse") or {}).items():
        if coarse == out["ref"]["coarse"]:
            proto = name
    out["proto"] = proto
    for sc in args["scenarios"]:
        odir = os.path.join(w, f"s{sc['sid']}", "out")
        shutil.rmtree(os.path.dirname(odir), ignore_errors=True)
        os.makedirs(os.path.dirname(odir))
        if "kills" in sc:
            kills = sc["kills"]
        else:  # model positions per protocol; stage 1 refers to the reference op list, later stages to 1 write per dump
            poss = (sc["pos"].get(proto) if proto else None)
            if poss is None:
                continue
            kills = [_real_kill(poss[0], r["ops"])] + [
                (dict(at=10 ** 6, when="before") if p == "end" else
                 dict(at=p["coarse"], when="before") if p["off"] == 0 else
                 dict(at=p["coarse"], when="partial", frac=[p["off"], p["len"]])) for p in poss[1:]]
        stages, resume = [], bool(cfg.get("r0", False))
        for kill in kills:
            k = F.simulate(lambda: drive(odir, resume), odir, kill)
            stages.append(dict(status=k["status"], exc=k["exc"], files=_files(odir, ref), snap=_snap(odir),
                               coarse=F.coarse(k["ops"], drop_noop_mkdir=False), killed=k["killed"], kill=kill))
            resume = True
            if k["status"] == "error":
                break
        k = F.simulate(lambda: drive(odir, True), odir, None)
        final = dict(status=k["status"], exc=k["exc"], res=k["value"], files=_files(odir, ref), snap=_snap(odir),
                     coarse=F.coarse(k["ops"], drop_noop_mkdir=False), reads=sorted({q["path"] for q in k["queries"]}))
        out["scen"][str(sc["sid"])] = dict(kills=kills, stages=stages, final=final)
        shutil.rmtree(os.path.dirname(odir), ignore_errors=True)
    json.dump(out, open(args["out"], "w"))


# ------------------------------------------------------------------------------------------------ harness side
_WORK = None
_POOL = None
_SESS = {}
EMPTY_SHA = hashlib.sha1(b"").hexdigest()
_BUDGET = [int(os.environ.get("VERIF_ORACLE_BUDGET", "14"))]


class Infra(Exception):
    pass


def _cleanup():
    if _POOL is not None:
        _POOL.close()
    if _WORK and not os.environ.get("VERIF_KEEP"):
        shutil.rmtree(_WORK, ignore_errors=True)


def _work():
    global _WORK
    if _WORK is None:
        import atexit
        _WORK = tempfile.mkdtemp(prefix="c24_")
        atexit.register(_cleanup)
    return _WORK


def _pool():
    global _POOL
    if _POOL is None:
        _POOL = F.Pool(int(os.environ.get("VERIF_WORKERS", "6")),
                       preload=("jax", "jax.numpy", "numpy", "scipy.sparse.linalg"), env={"NIFTY_REPO": REPO})
    return _POOL


_SEQ = [0]


def _run_session(tag, cfg, scenarios, model_coarse=None):
    """-> parsed session output (simulated kills, one process)"""
    _SEQ[0] += 1
    tag = f"{tag}_{_SEQ[0]}"
    w = os.path.join(_work(), "sess_" + tag)
    shutil.rmtree(w, ignore_errors=True)
    os.makedirs(w)
    outp = os.path.join(w, "out.json")
    job = dict(root=os.path.join(w, "unused_root"), log=os.path.join(w, "log"), target="props.c24:session", repo=REPO,
               kill_at=None, args=dict(cfg=cfg, scenarios=scenarios, out=outp, work=w, model_coarse=model_coarse,
                                       jcache=os.path.join(_work(), "jax_cache")))
    rc, err = _pool().run(job, timeout=1500)
    if rc != 0 or not os.path.exists(outp):
        e = open(job["log"] + ".err").read() if os.path.exists(job["log"] + ".err") else ""
        raise Infra(f"session {tag} failed rc={rc} {e} {err[-400:]}")
    return json.load(open(outp))


def _run_real(tag, odir, cfg, resume, kill=None):
    """one REAL process (os._exit at the kill point). -> dict(rc, exc, res, ops)"""
    w = _work()
    log = os.path.join(w, tag + ".log")
    resf = os.path.join(w, tag + ".res")
    for f in (log, resf, log + ".err"):
        if os.path.exists(f):
            os.unlink(f)
    job = dict(root=odir, log=log, target="props.c24:worker", repo=REPO,
               kill_at=None if kill is None else kill["at"], when=(kill or {}).get("when", "before"),
               frac=(kill or {}).get("frac", [1, 2]),
               args=dict(cfg=cfg, odir=odir, resume=resume, result=resf, jcache=os.path.join(w, "jax_cache")))
    rc, err = _pool().run(job, timeout=900)
    ops, qs, killed = F.read_log(log)
    res = json.load(open(resf)) if os.path.exists(resf) else None
    e = json.load(open(log + ".err")) if os.path.exists(log + ".err") else None
    return dict(rc=rc, err=err, res=res, ops=ops, killed=killed, exc=e)


def _scenario_real(sid, cfg, kills):
    """the scenario with REAL kills: one process per run. -> same shape as a session scenario (without `files`)"""
    odir = os.path.join(_work(), f"real{sid}", "out")
    shutil.rmtree(os.path.dirname(odir), ignore_errors=True)
    os.makedirs(os.path.dirname(odir))
    stages, resume = [], bool(cfg.get("r0", False))
    st_of = {0: "done", F.EXIT_KILLED: "killed", F.EXIT_ERROR: "error"}
    for j, kill in enumerate(kills):
        r = _run_real(f"real{sid}_k{j}", odir, cfg, resume, kill)
        stages.append(dict(status=st_of.get(r["rc"], f"rc={r['rc']}"), exc=r["exc"], snap=_snap(odir), killed=r["killed"],
                           coarse=F.coarse(r["ops"], drop_noop_mkdir=False)))
        resume = True
        if r["rc"] not in (0, F.EXIT_KILLED):
            break
    r = _run_real(f"real{sid}_fin", odir, cfg, True)
    final = dict(status=st_of.get(r["rc"], f"rc={r['rc']}"), exc=r["exc"], res=r["res"], snap=_snap(odir),
                 coarse=F.coarse(r["ops"], drop_noop_mkdir=False))
    shutil.rmtree(os.path.dirname(odir), ignore_errors=True)
    return dict(kills=kills, stages=stages, final=final)


def _judge(cfg, sc, refres, final_sha=None):
    """the property on the real code: every restart gets past loading, the unkilled resume finishes and returns what the
    uninterrupted run returned, and last.pkl holds that state.  -> None | (what, signature)"""
    fin = sc["final"]
    where = "; ".join(f"{(st.get('killed') or {}).get('killed', 'not killed')}" for st in sc["stages"])
    for st in list(sc["stages"]) + [fin]:
        if str(st["status"]).startswith("rc="):
            raise Infra(f"worker failed: {st['status']}")
        if st["status"] == "error":
            e = (st["exc"] or {}).get("error", "?")
            return (f"optimize_kl(resume=True) raised {e} after an earlier kill [{where}]: resuming is impossible",
                    dict(driver="re.optimize_kl", phase="resume", error=e, site=(st["exc"] or {}).get("site", "")))
    if fin["res"] is None or fin["res"]["sha"] != refres["sha"] or fin["res"]["nit"] != refres["nit"]:
        return (f"resume=True after kill [{where}] finished with different (samples, state) than the uninterrupted run "
                f"(nit {(fin['res'] or {}).get('nit')} vs {refres['nit']}; compared by value; array leaves equal: "
                f"{(fin['res'] or {}).get('leaves') == refres['leaves']})",
                dict(driver="re.optimize_kl", phase="result", error="different-result"))
    if final_sha is not None and fin["res"].get("last_digest") != fin["res"]["sha"]:
        return (f"after the resumed run [{where}] last.pkl does not hold the returned (samples, state)",
                dict(driver="re.optimize_kl", phase="files", error="last.pkl"))
    return None


def oracle(case):
    """case = {cfg: {...}, kills: [ {at, when, frac?}, … ]} in real op coordinates. Property on the real code only, with
    REAL process kills (os._exit)."""
    if "kills" not in case:
        return None
    # every call costs two to four fresh processes: the re-examination of disagreements and the shrinking done by vcheck
    # get a budget per check run (a replay needs one call)
    _BUDGET[0] -= 1
    if _BUDGET[0] < 0:
        return None
    cfg = case["cfg"]
    key = json.dumps(cfg, sort_keys=True)
    try:
        if key not in _SESS:
            _SESS[key] = _run_session("o" + hashlib.sha1(key.encode()).hexdigest()[:8], cfg, [])
        ref = _SESS[key]["ref"]
        sc = _scenario_real("o" + hashlib.sha1(json.dumps(case, sort_keys=True).encode()).hexdigest()[:8], cfg, case["kills"])
        return _judge(cfg, sc, ref["res"], ref["res"]["sha"])  # last.pkl must be the pickle of the RETURNED state
    except Infra:
        return None


def shrink(case):
    ks = case["kills"]
    if len(ks) > 1:
        for j in range(len(ks)):
            yield dict(case, kills=[ks[j]])
    for j, k in enumerate(ks):
        if k.get("when") == "partial":
            yield dict(case, kills=ks[:j] + [dict(at=k["at"], when="before")] + ks[j + 1:])


def _configs(ctx):
    seed = ctx.rng.randrange(1000)
    cfgs = [dict(n=3, seed=seed, n_samples=1, sample_mode="nonlinear_resample", r0=False)]
    if not ctx.quick:
        cfgs += [dict(n=3, seed=seed + 1, n_samples=2, sample_mode="linear_resample", r0=True),
                 dict(n=2, seed=seed + 2, n_samples=0, sample_mode="nonlinear_resample", r0=False),
                 dict(n=4, seed=seed + 3, n_samples=1, sample_mode="nonlinear_sample", r0=True)]
    return cfgs


def _collapse(tokens):
    """adjacent partial messages cannot be told apart in the real file: one '~' for a run of them"""
    if not isinstance(tokens, list):
        return tokens
    out = []
    for t in tokens:
        if t == "~" and out and out[-1] == "~":
            continue
        out.append(t)
    return out


def _model_files(mf):
    """model statuses: 'partial:i' -> 'partial' (the real bytes cannot tell which iteration a short prefix belongs to)"""
    return {k: (v.split(":")[0] if isinstance(v, str) and v.startswith("partial") else _collapse(v)) for k, v in mf.items()}


def _corpus_cases():
    from core.ctx import VERIF
    d = os.path.join(VERIF, "corpus", ID)
    cases = []
    for fn in sorted(os.listdir(d)) if os.path.isdir(d) else []:
        if fn.endswith(".json"):
            rec = json.load(open(os.path.join(d, fn)))
            cases += rec.get("cases", [rec] if "kills" in rec else [])
    return cases


def _corpus_start():
    """corpus first: minimised past failures.  One session process per distinct configuration replays them with simulated
    kills (in a background thread, concurrently with the main sessions); a case that fails there is confirmed with real
    process kills (oracle) before it is reported."""
    import threading
    cases = _corpus_cases()
    groups = {}
    for c in cases:
        groups.setdefault(json.dumps(c["cfg"], sort_keys=True), []).append(c)
    box = dict(cases=cases, out={}, err=None)

    def work():
        try:
            for key, cs in groups.items():
                o = _run_session("corpus" + hashlib.sha1(key.encode()).hexdigest()[:8], cs[0]["cfg"],
                                 [dict(sid=i, kills=c["kills"]) for i, c in enumerate(cs)])
                _SESS.setdefault(key, o)
                box["out"][key] = o
        except Infra as e:
            box["err"] = str(e)
    t = threading.Thread(target=work)
    t.start()
    box["thread"] = t
    return box


def _corpus_finish(ctx, box):
    box["thread"].join()
    if box["err"]:
        ctx.notes.append(f"corpus replay skipped: {box['err']}")
        return
    groups = {}
    for c in box["cases"]:
        groups.setdefault(json.dumps(c["cfg"], sort_keys=True), []).append(c)
    for key, cs in groups.items():
        o = box["out"].get(key)
        if o is None or o["ref"]["status"] != "done":
            continue
        for i, c in enumerate(cs):
            ctx.case(dict(corpus=True, **c))
            ctx.stat("corpus")
            sc = o["scen"].get(str(i))
            if sc is None:
                continue
            try:
                j = _judge(c["cfg"], sc, o["ref"]["res"], o["ref"]["res"]["sha"])
            except Infra:
                continue
            if j:
                r = oracle(c)
                if r:
                    ctx.counterexample(c, *r)


def _tick(ctx, name, t0):
    import time
    ctx.extra.setdefault("phase_s", {})[name] = round(ctx.extra.get("phase_s", {}).get(name, 0) + time.time() - t0, 1)


def run(ctx):
    import time
    box = _corpus_start()
    for cfg in _configs(ctx):
        _run_cfg(ctx, cfg)
    t0 = time.time()
    _corpus_finish(ctx, box)
    _tick(ctx, "corpus(wait)", t0)


def _run_cfg(ctx, cfg):
    import time
    t0 = time.time()
    n, r0 = cfg["n"], cfg["r0"]
    protos = ("atomic", "inplace")
    # kill points in model coordinates: ALL single kills (every op boundary, every byte position) + double/triple kills;
    # one model call for both protocols
    rng = __import__("random").Random(ctx.rng.randrange(10 ** 9))
    multi = [[rng.randrange(10 ** 6), rng.randrange(0, 16)] for _ in range(ctx.n(5, 12))]
    multi += [[rng.randrange(10 ** 6), rng.randrange(0, 16), rng.randrange(0, 16)] for _ in range(ctx.n(1, 4))]
    def sweep(which):
        """model sweep for the protocols in `which` (the other one: op sequence only) -> mo, sims, scen, scenarios"""
        req = [dict(op="sweep", proto=p, n=n, r0=r0, multi=multi) if p in which else dict(op="ops", proto=p, n=n, resume=r0)
               for p in protos]
        sw = dict(zip(protos, ctx.model(DRIVER, req)))
        mo_ = {p: dict(coarse=sw[p]["coarse"], fine=sw[p]["fine"]) for p in protos}
        sims_ = {p: sw[p]["singles"] + sw[p]["multi"] for p in which}
        scen_ = {p: [x["kills"] for x in sims_[p]] for p in which}
        scs = []
        for sid in range(max(len(scen_[p]) for p in which)):
            pos = {}
            for p in which:
                if sid < len(scen_[p]):
                    st = sims_[p][sid]["stages"]
                    if all("pos" in x for x in st):
                        pos[p] = [x["pos"] for x in st]
            scs.append(dict(sid=sid, pos=pos))
        return mo_, sims_, scen_, scs
    # the repaired protocol first; the model of the protocol as found is swept only if the code turns out to follow it
    mo, sims, scen, scenarios = sweep(("atomic",))
    _tick(ctx, "model", t0)
    t0 = time.time()
    # split over a few session processes (each pays the JAX start-up once)
    nsess = ctx.n(2, 6)
    chunks = [scenarios[i::nsess] for i in range(nsess)]
    mc = {p: mo[p]["coarse"] for p in protos}
    try:
        outs = _pool().map(lambda a: _run_session(f"{cfg['seed']}_{a[0]}", cfg, a[1], mc), list(enumerate(chunks)))
    except Infra as e:
        from core import leanrun
        raise leanrun.InfraError(str(e))
    if outs[0]["proto"] == "inplace":
        mo, sims, scen, scenarios = sweep(("inplace",))
        chunks = [scenarios[i::nsess] for i in range(nsess)]
        try:
            outs = _pool().map(lambda a: _run_session(f"{cfg['seed']}_i{a[0]}", cfg, a[1], mc), list(enumerate(chunks)))
        except Infra as e:
            from core import leanrun
            raise leanrun.InfraError(str(e))
    _tick(ctx, "sessions", t0)
    t0 = time.time()
    ref = outs[0]["ref"]
    _SESS[json.dumps(cfg, sort_keys=True)] = outs[0]
    proto = outs[0]["proto"]
    # (1) the op sequence of the real uninterrupted run is the model's (atomic = repaired protocol)
    ctx.traces_validated += 1
    case0 = dict(op="ops", cfg=cfg)
    ctx.compare(case0, dict(coarse=ref["coarse"]), dict(coarse=mo["atomic"]["coarse"]),
                note="op sequence of the real uninterrupted run vs model (atomic protocol)"
                     + (" — the real sequence equals the model of the IN-PLACE protocol" if proto == "inplace" else ""))
    ctx.stat(f"real-protocol={proto}")
    if ref["res"]["updates"] != n or ref["res"]["nit"] != n:
        ctx.disagree(case0, ref["res"], dict(updates=n, nit=n), "uninterrupted run: number of updates / nit")
    if any(o["ref"]["res"] != ref["res"] for o in outs):
        ctx.disagree(case0, [o["ref"]["res"] for o in outs], ref["res"], "the uninterrupted run is not deterministic")
        return
    final_sha = ref["res"]["sha"]   # last.pkl must hold the returned (samples, state) (compared by value)
    if ref["res"].get("last_digest") != final_sha:
        ctx.counterexample(dict(cfg=cfg, kills=[]), "after an uninterrupted run last.pkl is not the pickle of the returned "
                           "(samples, state)", dict(driver="re.optimize_kl", phase="files", error="last.pkl"))
    if proto is None:
        # unknown protocol: no model to compare with; explore crash points directly in real coordinates
        kills = [[dict(at=k, when="before")] for k in range(len(ref["ops"]) + 1)]
        kills += [[dict(at=k, when="partial", frac=[1, 2])] for k, ev in enumerate(ref["ops"]) if ev["op"] == "flush"]
        o = _run_session(f"{cfg['seed']}_u", cfg, [dict(sid=i, kills=k) for i, k in enumerate(kills)], mc)
        for sc in o["scen"].values():
            ctx.case(dict(cfg=cfg, kills=sc["kills"]))
            j = _judge(cfg, sc, ref["res"], final_sha)
            if j:
                ctx.counterexample(dict(cfg=cfg, kills=sc["kills"]), *j)
        return
    nfine = mo[proto]["fine"]
    allsc = {}
    for o in outs:
        allsc.update(o["scen"])
    failing = []
    for sid, ks in enumerate(scen[proto]):
        sc = allsc.get(str(sid))
        sim = sims[proto][sid]
        if sc is None:
            continue
        case = dict(cfg=cfg, kills_model=ks, kills=sc["kills"])
        inside = 0 < ks[0] < nfine
        for st in sim["stages"]:
            pos = st.get("pos")
            ctx.stat("kill:" + ("end" if pos == "end" else ("mid-write" if pos and pos["off"] else "op-boundary")))
        ctx.stat(f"stages={len(ks)}")
        # correspondence: directory after every kill, resumed-from iteration, op sequences, final files
        fin = sc["final"]
        ok = fin["status"] == "done"
        impl = dict(stages=[dict(files=st["files"], coarse=st["coarse"]) for st in sc["stages"]],
                    final=dict(ok=ok, updates=(fin["res"] or {}).get("updates"), state=(fin["res"] or {}).get("nit"),
                               coarse=fin["coarse"] if ok else None, files=fin["files"] if ok else None))
        mfin = sim["final"]
        modl = dict(stages=[dict(files=_model_files(st["files"]), coarse=st["coarse"]) for st in sim["stages"] if "files" in st],
                    final=dict(ok=mfin["ok"], updates=mfin.get("updates"), state=mfin.get("state"),
                               coarse=mfin.get("coarse"), files=_model_files(mfin["files"]) if mfin.get("files") else None))
        ctx.compare(case, impl, modl, note="directory after each kill / resumed run: real vs model", nontrivial=inside)
        ctx.traces_validated += len(sc["stages"]) + 1
        if ok and not set(fin["reads"]) <= {"last.pkl", "."}:
            ctx.disagree(case, dict(reads=fin["reads"]), dict(reads=["last.pkl"]),
                         "read-set of the resumed run is larger than the model's load()")
        j = _judge(cfg, sc, ref["res"], final_sha)
        if j:
            failing.append((sid, sc, j))
    # (3) simulated kill == real kill (os._exit in a process of its own): sample of scenarios, all failing ones first
    pick, seen_sig = [], set()
    for sid, _, j in failing:   # one representative per distinct failure signature (at most 3)
        key = json.dumps(j[1], sort_keys=True)
        if key not in seen_sig and len(pick) < 3:
            seen_sig.add(key)
            pick.append(sid)
    cand = [sid for sid, ks in enumerate(scen[proto]) if str(sid) in allsc and sid not in pick]
    ctx.rng.shuffle(cand)
    mid = [sid for sid in cand if any(k.get("when") == "partial" for k in allsc[str(sid)]["kills"])]
    pick += mid[:ctx.n(1, 2)] + [sid for sid in cand if sid not in mid][:ctx.n(0, 2)]
    try:
        reals = _pool().map(lambda sid: (sid, _scenario_real(f"{cfg['seed']}_{sid}", cfg, allsc[str(sid)]["kills"])), pick)
    except Infra as e:
        reals = []
        ctx.notes.append(f"real-kill cross-check skipped: {e}")
    _tick(ctx, "compare+real-kills", t0)
    confirmed = set()
    for sid, rs in reals:
        sc = allsc[str(sid)]
        if any(str(st["status"]).startswith("rc=") for st in rs["stages"] + [rs["final"]]):
            ctx.stat("real-kill:infra-skipped")
            continue
        def view(x):
            def snapv(sn):   # pickle BYTES depend on the history of the writing process (memoisation): class only
                return {k: (v if not k.startswith("last.pkl") else ("empty" if v == EMPTY_SHA else "nonempty"))
                        for k, v in sn.items()}
            def resv(r):
                return None if r is None else {k: r.get(k) for k in ("sha", "last_digest", "nit", "updates", "leaves")}
            return dict(stages=[dict(status=st["status"], snap=snapv(st["snap"]), exc=(st["exc"] or {}).get("error"))
                                for st in x["stages"]],
                        final=dict(status=x["final"]["status"], snap=snapv(x["final"]["snap"]), res=resv(x["final"]["res"]),
                                   exc=(x["final"]["exc"] or {}).get("error")))
        a, b = view(sc), view(rs)
        ctx.stat("real-kill:checked")
        if not ctx.compare(dict(cfg=cfg, kills=sc["kills"], check="simulated-vs-real-kill"), b, a,
                           note="directory snapshots / outcome: real kill (os._exit) vs simulated kill"):
            continue
        confirmed.add(sid)
        ctx.traces_validated += 1
    # a failure seen under a simulated kill is reported only when the same scenario with REAL kills showed it too
    for sid, sc, j in failing:
        if sid in confirmed:
            ctx.counterexample(dict(cfg=cfg, kills=sc["kills"]), *j)
    ctx.stat("failing-scenarios(simulated)", len(failing))
    ctx.extra["crash_points_model"] = nfine + 1
    ctx.extra["scenarios"] = len(scen[proto])
    ctx.extra["exhaustive"] = True


def search(ctx):
    """targeted: the witness of inplace_not_crash_safe — kill right after the truncating open of last.pkl / inside the dump"""
    cfg = dict(n=2, seed=0, n_samples=1, sample_mode="nonlinear_resample", r0=False)
    try:
        o = _run_session("search", cfg, [])
    except Infra:
        return
    _SESS[json.dumps(cfg, sort_keys=True)] = o
    for k, ev in enumerate(o["ref"]["ops"]):
        if ev["op"] == "flush" and ev["path"].startswith("last.pkl"):
            for kill in (dict(at=k, when="before"), dict(at=k, when="partial", frac=[1, 2])):
                case = dict(cfg=cfg, kills=[kill])
                r = oracle(case)
                if r:
                    ctx.counterexample(case, *r)
                    return
