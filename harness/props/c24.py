"""C24 — The JAX VI driver resumes after a crash with identical results (DESIGN.md §5 C24)."""
import hashlib
import json
import os
import pickle
import shutil
import tempfile
from concurrent.futures import ThreadPoolExecutor

from core.ctx import REPO
from props import _crash_fsfault as F

ID = "C24"


# ------------------------------------------------------------------------------------------------ worker (subprocess)
def worker(args):
    """runs in a fresh process under the fault injector: the REAL nifty.re.optimize_kl on a tiny model"""
    import jax
    jax.config.update("jax_enable_x64", True)
    import jax.numpy as jnp
    import nifty.re as jft
    import sys
    okl = sys.modules["nifty.re.optimize_kl"]

    class Fwd(jft.Model):
        def __init__(self):
            super().__init__(domain={"a": jax.ShapeDtypeStruct((3,), jnp.float64)})

        def __call__(self, x):
            return jnp.exp(0.3 * x["a"]) + x["a"][::-1]

    f = Fwd()
    d = jnp.array([1.0, 2.0, 0.5])
    lh = jft.Gaussian(d, noise_cov_inv=lambda x: 4.0 * x).amend(f)
    key = jax.random.PRNGKey(int(args.get("seed", 0)))
    k1, k2 = jax.random.split(key)
    pos = jft.Vector(jft.random_like(k1, f.domain))
    # count the driver's calls of OptimizeVI.update (= iterations really performed by this process)
    n_upd = [0]
    orig_update = okl.OptimizeVI.update

    def counting_update(self, samples, state, **kw):
        n_upd[0] += 1
        return orig_update(self, samples, state, **kw)
    okl.OptimizeVI.update = counting_update
    s, st = jft.optimize_kl(
        lh, pos, key=k2, n_total_iterations=int(args["n"]), n_samples=int(args.get("n_samples", 1)),
        draw_linear_kwargs=dict(cg_name=None, cg_kwargs=dict(absdelta=1e-8, maxiter=10)),
        nonlinearly_update_kwargs=dict(minimize_kwargs=dict(name=None, xtol=1e-4, cg_kwargs=dict(name=None), maxiter=3)),
        kl_kwargs=dict(minimize_kwargs=dict(name=None, xtol=1e-4, cg_kwargs=dict(name=None), maxiter=4)),
        sample_mode=args.get("sample_mode", "nonlinear_resample"), odir=args["odir"], resume=bool(args["resume"]))
    blob = pickle.dumps((s, st._replace(config={})))
    import numpy as np
    leaves = [np.asarray(x).tobytes() for x in jax.tree_util.tree_leaves((s.pos, s._samples, st.key))]
    res = dict(sha=hashlib.sha1(blob).hexdigest(), leaves=hashlib.sha1(b"|".join(leaves)).hexdigest(),
               nit=int(st.nit), updates=n_upd[0])
    with open(args["result"], "w") as fh:
        json.dump(res, fh)
