"""C24 — The JAX VI driver resumes after a crash with identical results (DESIGN.md §5 C24)."""
import hashlib
import json
import os
import pickle
import shutil
import tempfile
from concurrent.futures import ThreadPoolExecutor

from core.ctx import REPO
from props import _crash_fsfault as F

ID = "C24"
LEAN_MODULES = ["NiftyVerif.Props.C24"]
DRIVER = "Driver/C24.lean"
OBLIGATIONS = ["NiftyVerif.C24." + t for t in (
    "never_unresumable", "crash_safe", "crash_safe_single", "final_files", "natSys_lawful",
    "inplace_not_crash_safe", "inplace_witness")]
RULE = ("case = (model configuration, sequence of kill points); kill points are enumerated in the MODEL's byte-granular "
        "operation sequence (every op boundary and every position inside a write) and mapped to the real run "
        "(before op / partial write with the same fraction); non-trivial = at least one kill strictly inside the "
        "run; distinct by (cfg, kills)")
TRUSTED_BASE = [
    "Lean 4.33 kernel; axioms propext/Classical.choice/Quot.sound only (audited every run)",
    "hand-written model Model/CrashRe.lean of optimize_kl's file protocol and resume logic, tied by (a) equality of the "
    "recorded real op sequence with the model's, for the first and every resumed run, (b) equality of the directory "
    "content class (absent/empty/partial/complete:i per file, minisanity tokens) after every kill, (c) resumed-from "
    "iteration = number of OptimizeVI.update calls of the resumed process, (d) read-set of the resumed run",
    "Lawful: update increments nit; pickle.load(pickle.dump(x)) == x bitwise for (samples, state) — observed by the "
    "oracle (bitwise equal final pickle), not proved",
    "fault injector harness/props/_crash_fsfault.py: kill = os._exit inside the real process; write() calls are flushed "
    "at once, so a file holds all completed writes plus a prefix of the interrupted one",
]
ASSUMPTIONS = [
    "a crash is a process kill; power loss (unsynced data after close) is outside the model",
    "OptimizeVI.update is a deterministic function of (samples, state) on this platform (CPU, fixed thread count)",
    "os.replace is atomic (POSIX rename)",
    "the restarted call gets the same arguments (likelihood, position, key, n_total_iterations) as the killed one",
]


# ------------------------------------------------------------------------------------------------ worker (subprocess)
def worker(args):
    """runs in a fresh process under the fault injector: the REAL nifty.re.optimize_kl on a tiny model"""
    import jax
    jax.config.update("jax_enable_x64", True)
    if args.get("jcache"):  # persistent compilation cache: the processes differ only in where they are killed
        jax.config.update("jax_compilation_cache_dir", args["jcache"])
        jax.config.update("jax_persistent_cache_min_compile_time_secs", 0)
        jax.config.update("jax_persistent_cache_min_entry_size_bytes", -1)
    import jax.numpy as jnp
    import nifty.re as jft
    import sys
    okl = sys.modules["nifty.re.optimize_kl"]

    class Fwd(jft.Model):
        def __init__(self):
            super().__init__(domain={"a": jax.ShapeDtypeStruct((3,), jnp.float64)})

        def __call__(self, x):
            return jnp.exp(0.3 * x["a"]) + x["a"][::-1]

    f = Fwd()
    d = jnp.array([1.0, 2.0, 0.5])
    lh = jft.Gaussian(d, noise_cov_inv=lambda x: 4.0 * x).amend(f)
    key = jax.random.PRNGKey(int(args.get("seed", 0)))
    k1, k2 = jax.random.split(key)
    pos = jft.Vector(jft.random_like(k1, f.domain))
    # count the driver's calls of OptimizeVI.update (= iterations really performed by this process)
    n_upd = [0]
    orig_update = okl.OptimizeVI.update

    def counting_update(self, samples, state, **kw):
        n_upd[0] += 1
        return orig_update(self, samples, state, **kw)
    okl.OptimizeVI.update = counting_update
    callback = None
    if args.get("copy_to"):
        import shutil as _sh

        def callback(samples, st):  # reference run only: keep every iteration's files (outside odir)
            for fn in ("last.pkl", "minisanity.txt"):
                _sh.copyfile(os.path.join(args["odir"], fn), os.path.join(args["copy_to"], f"{int(st.nit)}.{fn}"))
    s, st = jft.optimize_kl(
        lh, pos, key=k2, n_total_iterations=int(args["n"]), n_samples=int(args.get("n_samples", 1)),
        draw_linear_kwargs=dict(cg_name=None, cg_kwargs=dict(absdelta=1e-8, maxiter=10)),
        nonlinearly_update_kwargs=dict(minimize_kwargs=dict(name=None, xtol=1e-4, cg_kwargs=dict(name=None), maxiter=3)),
        kl_kwargs=dict(minimize_kwargs=dict(name=None, xtol=1e-4, cg_kwargs=dict(name=None), maxiter=4)),
        sample_mode=args.get("sample_mode", "nonlinear_resample"), odir=args["odir"], resume=bool(args["resume"]),
        callback=callback)
    blob = pickle.dumps((s, st._replace(config={})))
    import numpy as np
    leaves = [np.asarray(x).tobytes() for x in jax.tree_util.tree_leaves((s.pos, s._samples, st.key))]
    res = dict(sha=hashlib.sha1(blob).hexdigest(), leaves=hashlib.sha1(b"|".join(leaves)).hexdigest(),
               nit=int(st.nit), updates=n_upd[0])
    with open(args["result"], "w") as fh:
        json.dump(res, fh)


# ------------------------------------------------------------------------------------------------ harness side
_WORK = None
_REF = {}
_POOL = None


def _pool():
    global _POOL
    if _POOL is None:
        _POOL = F.Pool(int(os.environ.get("VERIF_WORKERS", "8")), preload=("jax", "jax.numpy", "numpy", "scipy.sparse.linalg"),
                       env={"NIFTY_REPO": REPO})
    return _POOL


def _cleanup():
    if _POOL is not None:
        _POOL.close()
    if _WORK and not os.environ.get("VERIF_KEEP"):
        shutil.rmtree(_WORK, ignore_errors=True)


def _work():
    global _WORK
    if _WORK is None:
        import atexit
        _WORK = tempfile.mkdtemp(prefix="c24_")
        atexit.register(_cleanup)
    return _WORK


def _cfgkey(cfg):
    return json.dumps(cfg, sort_keys=True)


def _run(tag, odir, cfg, resume, kill=None, copy_to=None):
    """one real process. kill = None | dict(at=real op index, when=…, frac=[p,q]).
    -> dict(rc, err, res, ops, queries, killed)"""
    w = _work()
    log = os.path.join(w, tag + ".log")
    resf = os.path.join(w, tag + ".res")
    for f in (log, resf, log + ".err"):
        if os.path.exists(f):
            os.unlink(f)
    os.makedirs(os.path.dirname(odir), exist_ok=True)
    job = dict(root=odir, log=log, target="props.c24:worker", repo=REPO,
               kill_at=None if kill is None else kill["at"], when=(kill or {}).get("when", "before"),
               frac=(kill or {}).get("frac", [1, 2]),
               args=dict(cfg, odir=odir, resume=resume, result=resf, copy_to=copy_to))
    job["args"]["jcache"] = os.path.join(w, "jax_cache")
    rc, err = _pool().run(job, timeout=900)
    ops, qs, killed = F.read_log(log)
    res = json.load(open(resf)) if os.path.exists(resf) else None
    e = json.load(open(log + ".err")) if os.path.exists(log + ".err") else None
    return dict(rc=rc, err=err, res=res, ops=ops, queries=qs, killed=killed, exc=e)


def _reference(cfg):
    """uninterrupted run (recorded, per-iteration copies of the files) — cached per configuration"""
    key = _cfgkey(cfg)
    if key in _REF:
        return _REF[key]
    w = _work()
    tag = "ref_" + hashlib.sha1(key.encode()).hexdigest()[:8]
    cp = os.path.join(w, tag + "_copies")
    shutil.rmtree(cp, ignore_errors=True)
    os.makedirs(cp)
    odir = os.path.join(w, tag + "_odir", "out")
    shutil.rmtree(os.path.dirname(odir), ignore_errors=True)
    r = _run(tag, odir, cfg, cfg.get("r0", False), copy_to=cp)
    if r["rc"] != 0 or r["res"] is None:
        raise RuntimeError(f"reference run failed rc={r['rc']} {r['exc']} {r['err'][-300:]}")
    n = cfg["n"]
    pk = {i: open(os.path.join(cp, f"{i}.last.pkl"), "rb").read() for i in range(1, n + 1)}
    ms, prev = {}, b""
    for i in range(1, n + 1):
        cur = open(os.path.join(cp, f"{i}.minisanity.txt"), "rb").read()
        ms[i] = cur[len(prev):]
        prev = cur
    r.update(pickles=pk, msgs=ms)
    _REF[key] = r
    return r


def _status(path, ref):
    if not os.path.exists(path):
        return "absent"
    b = open(path, "rb").read()
    if not b:
        return "empty"
    for i, p in ref["pickles"].items():
        if b == p:
            return f"complete:{i}"
    if any(p.startswith(b) for p in ref["pickles"].values()):
        return "partial"
    return "garbage"


def _tokens(path, ref):
    if not os.path.exists(path):
        return "absent"
    b = open(path, "rb").read()
    out, pos, msgs = [], 0, ref["msgs"]
    while pos < len(b):
        hit = [i for i, m in msgs.items() if b.startswith(m, pos)]
        if hit:
            out.append(str(hit[0]))
            pos += len(msgs[hit[0]])
            continue
        # partial message: up to the next position where a complete message starts (or EOF)
        nxt = len(b)
        for q in range(pos + 1, len(b)):
            if any(b.startswith(m, q) for m in msgs.values()):
                nxt = q
                break
        piece = b[pos:nxt]
        out.append("~" if any(m.startswith(piece) and m != piece for m in msgs.values()) else "?")
        pos = nxt
    return out


def _files(odir, ref):
    return {"last.pkl": _status(os.path.join(odir, "last.pkl"), ref),
            "last.pkl.tmp": _status(os.path.join(odir, "last.pkl.tmp"), ref),
            "minisanity.txt": _tokens(os.path.join(odir, "minisanity.txt"), ref)}


def _model_files(mf):
    """model statuses: 'partial:i' -> 'partial' (the real bytes cannot tell which iteration a short prefix belongs to)"""
    return {k: (v.split(":")[0] if isinstance(v, str) and v.startswith("partial") else v) for k, v in mf.items()}


def _real_kill(pos, ops):
    """model position {coarse, off, len} -> kill spec on a real op list whose coarse view equals the model's"""
    if pos == "end":
        return None
    c, off, ln = pos["coarse"], pos["off"], pos["len"]
    # real indices of coarse op c
    groups, last = [], None
    for idx, ev in enumerate(ops):
        key = (ev["op"], ev["path"]) if ev["op"] == "write" else None
        if key is not None and key == last:
            groups[-1].append(idx)
        else:
            groups.append([idx])
        last = key
    if c >= len(groups):
        return None
    g = groups[c]
    if off == 0:
        return dict(at=g[0], when="before")
    total = sum(ops[i]["n"] for i in g)
    target = max(1, min(total - 1, (total * off) // ln))
    acc = 0
    for i in g:
        n = ops[i]["n"]
        if target < acc + n:
            if target == acc:
                return dict(at=i, when="before")
            return dict(at=i, when="partial", frac=[target - acc, n])
        acc += n
    return dict(at=g[-1], when="after")


def _scenario(sid, cfg, kills_real, ref, model=None):
    """run the real scenario: successive runs killed at kills_real[j] (real coordinates, or model positions if `model`
    is given — then the op list of the reference run is used to translate), then an unkilled resume.
    -> dict(stages=[…], final=…, problems=[…])"""
    w = _work()
    odir = os.path.join(w, f"s{sid}", "out")
    shutil.rmtree(os.path.dirname(odir), ignore_errors=True)
    os.makedirs(os.path.dirname(odir))
    stages, resume = [], bool(cfg.get("r0", False))
    for j, kill in enumerate(kills_real):
        r = _run(f"s{sid}_k{j}", odir, cfg, resume, kill=kill)
        stages.append(dict(rc=r["rc"], exc=r["exc"], files=_files(odir, ref) if os.path.isdir(odir) else None,
                           coarse=F.coarse(r["ops"], drop_noop_mkdir=False), updates=None, killed=r["killed"], kill=kill))
        resume = True
        if r["rc"] not in (0, F.EXIT_KILLED):
            break
    r = _run(f"s{sid}_fin", odir, cfg, True)
    final = dict(rc=r["rc"], exc=r["exc"], res=r["res"], coarse=F.coarse(r["ops"], drop_noop_mkdir=False),
                 files=_files(odir, ref) if os.path.isdir(odir) else None,
                 reads=sorted({q["path"] for q in r["queries"]}), err=r["err"][-300:])
    shutil.rmtree(os.path.dirname(odir), ignore_errors=True)
    return dict(stages=stages, final=final)


class Infra(Exception):
    pass


def _judge(cfg, kills_real, sc, ref):
    """the property on the real code: the unkilled resume finishes and returns what the uninterrupted run returned"""
    fin = sc["final"]
    if fin["rc"] == -9 or any(st["rc"] == -9 for st in sc["stages"]):
        raise Infra("worker process could not be run (timeout / fork server failure)")
    where = "; ".join(f"{(st['killed'] or {}).get('killed', 'not killed')}" for st in sc["stages"])
    for st in sc["stages"]:
        if st["rc"] not in (0, F.EXIT_KILLED):
            e = (st["exc"] or {}).get("error", f"rc={st['rc']}")
            return (f"run with resume=True raised {e} after an earlier kill ({where}): resuming is impossible",
                    dict(driver="re.optimize_kl", phase="resume", error=e, site=(st["exc"] or {}).get("site", "")))
    if fin["rc"] != 0 or fin["res"] is None:
        e = (fin["exc"] or {}).get("error", f"rc={fin['rc']}")
        return (f"resume=True after kill [{where}] raised {e}: resuming is impossible",
                dict(driver="re.optimize_kl", phase="resume", error=e, site=(fin["exc"] or {}).get("site", "")))
    if fin["res"]["sha"] != ref["res"]["sha"] or fin["res"]["nit"] != ref["res"]["nit"]:
        return (f"resume=True after kill [{where}] finished with different (samples, state) than the uninterrupted run "
                f"(nit {fin['res']['nit']} vs {ref['res']['nit']}, leaves equal: {fin['res']['leaves'] == ref['res']['leaves']})",
                dict(driver="re.optimize_kl", phase="result", error="different-result"))
    if fin["files"]["last.pkl"] != f"complete:{cfg['n']}":
        return (f"after the resumed run last.pkl is {fin['files']['last.pkl']}, not the final state",
                dict(driver="re.optimize_kl", phase="files", error="last.pkl"))
    return None


def oracle(case):
    """case = {cfg: {...}, kills: [ {at, when, frac?}, … ]} in real op coordinates. Property on the real code only."""
    if "kills" not in case:
        return None
    cfg = case["cfg"]
    ref = _reference(cfg)
    sc = _scenario("o" + hashlib.sha1(json.dumps(case, sort_keys=True).encode()).hexdigest()[:8], cfg, case["kills"], ref)
    try:
        return _judge(cfg, case["kills"], sc, ref)
    except Infra:
        return None


def shrink(case):
    ks = case["kills"]
    if len(ks) > 1:
        for j in range(len(ks)):
            yield dict(case, kills=[ks[j]])
    for j, k in enumerate(ks):
        if k.get("when") == "partial":
            yield dict(case, kills=ks[:j] + [dict(at=k["at"], when="before")] + ks[j + 1:])


def _configs(ctx):
    seed = ctx.rng.randrange(1000)
    cfgs = [dict(n=3, seed=seed, n_samples=1, sample_mode="nonlinear_resample", r0=False)]
    if not ctx.quick:
        cfgs += [dict(n=3, seed=seed + 1, n_samples=2, sample_mode="linear_resample", r0=True),
                 dict(n=2, seed=seed + 2, n_samples=0, sample_mode="nonlinear_resample", r0=False),
                 dict(n=4, seed=seed + 3, n_samples=1, sample_mode="nonlinear_sample", r0=True)]
    return cfgs


def run(ctx):
    workers = int(os.environ.get("VERIF_WORKERS", "8"))
    for cfg in _configs(ctx):
        _run_cfg(ctx, cfg, workers)


def _run_cfg(ctx, cfg, workers):
    n, r0 = cfg["n"], cfg["r0"]
    ref = _reference(cfg)
    # (1) the op sequence of the real uninterrupted run is the model's (atomic = repaired protocol)
    mo = ctx.model(DRIVER, [dict(op="ops", proto="atomic", n=n, resume=r0), dict(op="ops", proto="inplace", n=n, resume=r0)])
    real_coarse = F.coarse(ref["ops"], drop_noop_mkdir=False)
    ctx.traces_validated += 1
    case0 = dict(op="ops", cfg=cfg)
    if not ctx.compare(case0, dict(coarse=real_coarse), dict(coarse=mo[0]["coarse"]),
                       note="op sequence of the real uninterrupted run vs model (atomic protocol)"
                            + (" — the real sequence equals the model of the IN-PLACE protocol"
                               if real_coarse == mo[1]["coarse"] else "")):
        proto = "inplace" if real_coarse == mo[1]["coarse"] else None
    else:
        proto = "atomic"
    ctx.stat(f"real-protocol={proto}")
    if ref["res"]["updates"] != n or ref["res"]["nit"] != n:
        ctx.disagree(case0, ref["res"], dict(updates=n, nit=n), "uninterrupted run: number of updates / nit")
    if proto is None:
        # unknown protocol: explore crash points directly in real coordinates
        kills = [[dict(at=k, when="before")] for k in range(len(ref["ops"]) + 1)]
        kills += [[dict(at=k, when="partial", frac=[1, 2])] for k, ev in enumerate(ref["ops"]) if ev["op"] == "write"]
        res = _pool().map(lambda a: (a[1], _scenario(f"u{a[0]}", cfg, a[1], ref)), list(enumerate(kills)))
        for ks, sc in res:
            ctx.case(dict(cfg=cfg, kills=ks))
            j = _judge(cfg, ks, sc, ref)
            if j:
                ctx.counterexample(dict(cfg=cfg, kills=ks), *j)
        return
    nfine = mo[0 if proto == "atomic" else 1]["fine"]
    # (2) kill points in model coordinates
    single = list(range(nfine + 1))
    if ctx.quick:
        # stratified: every point of the second loop pass, every third elsewhere, first and last
        per = (nfine - (3 if not r0 else 1)) // n
        lo = nfine - per * (n - 1)
        keep = set(range(lo, lo + per + 1)) | {0, 2, lo - per + 5, lo - per + 7, nfine - 1, nfine}
        single = sorted(k for k in keep if 0 <= k <= nfine)
    scen = [[k] for k in single]
    ndouble = ctx.n(2, 24)
    for _ in range(ndouble):
        k1 = ctx.rng.randrange(1, nfine)
        scen.append([k1, ctx.rng.randrange(0, 14)])
    sims = ctx.model(DRIVER, [dict(op="sim", proto=proto, n=n, r0=r0, kills=ks) for ks in scen])
    jobs = []
    for sid, (ks, sim) in enumerate(zip(scen, sims)):
        # translate model positions to real kills; stage 1 uses the reference op list; later stages use the op list the
        # model predicts for the resumed run (1 real write per model write group is checked below)
        kills_real = []
        for j, st in enumerate(sim["stages"]):
            if "pos" not in st:
                break
            if j == 0:
                kr = _real_kill(st["pos"], ref["ops"])
            else:
                pos = st["pos"]
                kr = None if pos == "end" else (
                    dict(at=pos["coarse"], when="before") if pos["off"] == 0
                    else dict(at=pos["coarse"], when="partial", frac=[pos["off"], pos["len"]]))
            kills_real.append(kr or dict(at=10 ** 6, when="before"))
        jobs.append((sid, ks, sim, kills_real))
    single_write = all(ev["op"] != "write" or i == 0 or ref["ops"][i - 1]["op"] != "write"
                       for i, ev in enumerate(ref["ops"]))
    if not single_write:
        ctx.notes.append("a dump used several write() calls; later-stage kill positions assume one write per dump")
    results = _pool().map(lambda jb: _scenario(f"{cfg['seed']}_{jb[0]}", cfg, jb[3], ref), jobs)
    infra = 0
    for (sid, ks, sim, kills_real), sc in zip(jobs, results):
        case = dict(cfg=cfg, kills_model=ks, kills=kills_real)
        if sc["final"]["rc"] == -9 or any(st["rc"] == -9 for st in sc["stages"]):
            infra += 1
            continue
        inside = any(0 < k for k in ks) and ks[0] < nfine
        for j, st in enumerate(sim["stages"]):
            pos = st.get("pos")
            ctx.stat("kill:" + ("end" if pos == "end" else ("mid-write" if pos and pos["off"] else "op-boundary")))
        ctx.stat(f"stages={len(ks)}")
        # correspondence: directory after every kill, resumed-from iteration, op sequences, final files
        impl = dict(stages=[dict(files=st["files"], coarse=st["coarse"]) for st in sc["stages"]],
                    final=dict(ok=sc["final"]["rc"] == 0,
                               updates=(sc["final"]["res"] or {}).get("updates"),
                               state=(sc["final"]["res"] or {}).get("nit"),
                               coarse=sc["final"]["coarse"] if sc["final"]["rc"] == 0 else None,
                               files=sc["final"]["files"] if sc["final"]["rc"] == 0 else None))
        mfin = sim["final"]
        modl = dict(stages=[dict(files=_model_files(st["files"]), coarse=st["coarse"]) for st in sim["stages"] if "files" in st],
                    final=dict(ok=mfin["ok"], updates=mfin.get("updates"), state=mfin.get("state"),
                               coarse=mfin.get("coarse"), files=_model_files(mfin["files"]) if mfin.get("files") else None))
        ctx.compare(case, impl, modl, note="directory after each kill / resumed run: real vs model", nontrivial=inside)
        ctx.traces_validated += len(sc["stages"]) + 1
        if sc["final"]["rc"] == 0 and not set(sc["final"]["reads"]) <= {"last.pkl", "."}:
            ctx.disagree(case, dict(reads=sc["final"]["reads"]), dict(reads=["last.pkl"]),
                         "read-set of the resumed run is larger than the model's load()")
        j = _judge(cfg, kills_real, sc, ref)
        if j:
            ctx.counterexample(dict(cfg=cfg, kills=kills_real), *j)
    if infra:
        ctx.notes.append(f"{infra} scenario(s) skipped: worker infrastructure failure (timeout)")
        ctx.stat("skipped-infra", infra)
        if infra * 5 > len(jobs):
            from core import leanrun
            raise leanrun.InfraError("too many worker failures")
    ctx.extra["crash_points_model"] = nfine + 1
    ctx.extra["crash_points_run"] = len(scen)
    ctx.extra["exhaustive"] = bool(not ctx.quick)


def search(ctx):
    """targeted: the witness of inplace_not_crash_safe — kill right after the truncating open of last.pkl / inside the dump"""
    cfg = dict(n=2, seed=0, n_samples=1, sample_mode="nonlinear_resample", r0=False)
    ref = _reference(cfg)
    for k, ev in enumerate(ref["ops"]):
        if ev["op"] == "write" and ev["path"].startswith("last.pkl"):
            for kill in (dict(at=k, when="before"), dict(at=k, when="partial", frac=[1, 2])):
                case = dict(cfg=cfg, kills=[kill])
                r = oracle(case)
                if r:
                    ctx.counterexample(case, *r)
                    return
