"""C03 — Nonlinear operator values and Jacobians are exact derivatives (DESIGN.md §5 C03, design.d/C03.md)."""
import contextlib
import io

import numpy as np

from translators import t2_pointwise
from core.ctx import REPO
from . import _c03_expr as X
from . import _c03_aux as AUX
from . import _c03_aux2 as AUX2

ID = "C03"
LEAN_MODULES = ["NiftyVerif.Core.Proto", "NiftyVerif.Model.Expr", "NiftyVerif.Model.ExprIO", "NiftyVerif.Props.C03Ptw", "NiftyVerif.Props.C03Sinc", "NiftyVerif.Props.C03", "NiftyVerif.Props.C03Adj", "NiftyVerif.Props.C03Complex", "NiftyVerif.Model.Cplx"]
DRIVER = "Driver/C03.lean"
TRANSLATORS = [t2_pointwise.translate]
_PTW = ["sqrt", "sin", "cos", "tan", "exp", "expm1", "log", "log10", "log1p", "sinh", "cosh", "tanh", "sigmoid",
        "reciprocal", "arctan", "power", "exponentiate", "abs", "absolute", "sign", "unitstep", "clip_below",
        "clip_inside", "clip_above", "softplus_low", "softplus_mid", "softplus_high", "sinc"]
OBLIGATIONS = (["NiftyVerif.C03.ptw_hval_eq_val"] + ["NiftyVerif.C03.ptw_hasDerivAt_" + n for n in _PTW]
               + ["NiftyVerif.C03.ptw_hasDerivAt_sinc_zero", "NiftyVerif.C03.ptw_hasDerivAt_sinc_all", "NiftyVerif.C03.ptw_kink_abs", "NiftyVerif.C03.ptw_kink_clip", "NiftyVerif.C03.ptw_kink_sinc",
                  "NiftyVerif.C03.ptw_table_hasDerivAt", "NiftyVerif.C03.lin_val", "NiftyVerif.C03.lin_hasDerivAt",
                  "NiftyVerif.C03.metric_carried", "NiftyVerif.C03.metric_gauss", "NiftyVerif.C03.metric_sum",
                  "NiftyVerif.C03.metric_sum_none", "NiftyVerif.C03.metric_scale", "NiftyVerif.C03.jac_adjoint",
                  "NiftyVerif.C03.ptw_table_hasDerivAt_c", "NiftyVerif.C03.lin_hasDerivAt_c", "NiftyVerif.C03.jac_adjoint_c"])
RULE = ("(1) T2: every ptw_dict entry on a float grid over its valid range incl. kinks (value, helper value, derivative) "
        "vs the regenerated Lean definitions; (2) generated operator trees (<=16 nodes; var/add/sub/mul/scale/addc/mulc/"
        "ptw/lin/sum/vdot/getKey/putKey/chain/sqnorm/quad/gauss) over single and multi-domains, dyadic inputs, "
        "with/without want_metric, built with the REAL operators and re-evaluated with Linearization arithmetic and complex "
        "inputs; (3) auxiliary stream outside the model (Linearization.outer, MultiLinearEinsum/LinearEinsum incl. static "
        "fields, integrate) against NumPy references, and Gaussian energies with complex data on complex-valued models (complex "
        "scalings/diagonals/dense matrices, FFT, holomorphic functions): value, real-linear Jacobian, gradient, metric = J^H N J "
        "for every mechanism (Linearization, get_metric_at, transformation), Hermitian, PSD; complex inputs through real/imag/"
        "conjugate/vdot on operators and Linearization objects (real-linear Jacobian, Re<.,.> adjoint); JaxOperator/"
        "JaxLinearOperator vs NumPy twins; (4) class E: polynomial/piecewise-linear trees compared EXACTLY with the model over "
        "Rat; (5) complexified holomorphic trees vs the model over complex numbers; non-trivial = tree contains a non-linear node; "
        "distinct by canonical (tree, input, flag)")
TRUSTED_BASE = [
    "Lean 4.33 kernel + Mathlib real analysis; axioms propext/Classical.choice/Quot.sound only (audited every run)",
    "translator T2 (translators/t2_pointwise.py): element-wise reading of pointwise.py helpers; validated every run on a "
    "float grid against the Python originals",
    "NumPy's elementary functions equal the mathematical ones up to rounding (class T, 1e-9 relative)",
    "Model/Expr.lean is a hand transcription of Linearization/_OpChain/_OpProd/_OpSum/energy apply rules, tied by "
    "differential execution on generated trees (value, dense Jacobian, dense adjoint, metric)",
    "harness: generators, dense extraction by basis probing, comparison"]
ASSUMPTIONS = ["theorems over ℝ; complex (holomorphic) inputs covered by the oracle only",
               "JaxOperator derivatives are JAX's (outside the model)"]

TOL = 1e-9


@contextlib.contextmanager
def quiet():
    with contextlib.redirect_stdout(io.StringIO()):
        yield


def names_meta():
    return t2_pointwise.table_meta(REPO)


# ------------------------------------------------------------------------------------------------- T2 validation
def ptw_grid(name, rng):
    """argument grid (valid range, includes the kinks) and parameter lists for one table entry"""
    base = [k / 8 for k in range(-24, 25)] + [rng.uniform(-3, 3) for _ in range(12)]
    pos = [v for v in base if v > 0] + [1e-3, 7.5, 20.0]
    P = [[]]
    if name in ("sqrt", "log", "log10"):
        g = pos
    elif name == "log1p":
        g = [v for v in base if v > -0.95]
    elif name == "power":
        g = pos
        P = [[e] for e in (-1.5, -1.0, 0.5, 1.0, 2.0, 3.0, 2.5)]
    elif name == "exponentiate":
        g = base
        P = [[b] for b in (0.5, 1.5, 2.0, 10.0)]
    elif name == "clip":
        g = base
        P = [[-1.0, 1.0], [0.0, 0.5], [-2.5, -0.125]]
    elif name == "softplus":
        g = base + [-40.0, -33.5, -33.0, -32.5, 32.5, 33.0, 33.5, 40.0]
    elif name == "tan":
        g = [v for v in base if abs(np.cos(v)) > 1e-3]
    elif name == "reciprocal":
        g = [v for v in base if v != 0]
    else:
        g = base
    return g, P


def run_ptw(ctx, names, meta):
    from nifty.cl.pointwise import ptw_dict
    reqs, info = [], []
    for n in names:
        g, P = ptw_grid(n, ctx.rng)
        for p in P:
            if len(p) != len(meta[n]["params"]):
                ctx.broke("translator", "T2", f"arity of {n} changed: {meta[n]['params']}")
                continue
            reqs.append(dict(op="ptw", f=n, p=X.enc(p), v=X.enc(g)))
            info.append((n, p, g))
    return reqs, info


CPTW = ["sin", "cos", "exp", "expm1", "sinh", "cosh", "tanh", "sigmoid", "reciprocal", "sqrt", "log", "log10", "log1p",
        "power", "exponentiate", "tan", "arctan"]


def cplx_grid(name, rng):
    """complex arguments inside the principal-branch domain of a holomorphic table entry (away from cuts and poles)"""
    re = [k / 4 for k in range(-8, 9)] + [rng.uniform(-2, 2) for _ in range(6)]
    im = [-0.75, -0.25, 0.0, 0.125, 0.5, 0.875]
    z = [complex(a, b) for a in re for b in im]
    if name in ("sqrt", "log", "log10", "power"):
        z = [w for w in z if w.real > 0.1]
    elif name == "log1p":
        z = [w for w in z if w.real > -0.8]
    elif name == "reciprocal":
        z = [w for w in z if abs(w) > 0.2]
    elif name == "tan":
        z = [w for w in z if abs(np.cos(w)) > 0.2]
    elif name in ("tanh", "sigmoid"):
        z = [w for w in z if abs(np.cosh(w)) > 0.2]
    elif name == "arctan":
        z = [w for w in z if abs(w.imag) < 0.9]
    P = {"power": [[1.5], [-0.5], [2.0]], "exponentiate": [[0.5], [2.0]]}.get(name, [[]])
    return z, P


def run_ptw_complex(ctx, names):
    """T2 on complex arguments: the generated definitions over `Cplx` vs ptw_dict on complex arrays"""
    reqs, info = [], []
    cb = lambda w: [X.f2b(complex(w).real), X.f2b(complex(w).imag)]
    for n in CPTW:
        if n not in names:
            continue
        z, P = cplx_grid(n, ctx.rng)
        for p in P:
            reqs.append(dict(op="ptwc", f=n, p=[cb(q) for q in p], v=[cb(w) for w in z]))
            info.append((n, p, z))
    return reqs, info


def finish_ptw_complex(ctx, info, outs):
    from nifty.cl.pointwise import ptw_dict
    for (n, p, z), m in zip(info, outs):
        case = dict(op="ptwc", f=n, p=p)
        ctx.stat("ptwc:" + n)
        ctx.case(case, nontrivial=True)
        v = np.array(z, dtype=np.complex128)
        try:
            with np.errstate(all="ignore"):
                val = np.asarray(ptw_dict[n][0](v.copy(), *p), dtype=np.complex128)
                hval, der = ptw_dict[n][1](v.copy(), *p)
        except Exception as e:
            ctx.disagree(case, {"error": type(e).__name__}, "values", note="T2 complex ptw table")
            continue
        if "error" in m:
            ctx.disagree(case, "values", m, note="T2 complex ptw table")
            continue
        for key, a in (("val", val), ("hval", np.asarray(hval, dtype=np.complex128)), ("der", np.asarray(der, dtype=np.complex128) + 0 * v)):
            b = X.decc(m[key])
            err = np.abs(a - b)
            tol = 1e-10 * (1 + np.abs(b))
            if np.any(~(err <= tol)):
                i = int(np.argmax(np.where(np.isnan(err), np.inf, err - tol)))
                ctx.disagree(dict(case, kind="ptwc"), f"{key}: at z={z[i]}: impl {a[i]!r} model {b[i]!r}",
                             "generated Lean definition over Cplx", note=f"T2 complex ptw table entry {n}")
                break


def finish_ptw(ctx, info, outs):
    from nifty.cl.pointwise import ptw_dict
    for (n, p, g), m in zip(info, outs):
        case = dict(op="ptw", f=n, p=p)
        ctx.stat("ptw:" + n)
        v = np.array(g, dtype=np.float64)
        try:
            with np.errstate(all="ignore"):
                val = np.asarray(ptw_dict[n][0](v.copy(), *p), dtype=np.float64)
                hval, der = ptw_dict[n][1](v.copy(), *p)
            impl = dict(val=val, hval=np.asarray(hval, dtype=np.float64), der=np.asarray(der, dtype=np.float64) + 0 * v)
        except Exception as e:
            ctx.compare(case, {"error": type(e).__name__}, m, note="T2 ptw table")
            continue
        if "error" in m:
            ctx.compare(case, "values", m, note="T2 ptw table")
            continue
        bad = None
        for key in ("val", "hval", "der"):
            a, b = impl[key], X.dec(m[key])
            nan_a, nan_b = np.isnan(a), np.isnan(b)
            if not np.array_equal(nan_a, nan_b):
                i = int(np.argmax(nan_a != nan_b))
                bad = f"{key}: NaN pattern differs at v={g[i]}: impl {a[i]} model {b[i]}"
                break
            ok = ~nan_a
            err = np.abs(a[ok] - b[ok])
            tol = 1e-11 * (1 + np.abs(b[ok]))
            if np.any(err > tol):
                i = int(np.argmax(err - tol))
                bad = f"{key}: at v={np.array(g)[ok][i]}: impl {a[ok][i]!r} model {b[ok][i]!r}"
                break
        ctx.case(case, nontrivial=True)
        if bad:
            ctx.disagree(dict(case, kind="ptw"), bad, "generated Lean definition", note=f"T2 ptw table entry {n}")


def ptw_oracle(n, p, grid):
    """derivative table entry vs central differences of the table's own value function (real code only)"""
    from nifty.cl.pointwise import ptw_dict
    v = np.array(grid, dtype=np.float64)
    with np.errstate(all="ignore"):
        hval, der = ptw_dict[n][1](v.copy(), *p)
        val = ptw_dict[n][0](v.copy(), *p)
        h = 1e-5
        f = lambda z: np.asarray(ptw_dict[n][0](z, *p), dtype=np.float64)
        d1 = (f(v + h) - f(v - h)) / (2 * h)
        d2 = (f(v + h / 2) - f(v - h / 2)) / h
        fd = (4 * d2 - d1) / 3
    der = np.asarray(der, dtype=np.float64) + 0 * v
    ok = np.isfinite(fd) & np.isfinite(der)
    if np.any(np.abs(np.asarray(hval) - np.asarray(val))[np.isfinite(val)] > 1e-12 * (1 + np.abs(val[np.isfinite(val)]))):
        return (f"ptw '{n}': helper value differs from plain value", {"site": "ptw_dict", "f": n, "kind": "value"})
    err = np.abs(fd - der)[ok]
    tol = 1e-6 * (1 + np.abs(fd[ok]) + np.abs(der[ok]))
    if np.any(err > tol):
        i = int(np.argmax(err - tol))
        return (f"ptw '{n}'{p}: derivative {der[ok][i]} but finite differences give {fd[ok][i]} at v={v[ok][i]}",
                {"site": "ptw_dict", "f": n, "kind": "derivative"})
    return None


def safe_grid(n, g, p):
    """drop points within 1e-3 of a kink / pole for the finite-difference oracle"""
    kinks = {"abs": [0.0], "absolute": [0.0], "sign": [0.0], "unitstep": [0.0], "softplus": [-33.0, 33.0],
             "reciprocal": [0.0], "sinc": []}.get(n, [])
    if n == "clip":
        kinks = list(p)
    return [v for v in g if all(abs(v - k) > 1e-3 for k in kinks)]


# ------------------------------------------------------------------------------------------------- trees
def err_site(e):
    """innermost frame inside the library: 'file.py:function' (part of the finding signature)"""
    import traceback
    site = "?"
    for fr in traceback.extract_tb(e.__traceback__):
        if "/nifty/" in fr.filename:
            site = fr.filename.split("/nifty/")[-1] + ":" + fr.name
    return site


def real_eval(case):
    """real code, operator-tree mode: dict(val, pval, jac, adj, metric, din) or {"error": kind}"""
    try:
        with quiet():
            b = X.Builder(case["indom"], case.get("space", "U"))
            op = b.build(case["expr"])
            return X.linearize(b, op, X.dom(case["expr"]), {k: np.array(v) for k, v in case["x"].items()}, case["wm"]), b, op
    except Exception as e:
        return {"error": type(e).__name__, "msg": str(e)[:200], "where": err_site(e)}, None, None


def arith_eval(case):
    """real code, Linearization-arithmetic mode (deterministic choice of operator spellings per case)"""
    import random
    from core.ctx import canon
    try:
        with quiet():
            b = X.Builder(case["indom"], case.get("space", "U"))
            rng = random.Random(canon(case))
            return X.linearize_arith(b, case["expr"], {k: np.array(v) for k, v in case["x"].items()}, case["wm"], rng)
    except Exception as e:
        return {"error": type(e).__name__, "msg": str(e)[:200], "where": err_site(e)}


def model_request(case, din):
    return dict(op="lin", **{"in": [[k, n] for k, n in X.flat_dom(din)]},
                x={k: X.enc(case["x"][k]) for k in din}, wm=case["wm"], expr=X.ship(case["expr"]))


def close(a, b, tol=TOL):
    a, b = np.asarray(a, dtype=np.float64), np.asarray(b, dtype=np.float64)
    if a.shape != b.shape:
        return False
    if a.size == 0:
        return True
    if not np.array_equal(np.isnan(a), np.isnan(b)):
        return False
    m = ~np.isnan(a)
    scale = max(1.0, float(np.max(np.abs(b[m]))) if np.any(m) else 1.0)
    return bool(np.all(np.abs(a[m] - b[m]) <= tol * scale))


def compare_arith(ctx, case, r, r2, m):
    """model vs Linearization arithmetic: value, dense Jacobian and adjoint over the full environment"""
    if "error" in r or "error" in m or "error" in r2:
        return          # errors are examined by the oracle
    din, dall = r["din"], r2["din"]
    nin, nout = X.nflat(din), X.nflat(X.dom(case["expr"]))
    mj = embed_cols(X.dec2(m["jac"], nout).T if nin else np.zeros((nout, 0)), din, dall)
    ma = embed_cols((X.dec2(m["adj"], nin).T if nout else np.zeros((nin, 0))).T, din, dall).T
    diffs = []
    if not close(r2["val"], X.dec(m["val"])):
        diffs.append("value")
    if not close(r2["jac"], mj):
        diffs.append("jacobian")
    if not close(r2["adj"], ma):
        diffs.append("adjoint")
    if diffs:
        ctx.disagree(case, "Linearization arithmetic: " + ", ".join(diffs) + " differ", "model",
                     note="Linearization arithmetic: " + ", ".join(diffs))


def compare_tree(ctx, case, r, m):
    """model vs real: value (plain and linearised), dense Jacobian, dense adjoint, metric presence and entries"""
    nontriv = any(n["t"] in ("ptw", "mul", "vdot", "sqnorm", "quad", "gauss", "bil", "varcov") for n in X.nodes(case["expr"]))
    ctx.case(case, nontrivial=nontriv)
    if "error" in r or "error" in m:
        if not ("error" in r and "error" in m):
            ctx.disagree(case, r if "error" in r else "values", m if "error" in m else "values", "tree: error vs value")
        return
    din = r["din"]
    nin, nout = X.nflat(din), X.nflat(X.dom(case["expr"]))
    diffs = []
    if not close(r["pval"], X.dec(m["pval"])):
        diffs.append("plain value")
    if not close(r["val"], X.dec(m["val"])):
        diffs.append("linearised value")
    mj = X.dec2(m["jac"], nout).T if nin else np.zeros((nout, 0))
    if not close(r["jac"], mj):
        diffs.append("jacobian")
    ma = X.dec2(m["adj"], nin).T if nout else np.zeros((nin, 0))
    if not close(r["adj"], ma):
        diffs.append("adjoint")
    if (r["metric"] is None) != (m["metric"] is None):
        diffs.append("metric presence")
    elif r["metric"] is not None:
        if not close(r["metric"], X.dec2(m["metric"], nin).T):
            diffs.append("metric")
    if diffs:
        ctx.disagree(case, "real: " + ", ".join(diffs) + " differ", "model", note="expression tree: " + ", ".join(diffs))


def compare_exact(ctx, case, r, m):
    """class E: every float of the real result must EQUAL the model's exact rational (value, Jacobian, adjoint, metric)"""
    from fractions import Fraction
    if "error" in r or "error" in m:
        if "error" in m:
            ctx.disagree(case, "values", m, "class E: model rejects the tree")
        return
    din = r["din"]
    nin, nout = X.nflat(din), X.nflat(X.dom(case["expr"]))
    F = lambda a: [Fraction(float(v)) for v in np.asarray(a, dtype=np.float64).ravel()]
    Q = lambda l: [Fraction(v) for v in l]
    diffs = []
    if F(r["pval"]) != Q(m["pval"]) or F(r["val"]) != Q(m["val"]):
        diffs.append("value")
    if F(np.asarray(r["jac"]).T) != [q for row in m["jac"] for q in Q(row)]:
        diffs.append("jacobian")
    if F(np.asarray(r["adj"]).T) != [q for row in m["adj"] for q in Q(row)]:
        diffs.append("adjoint")
    if (r["metric"] is None) != (m["metric"] is None):
        diffs.append("metric presence")
    elif r["metric"] is not None and case.get("_metric_exact") and F(np.asarray(r["metric"]).T) != [q for row in m["metric"] for q in Q(row)]:
        diffs.append("metric")
    if diffs:
        ctx.disagree(case, "real (exact comparison): " + ", ".join(diffs) + " differ", "model (rational)",
                     note="class E exact comparison: " + ", ".join(diffs))


def expected_metric(b, t, x, din):
    """metric the property demands, from REAL Jacobians of the sub-operators: JᵀNJ at energies, sums add, chains sandwich"""
    k = t["t"]
    if k == "gauss":
        with quiet():
            a = b.build(t["a"])
            da = X.op_indom(b, a)
            r = X.linearize(b, a, X.dom(t["a"]), x, False)
        J = embed_cols(r["jac"], da, din)
        return J.T @ np.diag(np.array(t["icov"])) @ J
    if k == "varcov":
        with quiet():
            parts = []
            for sub in (t["a"], t["b"]):
                o = b.build(sub)
                r = X.linearize(b, o, X.dom(sub), x, False)
                parts.append((embed_cols(r["jac"], X.op_indom(b, o), din), r["val"]))
        (Ja, _), (Jb, vb) = parts
        return Ja.T @ np.diag(vb) @ Ja + Jb.T @ np.diag(0.5 / vb ** 2) @ Jb
    if k == "add":
        ma, mb = expected_metric(b, t["a"], x, din), expected_metric(b, t["b"], x, din)
        return None if (ma is None or mb is None) else ma + mb
    if k == "scale" and t["c"] >= 0:
        ma = expected_metric(b, t["a"], x, din)
        return None if ma is None else t["c"] * ma
    if k == "chain":
        with quiet():
            g = b.build(t["g"])
            dg = X.op_indom(b, g)
            rg = X.linearize(b, g, X.dom(t["g"]), x, False)
        gd = X.dom(t["g"])
        x2, o = {}, 0
        for key, n in X.flat_dom(gd):
            x2[key] = rg["val"][o:o + X.nent(n)]
            o += X.nent(n)
        inner = X.Builder(gd, b.space)
        mf = expected_metric(inner, t["f"], x2, gd)
        if mf is None:
            return None
        Jg = embed_cols(rg["jac"], dg, din)
        return Jg.T @ mf @ Jg
    return None


def embed_cols(J, dsub, dall):
    """columns of a Jacobian w.r.t. a sub-domain placed into the full input domain (zero elsewhere)"""
    out = np.zeros((J.shape[0], X.nflat(dall)))
    offs, o = {}, 0
    for k, n in X.flat_dom(dall):
        offs[k] = o
        o += X.nent(n)
    o = 0
    for k, n in X.flat_dom(dsub):
        out[:, offs[k]:offs[k] + X.nent(n)] = J[:, o:o + X.nent(n)]
        o += X.nent(n)
    return out


def oracle(case):
    """the property on the REAL code only"""
    if case.get("aux") in ("creal", "jaxop", "mlin"):
        return AUX2.oracle(case)
    if "aux" in case:
        return AUX.oracle(case)
    if case.get("complex"):
        cc, r = complex_real(case)
        sigc = {"site": "complex-model"}
        if "error" in r:
            return (f"complex constants/input: raised {r['error']} in {r.get('where')}", dict(sigc, kind="error:" + r["error"], where=r.get("where")))
        if not cclose(r["val"], r["pval"], 1e-12):
            return ("complex constants/input: value on a Linearization differs from plain evaluation", dict(sigc, kind="value"))
        if not cclose(r["adj"], r["jac"].conj().T, 1e-12):
            return ("complex constants/input: adjoint Jacobian is not the conjugate transpose", dict(sigc, kind="adjoint"))
        return None
    if case.get("kind") == "ptw" or case.get("op") == "ptw":
        names, meta = names_meta()
        g, P = ptw_grid(case["f"], __import__("random").Random(0))
        p = case.get("p", [])
        return ptw_oracle(case["f"], p, safe_grid(case["f"], g, p))
    r, b, op = real_eval(case)
    sig = {"site": "operator-tree"}
    if "error" in r:
        return (f"building/evaluating the operator raised {r['error']} in {r.get('where')}: {r.get('msg', '')}",
                dict(sig, kind="error:" + r["error"], where=r.get("where")))
    x = {k: np.array(v) for k, v in case["x"].items()}
    tdom = X.dom(case["expr"])
    if not close(r["val"], r["pval"], 1e-12):
        return ("value on a Linearization differs from plain evaluation", dict(sig, kind="value"))
    with quiet():
        J = X.fd_jac(b, op, tdom, x)
    if not close(r["jac"], J, 2e-6):
        # a genuine error persists under a 10x smaller step; a finite-difference stencil straddling a kink/pole does not
        with quiet():
            J2 = X.fd_jac(b, op, tdom, x, rel=1e-5)
        if not close(r["jac"], J2, 2e-5):
            return (f"Jacobian differs from finite differences of the operator (max dev "
                    f"{np.max(np.abs(r['jac'] - J2)):.3g})", dict(sig, kind="jacobian"))
        J = J2
    if not close(r["adj"], r["jac"].T, 1e-12):
        return ("adjoint Jacobian is not the transpose of the Jacobian", dict(sig, kind="adjoint"))
    if not case["wm"]:
        if r["metric"] is not None:
            return ("a metric was produced although want_metric is False", dict(sig, kind="metric-unwanted"))
    else:
        with quiet():
            em = expected_metric(b, case["expr"], x, r["din"])
        if em is not None:
            if r["metric"] is None:
                return ("the requested metric was not carried through", dict(sig, kind="metric-missing"))
            if not close(r["metric"], em, 1e-10):
                return ("the metric is not JᵀNJ of the energies", dict(sig, kind="metric"))
        if r["metric"] is not None and not close(r["metric"], r["metric"].T, 1e-12):
            return ("metric is not symmetric", dict(sig, kind="metric-symmetry"))
    # the same expression evaluated with the arithmetic of Linearization objects
    r2 = arith_eval(case)
    sig2 = dict(sig, site="linearization-arithmetic")
    if "error" in r2:
        return (f"Linearization arithmetic raised {r2['error']} in {r2.get('where')}: {r2.get('msg', '')}",
                dict(sig2, kind="error:" + r2["error"], where=r2.get("where")))
    if not close(r2["val"], r["pval"], 1e-12):
        return ("Linearization arithmetic: value differs from plain evaluation", dict(sig2, kind="value"))
    if not close(r2["jac"], embed_cols(J, r["din"], r2["din"]), 2e-6):
        return ("Linearization arithmetic: Jacobian differs from finite differences", dict(sig2, kind="jacobian"))
    if not close(r2["adj"], r2["jac"].T, 1e-12):
        return ("Linearization arithmetic: adjoint Jacobian is not the transpose", dict(sig2, kind="adjoint"))
    return complex_oracle(case)


HOLO_PTW = {"sin", "cos", "exp", "expm1", "sinh", "cosh", "tanh", "sigmoid", "reciprocal", "sqrt", "log", "log10",
            "log1p", "power", "exponentiate", "tan", "arctan"}
HOLO_NODES = {"var", "add", "sub", "mul", "scale", "addc", "mulc", "ptw", "lin", "sum", "getKey", "putKey", "chain", "bil"}


def holomorphic(t):
    return all(n["t"] in HOLO_NODES and (n["t"] != "ptw" or n["f"] in HOLO_PTW) for n in X.nodes(t))


def complex_oracle(case):
    """complex inputs (holomorphic trees only): value on a linearization = plain value, the Jacobian is complex-linear and
    equals complex finite differences, its adjoint is the CONJUGATE transpose.  Real code only."""
    import random
    from core.ctx import canon
    if not holomorphic(case["expr"]):
        return None
    rng = random.Random(canon(case) + "c")
    sig = {"site": "complex-input"}
    try:
        with quiet(), np.errstate(all="ignore"):
            import nifty.cl as ift
            b = X.Builder(case["indom"], case.get("space", "U"))
            op = b.build(case["expr"])
            din, tdom = X.op_indom(b, op), X.dom(case["expr"])
            x0 = np.concatenate([np.asarray(case["x"][k], dtype=np.float64) for k, _ in X.flat_dom(din)])
            z0 = x0 + 1j * np.array([rng.randint(-2, 2) / 32 for _ in x0])
            p = X.from_flat(b, z0, din, np.complex128)
            lin = op(ift.Linearization.make_var(p, False))
            val, pval = X.to_flat(lin.val, tdom), X.to_flat(op(p), tdom)
            J = X.dense(lin.jac, b, din, tdom, np.complex128)
            Ji = X.dense(lambda f: lin.jac(f), b, din, tdom, np.complex128)
            A = X.dense(lin.jac.adjoint_times, b, tdom, din, np.complex128)
            # complex-linearity: J(i e_j) = i J(e_j)
            Jim = np.zeros_like(J)
            for j in range(J.shape[1]):
                e = np.zeros(J.shape[1], dtype=np.complex128)
                e[j] = 1j
                Jim[:, j] = X.to_flat(lin.jac(X.from_flat(b, e, din, np.complex128)), tdom)
            f = lambda z: X.to_flat(op(X.from_flat(b, z, din, np.complex128)), tdom)
            FD = np.zeros_like(J)
            for j in range(J.shape[1]):
                h = 1e-4
                e = np.zeros(J.shape[1], dtype=np.complex128)
                e[j] = h
                d1 = (f(z0 + e) - f(z0 - e)) / (2 * h)
                d2 = (f(z0 + e / 2) - f(z0 - e / 2)) / h
                FD[:, j] = (4 * d2 - d1) / 3
    except Exception as e:
        return (f"complex input: raised {type(e).__name__} in {err_site(e)}: {str(e)[:120]}",
                dict(sig, kind="error:" + type(e).__name__, where=err_site(e)))
    if not np.all(np.isfinite(pval)) or not np.all(np.isfinite(FD)) or np.max(np.abs(FD), initial=0) > 1e4:
        return None     # left the valid range by the imaginary shift: not a statement about the property
    cl = lambda a, c, tol: bool(np.all(np.abs(a - c) <= tol * max(1.0, float(np.max(np.abs(c), initial=0)))))
    if not cl(val, pval, 1e-12):
        return ("complex input: value on a Linearization differs from plain evaluation", dict(sig, kind="value"))
    if not cl(J, FD, 5e-6):
        return ("complex input: Jacobian differs from complex finite differences", dict(sig, kind="jacobian"))
    if not cl(Jim, 1j * J, 1e-12):
        return ("complex input: Jacobian is not complex-linear", dict(sig, kind="linearity"))
    if not cl(A, J.conj().T, 1e-12):
        return ("complex input: adjoint Jacobian is not the conjugate transpose", dict(sig, kind="adjoint"))
    return None


def complex_real(case):
    """REAL code on a complexified holomorphic tree at a complex input: value, dense Jacobian, dense adjoint"""
    import random
    from core.ctx import canon
    rng = random.Random(canon({k: v for k, v in case.items() if k != "complex"}) + "cm")
    cc = case if case.get("complex") else dict(case, expr=X.complexify(case["expr"], rng))
    try:
        with quiet(), np.errstate(all="ignore"):
            import nifty.cl as ift
            b = X.Builder(cc["indom"], cc.get("space", "U"))
            op = b.build(cc["expr"])
            din, tdom = X.op_indom(b, op), X.dom(cc["expr"])
            x0 = np.concatenate([np.asarray(cc["x"][k], dtype=np.float64) for k, _ in X.flat_dom(din)])
            z0 = x0 + 1j * np.array([rng.randint(-2, 2) / 32 for _ in x0])
            p = X.from_flat(b, z0, din, np.complex128)
            lin = op(ift.Linearization.make_var(p, False))
            res = dict(val=X.to_flat(lin.val, tdom), pval=X.to_flat(op(p), tdom),
                       jac=X.dense(lin.jac, b, din, tdom, np.complex128),
                       adj=X.dense(lin.jac.adjoint_times, b, tdom, din, np.complex128), din=din, z0=z0)
    except Exception as e:
        return cc, {"error": type(e).__name__, "msg": str(e)[:160], "where": err_site(e)}
    return cc, res


def cclose(a, b, tol=TOL):
    a, b = np.asarray(a, dtype=np.complex128), np.asarray(b, dtype=np.complex128)
    if a.shape != b.shape:
        return False
    if a.size == 0:
        return True
    return bool(np.all(np.abs(a - b) <= tol * max(1.0, float(np.max(np.abs(b))))))


def run_complex_model(ctx, cases):
    """complex mode of the model (driver op linc) vs the real code on complexified holomorphic trees: real side + requests"""
    todo = []
    for c in cases:
        if not holomorphic(c["expr"]):
            continue
        cc, r = complex_real(c)
        if "error" in r:
            ctx.stat("complex-model:real-error:" + r["error"])
            ctx.counterexample(dict(cc, complex=True), f"complex constants/input: raised {r['error']} in {r.get('where')}: {r.get('msg')}",
                               {"site": "complex-model", "kind": "error:" + r["error"], "where": r.get("where")})
            continue
        if not (np.all(np.isfinite(r["pval"])) and np.all(np.isfinite(r["jac"])) and np.max(np.abs(r["jac"]), initial=0) < 1e4
                and np.max(np.abs(r["pval"]), initial=0) < 1e4):
            ctx.stat("complex-model:left-range")
            continue
        din = r["din"]
        z, o, xs = r["z0"], 0, {}
        for k, n in X.flat_dom(din):
            xs[k] = [[X.f2b(v.real), X.f2b(v.imag)] for v in z[o:o + X.nent(n)]]
            o += X.nent(n)
        todo.append((cc, r, dict(op="linc", **{"in": [[k, n] for k, n in X.flat_dom(din)]}, x=xs, expr=X.ship_c(cc["expr"]))))
    return todo


def finish_complex_model(ctx, todo, outs):
    for (cc, r, _), m in zip(todo, outs):
        ctx.stat("complex-model")
        case = dict(cc, complex=True)
        ctx.case(case, nontrivial=True)
        if "error" in m:
            ctx.disagree(case, "values", m, "complex model: model rejects the tree")
            continue
        nin, nout = X.nflat(r["din"]), X.nflat(X.dom(cc["expr"]))
        diffs = []
        if not cclose(r["pval"], X.decc(m["pval"])) or not cclose(r["val"], X.decc(m["val"])):
            diffs.append("value")
        mj = np.array([X.decc(row) for row in m["jac"]]).reshape(nin, nout).T if nin and nout else np.zeros((nout, nin))
        ma = np.array([X.decc(row) for row in m["adj"]]).reshape(nout, nin).T if nin and nout else np.zeros((nin, nout))
        if not cclose(r["jac"], mj):
            diffs.append("jacobian")
        if not cclose(r["adj"], ma):
            diffs.append("adjoint")
        if diffs:
            ctx.disagree(case, "real (complex): " + ", ".join(diffs) + " differ", "model (complex)",
                         note="complex model: " + ", ".join(diffs))
            if not cclose(r["adj"], r["jac"].conj().T, 1e-12):
                ctx.counterexample(case, "complex constants/input: adjoint Jacobian is not the conjugate transpose",
                                   {"site": "complex-model", "kind": "adjoint"})


def shrink(case):
    if case.get("aux") == "cmetric":
        for i in range(len(case["steps"])):
            if len(case["steps"]) > 1:
                yield dict(case, steps=case["steps"][:i] + case["steps"][i + 1:])
        if case.get("scale_lh") is not None:
            yield dict(case, scale_lh=None)
        return
    if "aux" in case:
        for key in ("xa", "xb", "x"):
            if key in case and len(case[key]) > 1:
                yield dict(case, **{key: case[key][:-1]})
        return
    if "expr" not in case:
        return
    t = case["expr"]

    def subtrees(t):
        # a subtree is a valid case over the same environment unless it lives under a chain's `f`
        for c in ([t["g"]] if t["t"] == "chain" else X.children(t)):
            yield c
            yield from subtrees(c)
    seen = 0
    for s in subtrees(t):
        if seen > 40:
            break
        seen += 1
        yield dict(case, expr=s)
    if case.get("wm"):
        yield dict(case, wm=False)


# ------------------------------------------------------------------------------------------------- run
def run(ctx):
    names, meta = names_meta()
    preqs, pinfo = run_ptw(ctx, names, meta)
    for n in names:
        g, P = ptw_grid(n, ctx.rng)
        for p in P:
            if len(p) != len(meta[n]["params"]):
                continue
            r = ptw_oracle(n, p, safe_grid(n, g, p))
            if r:
                ctx.counterexample(dict(kind="ptw", f=n, p=p), *r)
    gen = X.Gen(ctx.rng, names)
    if gen.unknown:
        ctx.notes.append(f"table entries without a generator rule (not used in trees): {gen.unknown}")
    cases = []
    import glob, json, os
    from core.ctx import VERIF
    aux = []
    for pth in sorted(glob.glob(os.path.join(VERIF, "corpus", ID, "*.json"))):
        c = json.load(open(pth))["case"]
        if c.get("complex"):
            ctx.case(c, nontrivial=True)
            res = oracle(c)
            if res:
                ctx.counterexample(c, *res)
            continue
        (aux if "aux" in c else cases).append(c)
    # anchored mechanisms outside the Lean model (Linearization.outer, einsum.py, integrate): oracle on the real code
    aux += AUX.gen(ctx.rng, ctx.n(120, 800))
    aux += AUX.gen_cmetric(ctx.rng, ctx.n(70, 600))
    aux += AUX2.gen_creal(ctx.rng, ctx.n(70, 600)) + AUX2.gen_jaxop(ctx.rng, ctx.n(10, 60)) + AUX2.gen_mlin(ctx.rng, ctx.n(40, 400))
    for c in aux:
        ctx.stat("aux:" + c["aux"])
        ctx.case(c, nontrivial=True)
        res = oracle(c)
        if res:
            ctx.counterexample(c, *res)
    ntree = ctx.n(220, 1500)
    while len(cases) < ntree:
        cases.append(gen.case(max_nodes=ctx.n(16, 20)))
    reals, reqs, idx = [], [], []
    for i, c in enumerate(cases):
        r, b, op = real_eval(c)
        reals.append(r)
        for n in X.nodes(c["expr"]):
            ctx.stat("node:" + n["t"])
        ctx.stat("env:" + ("single" if list(c["indom"]) == [""] else "multi"))
        ctx.stat("wm:" + str(c["wm"]))
        if "error" in r:
            ctx.stat("real-error:" + r["error"])
            din = c["indom"]
        else:
            din = r["din"]
            ctx.stat("metric:" + ("some" if r["metric"] is not None else "none"))
        reqs.append(model_request(c, din))
    # class E: polynomial / piecewise-linear trees at dyadic inputs are additionally compared EXACTLY with the rational model
    exact = []
    for c, r in zip(cases, reals):
        bits = X.exact_bits(c["expr"])
        if bits is not None and bits <= 48 and "error" not in r:
            c2 = dict(c, _metric_exact=2 * bits + 10 <= 52)
            exact.append((c2, r, dict(op="linq", **{"in": [[k, n] for k, n in X.flat_dom(r["din"])]},
                                      x={k: [str(__import__("fractions").Fraction(float(v))) for v in c["x"][k]] for k in r["din"]},
                                      wm=c["wm"], expr=X.ship_q(c["expr"]))))
    ctx.stat("class-E-trees", len(exact))
    ctodo = run_complex_model(ctx, cases)
    outs = []
    B = 1200
    pcreqs, pcinfo = run_ptw_complex(ctx, names)
    allreq = reqs + [e[2] for e in exact] + [t[2] for t in ctodo] + preqs + pcreqs
    for i in range(0, len(allreq), B):
        outs += ctx.model(DRIVER, allreq[i:i + B])
    finish_ptw(ctx, pinfo, outs[len(allreq) - len(preqs) - len(pcreqs):len(allreq) - len(pcreqs)])
    finish_ptw_complex(ctx, pcinfo, outs[len(allreq) - len(pcreqs):])
    for (c2, r, _), m in zip(exact, outs[len(reqs):len(reqs) + len(exact)]):
        compare_exact(ctx, {k: v for k, v in c2.items()}, r, m)
    finish_complex_model(ctx, ctodo, outs[len(reqs) + len(exact):])
    outs = outs[:len(reqs)]
    for c, r, m in zip(cases, reals, outs):
        compare_tree(ctx, c, r, m)
        compare_arith(ctx, c, r, arith_eval(c), m)
        res = oracle(c)
        if holomorphic(c["expr"]):
            ctx.stat("complex-oracle")
        if res:
            ctx.counterexample(c, *res)


def search(ctx):
    names, meta = names_meta()
    gen = X.Gen(ctx.rng, names)
    for _ in range(ctx.n(300, 3000)):
        c = gen.case()
        r = oracle(c)
        if r:
            ctx.counterexample(c, *r)
            return
