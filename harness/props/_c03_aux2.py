"""C03 auxiliary streams, round 2 (oracle on the real code only, NumPy references):
  * `creal`  — complex inputs through NON-holomorphic pieces: `.real`, `.imag`, `.conjugate()`, `vdot`, |z|^2 on operators and on
               Linearization objects (`Linearization.real/imag/conjugate/vdot`): value, real-linear Jacobian (probing e_j and
               i*e_j), adjoint w.r.t. the real inner product Re<.,.>.
  * `jaxop`  — `JaxOperator` / `JaxLinearOperator` (jax_operator.py): value, Jacobian vs finite differences of a NumPy twin,
               adjoint = (conjugate) transpose, single and multi-domain, real and complex."""
import numpy as np

HOLO = {"id": lambda z: z, "exp": np.exp, "sin": np.sin, "tanh": np.tanh, "sq": lambda z: z * z}


def gen_creal(rng, n):
    out = []
    dy = lambda: rng.randint(-8, 8) / 8
    for _ in range(n):
        m = rng.choice([1, 2, 3])
        out.append(dict(aux="creal", n=m, x=[[dy(), dy()] for _ in range(m)], f=rng.choice(sorted(HOLO)), g=rng.choice(sorted(HOLO)),
                        cut=rng.choice(["real", "imag", "conj", "vdot", "vdot_field", "abs2", "conj_mul"]),
                        post=rng.choice(["id", "exp", "tanh"]), mode=rng.choice(["operator", "linearization"]),
                        c=[dy(), dy()]))
    return out


def gen_jaxop(rng, n):
    out = []
    dy = lambda: rng.randint(-8, 8) / 8
    for _ in range(n):
        m = rng.choice([1, 2, 3])
        kind = rng.choice(["ptw", "matmul", "multi", "cplx", "linear"])
        out.append(dict(aux="jaxop", kind=kind, n=m, x=[dy() for _ in range(m)], y=[dy() for _ in range(m)],
                        a=[[dy() for _ in range(m)] for _ in range(m)], xi=[dy() / 2 for _ in range(m)]))
    return out


def _arr(f):
    v = f.val
    return np.asarray(v.asnumpy() if hasattr(v, "asnumpy") else v)


def _close(a, b, tol):
    a, b = np.asarray(a), np.asarray(b)
    return a.shape == b.shape and bool(np.all(np.abs(a - b) <= tol * max(1.0, float(np.max(np.abs(b), initial=0)))))


def oracle(case):
    from .c03 import quiet, err_site
    kind = case["aux"]
    try:
        with quiet():
            import nifty.cl as ift
            return _creal(case, ift) if kind == "creal" else (_mlin(case, ift) if kind == "mlin" else _jaxop(case, ift))
    except Exception as e:
        return (f"{kind}: raised {type(e).__name__} in {err_site(e)}: {str(e)[:140]}",
                {"site": "aux:" + kind, "kind": "error:" + type(e).__name__, "where": err_site(e)})


def _fd_real(ref, z0, dirs):
    out = []
    for h in dirs:
        t = 1e-4
        d1 = (ref(z0 + t * h) - ref(z0 - t * h)) / (2 * t)
        d2 = (ref(z0 + t / 2 * h) - ref(z0 - t / 2 * h)) / t
        out.append((4 * d2 - d1) / 3)
    return np.array(out).T


def _creal(case, ift):
    n = case["n"]
    d = ift.DomainTuple.make(ift.UnstructuredDomain(n))
    z0 = np.array([complex(a, b) for a, b in case["x"]])
    c = complex(*case["c"])
    if c.imag == 0:
        c = c.real
    f, g = HOLO[case["f"]], HOLO[case["g"]]
    post = {"id": lambda v: v, "exp": np.exp, "tanh": np.tanh}[case["post"]]

    def apply_holo(o, name):
        if name == "id":
            return o
        if name == "sq":
            return o * o
        return o.ptw(name)
    cut = case["cut"]
    if case["mode"] == "operator":
        base = ift.ScalingOperator(d, 1.)
        start = lambda: base
    else:
        lin0 = ift.Linearization.make_var(ift.makeField(d, z0))
        start = lambda: lin0
    A = apply_holo(start().scale(c) if case["mode"] == "operator" else start() * c, case["f"])
    B = apply_holo(start(), case["g"])
    if cut == "real":
        r = A.real
        ref0 = lambda z: np.real(f(c * z))
    elif cut == "imag":
        r = A.imag
        ref0 = lambda z: np.imag(f(c * z))
    elif cut == "conj":
        r = A.conjugate()
        ref0 = lambda z: np.conj(f(c * z))
    elif cut == "vdot":
        r = A.vdot(B)
        ref0 = lambda z: np.array([np.vdot(f(c * z), g(z))])
    elif cut == "vdot_field":
        fld = np.array([complex(0.5 * (k + 1), -0.25 * k) for k in range(n)])
        r = A.vdot(ift.makeField(d, fld)) if case["mode"] == "linearization" else A.vdot(ift.makeOp(ift.makeField(d, fld)) @ ift.ScalingOperator(d, 0.) .ptw("exp"))
        ref0 = lambda z: np.array([np.vdot(f(c * z), fld)])
    elif cut == "abs2":
        r = (A.conjugate() * A).real
        ref0 = lambda z: np.real(np.conj(f(c * z)) * f(c * z))
    else:
        r = A.conjugate() * B
        ref0 = lambda z: np.conj(f(c * z)) * g(z)
    if case["post"] != "id":
        r = r.ptw(case["post"])
    ref = lambda z: np.atleast_1d(post(ref0(z))).astype(complex)
    if case["mode"] == "operator":
        x = ift.makeField(d, z0)
        lin = r(ift.Linearization.make_var(x))
        pval = _arr(r(x)).ravel()
    else:
        lin = r
        pval = None
    sig = {"site": "aux:creal", "cut": cut, "mode": case["mode"]}
    val = _arr(lin.val).ravel().astype(complex)
    want = ref(z0)
    if not np.all(np.isfinite(want)) or np.max(np.abs(want)) > 1e4:
        return None
    if not _close(val, want, 1e-11) or (pval is not None and not _close(pval.astype(complex), want, 1e-11)):
        return (f"creal[{cut}/{case['mode']}]: value differs from the NumPy reference", dict(sig, kind="value"))
    dirs = [e for e in np.eye(n, dtype=complex)] + [1j * e for e in np.eye(n, dtype=complex)]
    J = np.array([_arr(lin.jac(ift.makeField(d, h))).ravel().astype(complex) for h in dirs]).T
    FD = _fd_real(ref, z0, dirs)
    if not _close(J, FD, 5e-6):
        return (f"creal[{cut}/{case['mode']}]: real-linear Jacobian differs from finite differences "
                f"(max dev {np.max(np.abs(J - FD)):.3g})", dict(sig, kind="jacobian"))
    # adjoint w.r.t. the real inner product: Re<y, J h> = Re<J^H y, h> for y = e_i and i e_i
    tgt = lin.jac.target
    m = J.shape[0]
    real_out = cut in ("real", "imag", "abs2")
    ys = ([e for e in np.eye(m)] if real_out else
          [e for e in np.eye(m, dtype=complex)] + [1j * e for e in np.eye(m, dtype=complex)])
    for y in ys:
        yy = ift.makeField(tgt, y.reshape(tgt.shape) if len(tgt.shape) else y[0])
        ay = _arr(lin.jac.adjoint_times(yy)).ravel().astype(complex)
        lhs = np.array([np.real(np.vdot(y, J[:, k])) for k in range(len(dirs))])
        rhs = np.array([np.real(np.vdot(ay, h)) for h in dirs])
        if not _close(lhs, rhs, 1e-11):
            return (f"creal[{cut}/{case['mode']}]: adjoint Jacobian is not the adjoint w.r.t. Re<.,.>", dict(sig, kind="adjoint"))
    return None


def _jaxop(case, ift):
    import jax
    jax.config.update("jax_enable_x64", True)
    import jax.numpy as jnp
    n, kind = case["n"], case["kind"]
    d = ift.DomainTuple.make(ift.UnstructuredDomain(n))
    a = np.array(case["a"])
    x0, y0 = np.array(case["x"]), np.array(case["y"])
    sig = {"site": "aux:jaxop", "jaxkind": kind}
    if kind in ("ptw", "matmul", "cplx"):
        if kind == "ptw":
            func, ref = (lambda v: jnp.sin(v) * jnp.exp(0.5 * v)), (lambda v: np.sin(v) * np.exp(0.5 * v))
        elif kind == "matmul":
            func, ref = (lambda v: jnp.tanh(jnp.asarray(a) @ v)), (lambda v: np.tanh(a @ v))
        else:
            ac = a + 0.5j * a.T
            func, ref = (lambda v: jnp.exp(jnp.asarray(ac) @ v)), (lambda v: np.exp(ac @ v))
        op = ift.JaxOperator(d, d, func)
        z0 = x0.astype(complex) + (1j * np.array(case["xi"]) if kind == "cplx" else 0)
        if kind != "cplx":
            z0 = z0.real
        x = ift.makeField(d, z0)
        lin = op(ift.Linearization.make_var(x))
        if not _close(_arr(lin.val), ref(z0), 1e-11) or not _close(_arr(op(x)), ref(z0), 1e-11):
            return (f"jaxop[{kind}]: value differs from the NumPy twin", dict(sig, kind="value"))
        dirs = [e for e in np.eye(n, dtype=z0.dtype)]
        J = np.array([_arr(lin.jac(ift.makeField(d, h))).ravel() for h in dirs]).T
        FD = _fd_real(lambda z: ref(z).astype(complex), z0.astype(complex), [h.astype(complex) for h in dirs])
        if not _close(J.astype(complex), FD, 5e-6):
            return (f"jaxop[{kind}]: Jacobian differs from finite differences", dict(sig, kind="jacobian"))
        A = np.array([_arr(lin.jac.adjoint_times(ift.makeField(d, e))).ravel() for e in np.eye(n, dtype=z0.dtype)]).T
        if not _close(A, J.conj().T, 1e-11):
            return (f"jaxop[{kind}]: adjoint Jacobian is not the conjugate transpose", dict(sig, kind="adjoint"))
        return None
    if kind == "linear":
        L = ift.JaxLinearOperator(d, d, lambda v: jnp.asarray(a) @ v, domain_dtype=np.float64)
        M = np.array([_arr(L(ift.makeField(d, e))).ravel() for e in np.eye(n)]).T
        Mt = np.array([_arr(L.adjoint_times(ift.makeField(d, e))).ravel() for e in np.eye(n)]).T
        if not _close(M, a, 1e-12):
            return ("jaxop[linear]: JaxLinearOperator.times differs from the matrix", dict(sig, kind="value"))
        if not _close(Mt, a.T, 1e-12):
            return ("jaxop[linear]: JaxLinearOperator.adjoint_times is not the transpose", dict(sig, kind="adjoint"))
        return None
    # multi-domain input and output
    md = ift.MultiDomain.make({"u": d, "v": d})
    func = lambda t: {"p": t["u"] * jnp.exp(t["v"]), "q": jnp.sum(t["u"] * t["v"]) * jnp.ones(n)}
    ref = lambda u, v: np.concatenate([u * np.exp(v), np.sum(u * v) * np.ones(n)])
    op = ift.JaxOperator(md, ift.MultiDomain.make({"p": d, "q": d}), func)
    x = ift.MultiField.from_dict({"u": ift.makeField(d, x0), "v": ift.makeField(d, y0)})
    lin = op(ift.Linearization.make_var(x))
    flat = lambda f: np.concatenate([_arr(f["p"]).ravel(), _arr(f["q"]).ravel()])
    if not _close(flat(lin.val), ref(x0, y0), 1e-11) or not _close(flat(op(x)), ref(x0, y0), 1e-11):
        return ("jaxop[multi]: value differs from the NumPy twin", dict(sig, kind="value"))
    w0 = np.concatenate([x0, y0])
    mk = lambda w: ift.MultiField.from_dict({"u": ift.makeField(d, w[:n]), "v": ift.makeField(d, w[n:])})
    J = np.array([flat(lin.jac(mk(e))) for e in np.eye(2 * n)]).T
    FD = _fd_real(lambda w: ref(np.real(w[:n]), np.real(w[n:])).astype(complex), w0.astype(complex),
                  [e.astype(complex) for e in np.eye(2 * n)])
    if not _close(J.astype(complex), FD, 5e-6):
        return ("jaxop[multi]: Jacobian differs from finite differences", dict(sig, kind="jacobian"))
    mo = lambda w: ift.MultiField.from_dict({"p": ift.makeField(d, w[:n]), "q": ift.makeField(d, w[n:])})
    A = np.array([np.concatenate([_arr(g["u"]).ravel(), _arr(g["v"]).ravel()])
                  for g in (lin.jac.adjoint_times(mo(e)) for e in np.eye(2 * n))]).T
    if not _close(A, J.T, 1e-11):
        return ("jaxop[multi]: adjoint Jacobian is not the transpose", dict(sig, kind="adjoint"))
    return None


# ---------------------------------------------------------------------------------------------- multi-domain Linearization arithmetic
def gen_mlin(rng, n):
    out = []
    dy = lambda: rng.randint(-12, 12) / 8
    for _ in range(n):
        na, nb = rng.choice([1, 2, 3]), rng.choice([1, 2])
        out.append(dict(aux="mlin", xa=[dy() for _ in range(na)], xb=[dy() for _ in range(nb)],
                        ca=[dy() for _ in range(na)], cb=[dy() for _ in range(nb)],
                        op=rng.choice(["vdot", "vdot_field", "div", "rdiv", "sub_field", "rsub_field", "neg", "scalar", "ptw", "pow", "mul_field"]),
                        f=rng.choice(["exp", "sin", "tanh"])))
    return out


def _mlin(case, ift):
    """arithmetic of Linearization objects whose VALUES are MultiFields ({p: f(a), q: g(b)}), against NumPy"""
    xa, xb = np.array(case["xa"]), np.array(case["xb"])
    ca, cb = np.array(case["ca"]), np.array(case["cb"])
    na, nb = xa.size, xb.size
    da, db = ift.DomainTuple.make(ift.UnstructuredDomain(na)), ift.DomainTuple.make(ift.UnstructuredDomain(nb))
    x = ift.MultiField.from_dict({"a": ift.makeField(da, xa), "b": ift.makeField(db, xb)})
    lin = ift.Linearization.make_var(x)
    f = {"exp": np.exp, "sin": np.sin, "tanh": np.tanh}[case["f"]]
    A = lin.ptw(case["f"])                          # {a: f(xa), b: f(xb)}
    B = lin * 0.5 + ift.MultiField.from_dict({"a": ift.makeField(da, ca), "b": ift.makeField(db, cb)})
    cf = ift.MultiField.from_dict({"a": ift.makeField(da, ca + 2.5), "b": ift.makeField(db, cb + 2.5)})
    cat = lambda u, v: np.concatenate([u, v])
    Av = lambda z: cat(f(z[:na]), f(z[na:]))
    Bv = lambda z: cat(0.5 * z[:na] + ca, 0.5 * z[na:] + cb)
    cv = cat(ca + 2.5, cb + 2.5)
    op = case["op"]
    if op == "vdot":
        r, ref = A.vdot(B), (lambda z: np.array([np.sum(Av(z) * Bv(z))]))
    elif op == "vdot_field":
        r, ref = A.vdot(cf), (lambda z: np.array([np.sum(Av(z) * cv)]))
    elif op == "div":
        r, ref = A / (B * B + 1.0), (lambda z: Av(z) / (Bv(z) ** 2 + 1))
    elif op == "rdiv":
        r, ref = 2.0 / (A * A + 1.0) if False else (A * A + 1.0).ptw("reciprocal") * 2.0, (lambda z: 2.0 / (Av(z) ** 2 + 1))
    elif op == "sub_field":
        r, ref = A - cf, (lambda z: Av(z) - cv)
    elif op == "rsub_field":
        r, ref = cf - A, (lambda z: cv - Av(z))
    elif op == "neg":
        r, ref = -A, (lambda z: -Av(z))
    elif op == "scalar":
        r, ref = 3.0 * A - B * 0.25, (lambda z: 3 * Av(z) - 0.25 * Bv(z))
    elif op == "ptw":
        r, ref = (A + B).ptw("tanh"), (lambda z: np.tanh(Av(z) + Bv(z)))
    elif op == "pow":
        r, ref = (A * A + 1.0) ** 1.5, (lambda z: (Av(z) ** 2 + 1) ** 1.5)
    else:
        r, ref = A * cf, (lambda z: Av(z) * cv)
    sig = {"site": "aux:mlin", "mop": op}
    z0 = cat(xa, xb)
    flat = lambda fld: (cat(_arr(fld["a"]).ravel(), _arr(fld["b"]).ravel()) if hasattr(fld, "keys") else _arr(fld).ravel())
    if not _close(flat(r.val).astype(float), ref(z0), 1e-11):
        return (f"mlin[{op}]: value differs from the NumPy reference", dict(sig, kind="value"))
    mk = lambda w: ift.MultiField.from_dict({"a": ift.makeField(da, w[:na]), "b": ift.makeField(db, w[na:])})
    J = np.array([flat(r.jac(mk(e))) for e in np.eye(na + nb)]).T.astype(float)
    FD = np.real(_fd_real(lambda z: ref(np.real(z)).astype(complex), z0.astype(complex), [e.astype(complex) for e in np.eye(na + nb)]))
    if not _close(J, FD, 5e-6):
        return (f"mlin[{op}]: Jacobian differs from finite differences (max dev {np.max(np.abs(J - FD)):.3g})", dict(sig, kind="jacobian"))
    m = J.shape[0]
    tgt = r.jac.target
    if hasattr(tgt, "keys"):
        ys = [mk(e) for e in np.eye(m)]
    else:
        ys = [ift.makeField(tgt, e.reshape(tgt.shape) if len(tgt.shape) else e[0]) for e in np.eye(m)]
    Aj = np.array([flat(r.jac.adjoint_times(y)) for y in ys]).T.astype(float)
    if not _close(Aj, J.T, 1e-11):
        return (f"mlin[{op}]: adjoint Jacobian is not the transpose", dict(sig, kind="adjoint"))
    return None
