"""C12 helper (oracle side): Fisher information matrices of the DOCUMENTED distributions, written independently
of the library (numpy only, closed textbook forms in the real coordinates of _c12_impl), plus a self-test that
validates these closed forms against the expected Hessian of independently written negative log-densities
(exact moment substitution / quadrature).  Nothing here imports nifty.

Coordinates: as in _c12_impl (leaf by leaf; complex leaf = [re, im]).
"""
import numpy as np


def _leaf_elems(term):
    """number of data elements per leaf"""
    return [int(np.prod(l["shape"], dtype=int)) for l in term["tree"]["leaves"]]


def _bcast(vals, n):
    vals = np.asarray(vals, dtype=float)
    return np.full(n, vals[0]) if vals.size == 1 else vals


def cov_inv_diag(term):
    """diagonal of N^-1 per data element, as the constructor documents: given, or std**2"""
    par = term["par"]
    n = sum(_leaf_elems(term))
    if par.get("cov") is not None:
        return _bcast(par["cov"], n)
    if par.get("std") is not None:
        return _bcast(par["std"], n) ** 2
    return np.ones(n)


def herm_real(term):
    """real-coordinate matrix of N^-1 = H H for a dense Hermitian noise operator on ONE complex array leaf
    (coordinates [re..., im...]): 1/2 r^H N^-1 r = 1/2 [a;b]^T [[Re N, -Im N], [Im N, Re N]] [a;b]"""
    H = np.array([[complex(*v) for v in r] for r in term["par"]["herm"]])
    n = H.shape[0]
    D = np.eye(n)
    if term["kind"] == "studentt":
        th = _bcast(term["par"]["dof"], n)
        D = np.diag((th + 1) / (th + 3))     # r = H (d - y) has independent components: F = H^H D H
    N = H @ D @ H
    if not any(l.get("cplx") for l in term["tree"]["leaves"]):
        return N.real
    return np.block([[N.real, -N.imag], [N.imag, N.real]])


def _expand_cplx(term, per_elem):
    """per-data-element values -> per real coordinate (complex leaves doubled)"""
    out, off = [], 0
    for l, n in zip(term["tree"]["leaves"], _leaf_elems(term)):
        v = per_elem[off:off + n]
        out.append(v)
        if l.get("cplx"):
            out.append(v)
        off += n
    return np.concatenate(out) if out else np.zeros(0)


def softmax_np(z, axis):
    z = z - z.max(axis=axis, keepdims=True)
    e = np.exp(z)
    return e / e.sum(axis=axis, keepdims=True)


def fisher(term, y):
    """Fisher information matrix of the documented distribution of `term` at parameter value y (real coords)"""
    k = term["kind"]
    y = np.asarray(y, dtype=float)
    if k in ("gaussian", "studentt") and term["par"].get("herm") is not None:
        return herm_real(term)
    if k == "gaussian":
        # d ~ N(y, N), real or circular complex with E|d-y|^2 = 2/c per element (energy 1/2 r^H N^-1 r)
        return np.diag(_expand_cplx(term, cov_inv_diag(term)))
    if k == "studentt":
        n = sum(_leaf_elems(term))
        th = _bcast(term["par"]["dof"], n)
        return np.diag(_expand_cplx(term, cov_inv_diag(term) * (th + 1) / (th + 3)))
    if k == "poisson":
        return np.diag(1.0 / y)
    if k == "categorical":
        # independent categorical draws, one per slice along `axis`; p = softmax(logits): F = diag p - p p^T per slice
        ax, K = term["axis"], term["K"]
        blocks, off = [], 0
        n_tot = y.size
        F = np.zeros((n_tot, n_tot))
        for l in term["tree"]["leaves"]:
            shp = list(l["shape"])
            shp[ax] = K
            n = int(np.prod(shp))
            z = y[off:off + n].reshape(shp)
            p = softmax_np(z, ax)
            idx = np.arange(n).reshape(shp)
            pm = np.moveaxis(p, ax, -1).reshape(-1, K)
            im = np.moveaxis(idx, ax, -1).reshape(-1, K)
            for pr, ir in zip(pm, im):
                F[np.ix_(off + ir, off + ir)] = np.diag(pr) - np.outer(pr, pr)
            off += n
        return F
    if k == "vcgauss":
        # parameters (mean m, inverse std s): real: d ~ N(m, 1/s^2); complex: Re, Im ~ N(., 1/s^2) independently
        ne = _leaf_elems(term)
        cpl = [bool(l.get("cplx")) for l in term["tree"]["leaves"]]
        n_mean = sum(n * (2 if c else 1) for n, c in zip(ne, cpl))
        s = y[n_mean:]
        dm = _expand_cplx(term, s ** 2)
        fct = np.concatenate([np.full(n, 4.0 if c else 2.0) for n, c in zip(ne, cpl)]) if ne else np.zeros(0)
        return np.diag(np.concatenate([dm, fct / s ** 2]))
    if k == "vcstudt":
        # location-scale Student-t, parameters (mean m, scale sigma)
        n = sum(_leaf_elems(term))
        th = _bcast(term["par"]["dof"], n)
        sg = y[n:]
        return np.diag(np.concatenate([(th + 1) / (th + 3) / sg ** 2, 2 * th / (th + 3) / sg ** 2]))
    if k == "ndvc":
        # d-dimensional Gaussian per leading index; parameters (mean, full d x d matrix, all entries independent
        # coordinates): covariance Sigma: F_mean = Sigma^-1, F_mat = 1/2 Sigma^-1 (x) Sigma^-1; precision P:
        # F_mean = P, F_mat = 1/2 P^-1 (x) P^-1   (row-major vec: (A X B)_{ij} has matrix A_ik B_lj)
        d = term["d"]
        nb = [int(np.prod(l["shape"][:-1], dtype=int)) for l in term["tree"]["leaves"]]
        B = sum(nb)
        mats = y[B * d:].reshape(B, d, d)
        Fm = np.zeros((B * d, B * d))
        FM = np.zeros((B * d * d, B * d * d))
        for b in range(B):
            A = mats[b]
            Ai = np.linalg.inv(A)
            Fm[b * d:(b + 1) * d, b * d:(b + 1) * d] = Ai if term["covariance"] else A
            FM[b * d * d:(b + 1) * d * d, b * d * d:(b + 1) * d * d] = 0.5 * np.kron(Ai, Ai.T)
        n = B * d + B * d * d
        F = np.zeros((n, n))
        F[:B * d, :B * d] = Fm
        F[B * d:, B * d:] = FM
        return F
    raise ValueError(k)


# ---------------------------------------------------------------------------------------------------
# self-test of the closed forms above: expected Hessian of independently written negative log-densities
# (a test, labelled as such; run once per check on a few parameter points)
# ---------------------------------------------------------------------------------------------------
def selftest(jax):
    """returns list of (name, max abs deviation / scale); every entry must be < 1e-7"""
    jnp = jax.numpy
    out = []

    def hess(f, th):
        return np.asarray(jax.hessian(f)(jnp.asarray(th, dtype=float)))

    # Poisson: -log p = lam - d log lam (+const); Hessian linear in d: substitute E d = lam
    lam = 1.7
    H = hess(lambda t: t[0] - lam * jnp.log(t[0]), [lam])
    out.append(("poisson", abs(H[0, 0] - 1 / lam) * lam))
    # Gaussian real: 1/2 c (d-m)^2, Hessian constant
    c = 0.8
    H = hess(lambda t: 0.5 * c * (0.3 - t[0]) ** 2, [0.1])
    out.append(("gaussian", abs(H[0, 0] - c) / c))
    # variable-covariance Gaussian, real: -log p = 1/2 s^2 (d-m)^2 - log s; Hessian quadratic in r=d-m:
    # E over r ~ N(0,1/s^2) = two-point rule r = +-1/s (exact for quadratics)
    m, s = 0.4, 1.3

    def nlp_vc(t, d):
        return 0.5 * t[1] ** 2 * (d - t[0]) ** 2 - jnp.log(t[1])
    H = 0.5 * (hess(lambda t: nlp_vc(t, m + 1 / s), [m, s]) + hess(lambda t: nlp_vc(t, m - 1 / s), [m, s]))
    F = np.diag([s ** 2, 2 / s ** 2])
    out.append(("vcgauss-real", np.abs(H - F).max() / np.abs(F).max()))
    # complex: d = d1 + i d2, -log p = 1/2 s^2 |d-m|^2 - 2 log s, parameters (Re m, Im m, s)

    def nlp_vcc(t, d1, d2):
        return 0.5 * t[2] ** 2 * ((d1 - t[0]) ** 2 + (d2 - t[1]) ** 2) - 2 * jnp.log(t[2])
    pts = [(1, 0), (-1, 0), (0, 1), (0, -1)]   # r = (+-sqrt2/s,0),(0,+-sqrt2/s): E r1^2 = E r2^2 = 1/s^2, odd moments 0
    H = sum(hess(lambda t, a=a, b=b: nlp_vcc(t, 0.2 + a * np.sqrt(2) / s, -0.1 + b * np.sqrt(2) / s), [0.2, -0.1, s])
            for a, b in pts) / 4
    F = np.diag([s ** 2, s ** 2, 4 / s ** 2])
    out.append(("vcgauss-complex", np.abs(H - F).max() / np.abs(F).max()))
    # categorical, K=3: -log p = -logits[d] + logsumexp(logits); Hessian independent of d
    z = np.array([0.3, -0.2, 0.5])
    H = hess(lambda t: jax.scipy.special.logsumexp(t) - t[1], z)
    p = softmax_np(z, 0)
    out.append(("categorical", np.abs(H - (np.diag(p) - np.outer(p, p))).max()))
    # Student-t location-scale by quadrature (Gauss-Legendre after u = atan(r) substitution)
    from numpy.polynomial.legendre import leggauss
    th, sg, mu = 3.5, 0.7, 0.2
    xs, ws = leggauss(400)
    u = 0.5 * np.pi * xs
    r = np.tan(u) * sg
    jac = 0.5 * np.pi * sg / np.cos(u) ** 2
    from math import lgamma
    lognorm = lgamma((th + 1) / 2) - lgamma(th / 2) - 0.5 * np.log(th * np.pi) - np.log(sg)
    pdf = np.exp(lognorm - (th + 1) / 2 * np.log1p((r / sg) ** 2 / th))

    def nlp_t(t, d):
        return (th + 1) / 2 * jnp.log1p(((d - t[0]) / t[1]) ** 2 / th) + jnp.log(t[1])
    Hs = np.asarray(jax.vmap(lambda d: jax.hessian(lambda t: nlp_t(t, d))(jnp.asarray([mu, sg])))(jnp.asarray(mu + r)))
    H = np.einsum("i,ijk->jk", ws * jac * pdf, Hs)
    F = np.diag([(th + 1) / (th + 3) / sg ** 2, 2 * th / (th + 3) / sg ** 2])
    out.append(("student-t", np.abs(H - F).max() / np.abs(F).max()))
    # 2-d Gaussian with covariance parameter (all four entries as coordinates): E over r = +- Cholesky columns
    S = np.array([[1.5, 0.4], [0.4, 0.9]])
    mu2 = np.array([0.1, -0.3])
    C = np.linalg.cholesky(S)

    def nlp_nd(t, dd, cov):
        mm, A = t[:2], t[2:].reshape(2, 2)
        rr = dd - mm
        if cov:
            return 0.5 * rr @ jnp.linalg.solve(A, rr) + 0.5 * jnp.linalg.slogdet(A)[1]
        return 0.5 * rr @ A @ rr - 0.5 * jnp.linalg.slogdet(A)[1]
    for cov in (True, False):
        A = S
        Cc = C if cov else np.linalg.cholesky(np.linalg.inv(S))
        th0 = np.concatenate([mu2, A.ravel()])
        H0 = hess(lambda t: nlp_nd(t, mu2, cov), th0)
        H = H0.copy()
        for kcol in range(2):
            ck = Cc[:, kcol]
            H += 0.5 * (hess(lambda t: nlp_nd(t, mu2 + ck, cov), th0) + hess(lambda t: nlp_nd(t, mu2 - ck, cov), th0)) - H0
        term = dict(kind="ndvc", d=2, covariance=cov, tree=dict(wrap="arr", leaves=[dict(shape=[2])]))
        F = fisher(term, th0)
        # the Hessian w.r.t. the unconstrained 4 matrix entries is the symmetrised version of F on the matrix block:
        # compare the quadratic forms on symmetric directions only
        P = np.eye(6)
        P[3, 4] = P[4, 3] = 0.5
        P[3, 3] = P[4, 4] = 0.5
        out.append((f"ndvc-cov={cov}", np.abs(P @ (H - F) @ P).max() / np.abs(F).max()))
    return out
