"""Helpers shared by the `iter` group's property modules (C14-C17): exact rationals on the wire, pytrees."""
from fractions import Fraction


def rs(x):
    """exact rational string "p/q" of an int / float (floats are dyadic rationals) / Fraction"""
    f = Fraction(x)
    return str(f.numerator) if f.denominator == 1 else f"{f.numerator}/{f.denominator}"


def rf(s):
    """rational string -> Fraction"""
    return Fraction(s)


def rfl(s):
    return float(Fraction(s))


def opt(x):
    return None if x is None else rs(x)
