"""C11 — Classic likelihood energies are negative log-pdfs with Fisher metrics (DESIGN.md §5 C11, design.d/C11.md).

Tie class T: the Lean model (lean/NiftyVerif/Model/Likelihood.lean, evaluated in `Float` by Driver/C11.lean) is compared with
value / gradient / dense metric / transformation value / dense transformation Jacobian obtained from the real
`Linearization.make_var(x, want_metric=True)` pushed through the real energy (within 1e-9 relative).
Round 2 (design.d/C11.md): complex models in front of every energy (_c11_cplx.py) and all metric mechanisms cross-checked
(apply / get_metric_at / JᴴJ of the transformation / assembled from the parts / independent Fisher; symmetric, PSD, Hermitian).
Oracle (real code only): gradient vs. 4th-order central differences of the value; metric vs. JᴴJ of
`get_transformation()`; metric vs. an independent Fisher information (closed forms validated against scipy.stats,
pulled back analytically through the generated model functions); E(x1)-E(x2) vs. scipy.stats log-pdf differences;
VariableCovarianceGaussianEnergy: full-Fisher metric vs. the exact data expectation (Gauss–Hermite) of JᴴJ.
"""
import contextlib
import io
import struct

import numpy as np

from . import _c11_cplx as C
from . import _c11_gen as G
from . import _c11_impl as A
from . import _c11_ref as R

ID = "C11"
LEAN_MODULES = ["NiftyVerif.Core.Proto", "NiftyVerif.Model.Transc", "NiftyVerif.Model.Likelihood",
                "NiftyVerif.Lemmas.LikelihoodScalar", "NiftyVerif.Lemmas.LikelihoodLists",
                "NiftyVerif.Props.C11", "NiftyVerif.Lemmas.LikelihoodComplex", "NiftyVerif.Props.C11Complex"]
DRIVER = "Driver/C11.lean"
TRANSLATORS = []
_T = "NiftyVerif.C11."
OBLIGATIONS = []   # filled from _c11_obligations.py (kept in one place with the Lean file)
try:
    from ._c11_obligations import NAMES as _NAMES
    OBLIGATIONS = [_T + t for t in _NAMES]
except Exception:      # pragma: no cover
    OBLIGATIONS = []
RULE = ("random operator trees over the classic likelihood energies (Gaussian none/scaling/diagonal/sandwich inverse covariance, "
        "real/complex, with/without data; Poisson; Bernoulli; categorical; Student-t; inverse gamma; variable-covariance Gaussian "
        "real/complex, full Fisher or not; _SpecialGammaEnergy) wrapped by scaling, sums over shared/separate keys, point-wise and "
        "matrix models (incl. a dense model from a single domain into the variable-covariance keys) and StandardHamiltonian, on RGSpace 1d/2d and UnstructuredDomain; "
        "round 2: typed chains of complex models (complex/imaginary/negative ScalingOperator, complex DiagonalOperator, dense complex matrix, "
        "FFT/Hartley/HarmonicTransform, Realizer/complexifier/Imaginizer/conjugation, holomorphic point-wise functions) in front of every energy "
        "(complex Gaussian incl. complex-bun sandwich covariance, complex variable-covariance Gaussian, every real energy behind R->C->R chains), "
        "single-operator Jacobians of every kind forced in every run, models over whole sums, scaled / summed / Hamiltonian-wrapped; positions generated inside each "
        "parameter range; non-trivial = every case (dimension >= 1); distinct by canonical JSON of the case")
TRUSTED_BASE = [
    "Lean 4.33 kernel; axioms propext/Classical.choice/Quot.sound only (audited every run)",
    "Mathlib real analysis (HasDerivAt, Real.log/exp/sqrt/arctan) and Matrix algebra",
    "hand-written model lean/NiftyVerif/Model/Likelihood.lean tied to /repo only by differential execution (class T, 1e-9)",
    "harness glue: translation of the generated energy spec into the model tree (harness/props/_c11_gen.py:model_node)",
    "Fisher information = expected Hessian with the data replaced by its mean (exact for these exponential-family forms); "
    "Student-t Fisher information (θ+1)/(θ+3) from the literature; both validated numerically against scipy.stats each run",
    "scipy.stats log-pdfs as the definition of the distributions; NumPy/libm float64 (rounding outside the model)",
]
ASSUMPTIONS = [
    "model evaluated in Lean Float (libm) — rounding is outside the model; comparison tolerance 1e-9 relative",
    "complex fields are represented in real coordinates (real block, imaginary block)",
    "CategoricalEnergy: Fisher information taken in the unconstrained probabilities (as the code documents: input assumed normalised)",
]

TOL = 1e-9


# ------------------------------------------------------------------------------------------------
def _bits(v):
    return struct.unpack("<d", struct.pack("<Q", int(v)))[0]


def _dec(o):
    return dict(n=o["n"], val=_bits(o["val"]), grad=np.array([_bits(v) for v in o["grad"]]),
                met=np.array([[_bits(v) for v in r] for r in o["met"]]).reshape(o["n"], o["n"]),
                t=o["t"], tval=np.array([_bits(v) for v in o["tval"]]),
                tjac=np.array([[_bits(v) for v in r] for r in o["tjac"]]).reshape(o["t"], o["n"]) if o["hasT"] else None,
                hasT=o["hasT"])


def _close(a, b, tol=TOL):
    a, b = np.asarray(a, float), np.asarray(b, float)
    if a.shape != b.shape:
        return False, f"shape {a.shape} vs {b.shape}"
    if a.size == 0:
        return True, ""
    if not (np.all(np.isfinite(a)) and np.all(np.isfinite(b))):
        return False, "non-finite"
    scale = max(np.max(np.abs(a)), np.max(np.abs(b)), 1e-300)
    err = np.max(np.abs(a - b))
    return bool(err <= tol * scale), f"max abs err {err:.3e} at scale {scale:.3e}"


def kinds_of(case):
    return sorted({l["k"] for l in G.leaves(case["e"])})


def wrappers_of(e, acc=None):
    acc = set() if acc is None else acc
    if e["k"] in ("scale", "chain", "ham", "lin", "vmodel", "cmodel"):
        acc.add(e["k"])
        wrappers_of(e["e"], acc)
    elif e["k"] == "sum":
        acc.add("sum")
        for s in e["es"]:
            wrappers_of(s, acc)
    return acc


def sig(case, check, **kw):
    s = {"check": check, "kinds": "+".join(kinds_of(case)), "wrappers": "+".join(sorted(wrappers_of(case["e"])))}
    s.update(kw)
    return s


def _measure(case, **kw):
    """real code, exceptions -> canonical error kind"""
    try:
        return A.measure(G.with_flat(case), **kw), None
    except Exception as e:   # a seeded bug must show up as a finding, not as a harness crash
        return None, type(e).__name__ + ": " + str(e)[:200]


# ------------------------------------------------------------------------------------------------
# the property on the real code only
def fd_gradient(case):
    cf = G.with_flat(case)
    x = np.array(cf["x"], float)
    g = np.zeros(len(x))
    f = A.evaluator(cf)
    for j in range(len(x)):
        h = 2e-4 * max(abs(x[j]), 0.05)
        v = []
        for s in (-2, -1, 1, 2):
            xs = x.copy()
            xs[j] += s * h
            v.append(f(xs))
        g[j] = (v[0] - 8 * v[1] + 8 * v[2] - v[3]) / (12 * h)
    return g


def expected_pullback(case):
    """exact data expectation of JᴴJ of VariableCovarianceGaussianEnergy's transformation at inverse variance i:
    residual components ~ N(0, 1/i); JᴴJ is a quadratic polynomial in the residual => 3-point Gauss–Hermite is exact"""
    leaf = case["e"]
    n = G.npix(case["dom"])
    cplx = bool(leaf["cplx"])
    i = np.array(case["pos"]["b"], float)
    nodes = [(-np.sqrt(3.0), 1 / 6), (0.0, 2 / 3), (np.sqrt(3.0), 1 / 6)]
    acc = None
    combos = [((za,), wa) for za, wa in nodes] if not cplx else [((za, zb), wa * wb) for za, wa in nodes for zb, wb in nodes]
    for zs, w in combos:
        blocks = [z / np.sqrt(i) for z in zs]
        c2 = dict(case, pos={"a": list(np.concatenate(blocks)), "b": list(i)})
        o = A.measure(G.with_flat(c2))
        JJ = o["tjac"].T @ o["tjac"]
        acc = w * JJ if acc is None else acc + w * JJ
    return acc


def oracle(case):
    # (MatrixProductOperator.apply prints to stdout)
    with contextlib.redirect_stdout(io.StringIO()):
        return _oracle(case)


def _oracle(case):
    o, err = _measure(case)
    if err is not None and err.startswith("DomainMismatch"):
        return ("domain of the composed likelihood is not the union of the domains of its parts: " + err.split(":", 1)[1].strip(),
                sig(case, "domain"))
    if err is not None:
        return (f"energy raised on a valid input: {err}", sig(case, "error", error=err.split(":")[0]))
    n = len(o["grad"])
    if abs(o["val_imag"]) > 1e-12 * (1 + abs(o["val"])):
        return (f"energy value has imaginary part {o['val_imag']}", sig(case, "value-imag"))
    # 0. nothing imaginary may be dropped silently on real-typed keys (gradient / metric applied to real directions)
    if o["grad_dropped_imag"] > 1e-10 * (1 + np.max(np.abs(o["grad"]))):
        return (f"gradient has imaginary part {o['grad_dropped_imag']:.3e} on a real-valued key", sig(case, "gradient-imag"))
    if o["met"] is not None and o["met_dropped_imag"] > 1e-10 * (1 + np.max(np.abs(o["met"]))):
        return (f"metric maps a real direction of a real-valued key to imaginary part {o['met_dropped_imag']:.3e}",
                sig(case, "metric-imag"))
    # 1. exact gradient
    try:
        g = fd_gradient(case)
    except Exception as e:
        return (f"energy raised near a valid input: {type(e).__name__}", sig(case, "error", error=type(e).__name__))
    tol = 2e-6 * (1 + np.max(np.abs(g)))
    if np.max(np.abs(g - o["grad"])) > tol:
        j = int(np.argmax(np.abs(g - o["grad"])))
        return (f"gradient[{j}] = {o['grad'][j]!r} but central differences of the value give {g[j]!r}", sig(case, "gradient"))
    # 2. value = -log pdf up to constants: differences between two positions
    v1, F = R.reference(case, "pos")
    v2, _ = R.reference(case, "pos2")
    try:
        e2 = A.value_only(G.with_flat(case), G.flatx(case, "pos2"))
    except Exception as e:
        return (f"energy raised on a valid input: {type(e).__name__}", sig(case, "error", error=type(e).__name__))
    dv, dr = o["val"] - e2, v1 - v2
    if abs(dv - dr) > 1e-8 * (1 + abs(v1) + abs(v2)):
        return (f"E(x1)-E(x2) = {dv!r} but -log pdf differs by {dr!r}", sig(case, "value"))
    # 3. metric = Fisher information (independent reference)
    if o["met"] is None:
        return ("no metric although want_metric=True", sig(case, "metric-missing"))
    approx = G.has(case["e"], lambda l: l["k"] == "varcov" and not l["full"])
    okF, msg = _close(o["met"], F, 1e-8)
    if not approx and not okF:
        return (f"metric differs from the Fisher information: {msg}", sig(case, "fisher"))
    # 3b. every metric is a symmetric positive semi-definite real-bilinear form (dense, real coordinates), and
    #     Hermitian through NIFTy's own vdot:  <u, M v> = conj <v, M u>,  <v, M v> real >= 0
    r = _form_checks(case, o["met"], "apply")
    if r is not None:
        return r
    s1, s2, s3 = o["herm"]
    hs = 1e-9 * (1 + abs(s1) + abs(s2) + abs(s3))
    if abs(s1.real - s2.real) > hs or s3.real < -hs:
        return (f"metric is not a symmetric positive form: <u,Mv>={s1!r}, <v,Mu>={s2!r}, <v,Mv>={s3!r}", sig(case, "metric-hermitian"))
    if holomorphic(case) and (abs(s1.imag + s2.imag) > hs or abs(s3.imag) > hs):
        return (f"metric of a holomorphic model on complex keys is not Hermitian: <u,Mv>={s1!r}, <v,Mu>={s2!r}, <v,Mv>={s3!r}",
                sig(case, "metric-hermitian"))
    # 3c. mechanism (4): the metric assembled from its parts with forward applications only (exact, always)
    try:
        with_flat = G.with_flat(case)
        dom_ = A.mkdom(case["dom"])
        x_, _ = A.position(with_flat, A.build(case["e"], dom_))
        Mp = A.parts_metric(case["e"], dom_, x_)
    except Exception as e:
        return (f"a part of the energy raised on a valid input: {type(e).__name__}", sig(case, "error", error=type(e).__name__))
    okQ, msg = _close(o["met"], Mp, 1e-8)
    if not okQ:
        return (f"metric differs from Jᴴ_model · M_inner(model(x)) · J_model assembled from the parts: {msg}", sig(case, "metric-parts"))
    # 4. metric = pull-back of the identity through the transformation
    isham = case["e"]["k"] == "ham"
    if not isham:
        if o["tjac"] is None:
            return ("likelihood has no transformation", sig(case, "trafo-missing"))
        JJ = o["tjac"].T @ o["tjac"]
        # the sampling dtype announced with the transformation is never a real one for complex data (None = unknown,
        # e.g. SandwichOperator inverse covariances, is legitimate; not a sampled quantity)
        if all(l["k"] == "gauss" and l.get("cplx") for l in G.leaves(case["e"])):
            dts = list(o["tdtype"].values()) if isinstance(o["tdtype"], dict) else [o["tdtype"]]
            if any(d not in (None, "complex128") for d in dts):
                return (f"transformation of a complex Gaussian announces sampling dtype {o['tdtype']}", sig(case, "trafo-dtype"))
        exact = not G.has(case["e"], lambda l: l["k"] == "varcov" and l["full"])
        okP, msg = _close(o["met"], JJ, 1e-8)
        if exact and not okP:
            return (f"metric differs from JᴴJ of get_transformation(): {msg}", sig(case, "pullback"))
        # mechanism (2): get_metric_at(x) — equals JᴴJ of the transformation always (exact), the apply() metric
        # unless the full-Fisher variable-covariance metric is attached (then only in expectation, checked below)
        if o["met_at"] is not None:
            r = _form_checks(case, o["met_at"], "get_metric_at")
            if r is not None:
                return r
            if o["met_at_dropped_imag"] > 1e-10 * (1 + np.max(np.abs(o["met_at"]))):
                return ("get_metric_at maps a real direction of a real-valued key to a complex one", sig(case, "metric-imag", which="get_metric_at"))
            okA, msg = _close(o["met_at"], JJ, 1e-8)
            if not okA:
                return (f"get_metric_at(x) differs from JᴴJ of get_transformation(): {msg}", sig(case, "metric-at-vs-pullback"))
            okB, msg = _close(o["met_at"], o["met"], 1e-8)
            if exact and not okB:
                return (f"get_metric_at(x) differs from the metric attached by apply(want_metric=True): {msg}", sig(case, "metric-at-vs-apply"))
        # documented local approximation: equality in expectation over the data
        if case["e"]["k"] == "varcov":
            EJJ = expected_pullback(case)
            Ffull = R.reference(dict(case, e=dict(case["e"], full=True)))[1]
            okE, msg = _close(EJJ, Ffull, 1e-8)
            if not okE:
                # characterise the deviation so that a known finding matches this one only: uniform factor on the
                # inverse-covariance block, everything else equal
                nb = G.npix(case["dom"])
                D = np.array(EJJ, float)
                ratio = np.diag(D)[-nb:] / np.diag(Ffull)[-nb:]
                D2 = D.copy()
                D2[-nb:, -nb:] = Ffull[-nb:, -nb:] + (D[-nb:, -nb:] - np.diag(np.diag(D)[-nb:]))
                rest_ok = _close(D2, Ffull, 1e-8)[0]
                uniform = bool(np.max(np.abs(ratio - ratio[0])) < 1e-8)
                tag = ("icov-block-times-%.4f" % ratio[0]) if (rest_ok and uniform) else "other"
                return (f"data expectation of JᴴJ of the transformation differs from the Fisher metric ({tag}): {msg}",
                        sig(case, "expected-pullback", cplx=bool(case["e"]["cplx"]), deviation=tag))
    else:
        # StandardHamiltonian metric = likelihood metric + identity
        inner = dict(case, e=case["e"]["e"])
        oi, err = _measure(inner, want_trafo=False)
        if err is None and oi["met"] is not None:
            ok, msg = _close(o["met"], oi["met"] + np.eye(n), 1e-9)
            if not ok:
                return (f"Hamiltonian metric is not likelihood metric + 1: {msg}", sig(case, "hamiltonian"))
    return None


def _form_checks(case, M, which):
    """symmetric + positive semi-definite in real coordinates"""
    M = np.asarray(M, float)
    if not np.all(np.isfinite(M)):
        return (f"{which} metric is not finite", sig(case, "metric-symmetry", which=which))
    scale = max(np.max(np.abs(M)), 1e-300) if M.size else 1.0
    asym = np.max(np.abs(M - M.T)) if M.size else 0.0
    if asym > 1e-9 * scale:
        return (f"{which} metric is not symmetric (as a real-bilinear form): max |M - Mᵀ| = {asym:.3e} at scale {scale:.3e}",
                sig(case, "metric-symmetry", which=which))
    ev = np.linalg.eigvalsh((M + M.T) / 2)
    if M.size and ev[0] < -1e-9 * scale:
        return (f"{which} metric is not positive semi-definite: smallest eigenvalue {ev[0]:.3e} at scale {scale:.3e}",
                sig(case, "metric-psd", which=which))
    return None


def holomorphic(case):
    """all keys complex and every model holomorphic (complex-linear Jacobians): the metric is then complex-linear Hermitian"""
    if not case["cplx"] or not all(case["cplx"].values()):
        return False

    def walk(e):
        k = e["k"]
        if k in ("scale", "ham"):
            return walk(e["e"])
        if k == "sum":
            return all(walk(s_) for s_ in e["es"])
        if k == "chain":
            return all(f["f"] in ("id", "scal") for f in e["f"].values()) and walk(e["e"])
        if k == "cmodel":
            return all(op["o"] in ("cscal", "cdiag", "cmat", "ptw", "ft") for ops in e["ops"].values() for op in ops) and walk(e["e"])
        return k in ("gauss",)
    return walk(case["e"])


def _subcase(case, e):
    keys = set()
    for l in G.leaves(e):
        keys.update(G.leaf_keys(l))
    if keys == {""} or all(k in case["pos"] for k in keys):
        return dict(case, e=e, pos={k: case["pos"][k] for k in sorted(keys)}, pos2={k: case["pos2"][k] for k in sorted(keys)},
                    cplx={k: case["cplx"].get(k, False) for k in sorted(keys)})
    return None


def shrink(case):
    e = case["e"]
    k = e["k"]
    cands = []
    if k in ("scale", "ham"):
        cands.append(e["e"])
    if k == "sum":
        cands += list(e["es"])
        if len(e["es"]) > 2:
            cands += [dict(e, es=e["es"][:i] + e["es"][i + 1:]) for i in range(len(e["es"]))]
        for i, s in enumerate(e["es"]):
            if s["k"] in ("scale",):
                cands.append(dict(e, es=e["es"][:i] + [s["e"]] + e["es"][i + 1:]))
    if k in ("scale", "ham") and e["e"]["k"] in ("scale", "sum"):
        for sub_ in ([e["e"]["e"]] if e["e"]["k"] == "scale" else e["e"]["es"]):
            cands.append(dict(e, e=sub_))
    if k == "cmodel":
        # shorter chains of the same type (the positions stay; the result must still be a valid case), simpler inner energy
        rg = case["dom"]["t"] == "rg"
        for key, ops in sorted(e["ops"].items()):
            cin = bool(case["cplx"].get(key))
            t0 = C.chain_ok(ops, cin, rg)
            for i in range(len(ops)):
                o2 = ops[:i] + ops[i + 1:]
                if C.chain_ok(o2, cin, rg) == t0:
                    c2 = dict(case, e=dict(e, ops=dict(e["ops"], **{key: o2})))
                    if C.valid(c2):
                        yield c2
        if e["e"]["k"] == "scale":
            yield dict(case, e=dict(e, e=e["e"]["e"]))
    if k in ("scale", "ham") and e["e"]["k"] == "cmodel":
        for c2 in shrink(dict(case, e=e["e"])):
            if c2["e"]["k"] == "cmodel":
                yield dict(c2, e=dict(e, e=c2["e"]))
    for c in cands:
        sc = _subcase(case, c)
        if sc is not None:
            # a keyed leaf standing alone keeps its key (domain stays a MultiDomain) — still a valid case
            yield sc


# ------------------------------------------------------------------------------------------------
def _compare(ctx, case, o, m):
    """class-T comparison of everything the model exhibits"""
    bad = []
    for name in ("val", "grad", "met"):
        ok, msg = _close(np.atleast_1d(o[name]), np.atleast_1d(m[name]))
        if not ok:
            bad.append(f"{name}: {msg}")
    if (o["tjac"] is not None) != bool(m["hasT"]):
        bad.append(f"transformation present: impl {o['tjac'] is not None} model {m['hasT']}")
    elif o["tjac"] is not None:
        for name in ("tval", "tjac"):
            ok, msg = _close(o[name], m[name])
            if not ok:
                bad.append(f"{name}: {msg}")
    return bad


def _branch_stats(ctx, e):
    """which non-default branches of the anchored code a case reaches (goes to evidence.coverage.input_distribution)"""
    k = e["k"]
    if k == "sum":
        keys = [tuple(G.leaf_keys(l)) for l in G.leaves(e)]
        ctx.stat("sum:shared-key" if len(set(keys)) < len(keys) else "sum:separate-keys")
        for s_ in e["es"]:
            _branch_stats(ctx, s_)
    elif k == "scale":
        ctx.stat("scale:left" if e.get("left", True) else "scale:right")
        if e["e"]["k"] == "scale":
            ctx.stat("scale:nested")
        _branch_stats(ctx, e["e"])
    elif k == "ham":
        ctx.stat("ham:ic" if e.get("ic") else "ham:no-ic")
        _branch_stats(ctx, e["e"])
    elif k == "chain":
        ctx.stat("chain:over-" + ("composite" if e["e"]["k"] in ("sum", "scale", "chain", "lin", "ham") else "leaf"))
        for f in e["f"].values():
            ctx.stat("f:" + f["f"])
        _branch_stats(ctx, e["e"])
    elif k == "cmodel":
        for key, ops in e["ops"].items():
            for op in ops:
                ctx.stat("cop:" + (op["kind"] if op["o"] == "ft" else "ptw-" + op["f"] if op["o"] == "ptw"
                                   else "f-" + op["spec"]["f"] if op["o"] == "f" else op["o"]))
            if len(ops) == 1:
                g = ops[0].get("g")
                ctx.stat("cmodel:jac-exactly-" + ("scaling-" + ("real" if g[1] == 0 else "imag" if g[0] == 0 else "complex")
                                                  if ops[0]["o"] == "cscal" else ops[0]["o"]))
            ctx.stat("cmodel:chain-len-%d" % len(ops))
            ctx.stat("cmodel:" + ("linear" if C.is_linear(ops) else "nonlinear"))
        ctx.stat("cmodel:over-" + ("composite" if e["e"]["k"] in ("sum", "scale") else "leaf"))
        _branch_stats(ctx, e["e"])
    elif k in ("lin", "vmodel"):
        _branch_stats(ctx, e["e"])
    elif k == "gauss":
        ctx.stat("gauss:icov=" + e["icov"] + (",cplx" if e.get("cplx") else "") + (",nodata" if e.get("d") is None else ""))
        if e["icov"] == "csand":
            ctx.stat("gauss:csand-bun=" + "+".join(op["o"] for op in e["bunops"]))
    elif k == "varcov":
        ctx.stat("varcov:" + ("cplx" if e["cplx"] else "real") + ("/full-fisher" if e["full"] else "/trafo-metric"))
    elif k == "sgamma":
        ctx.stat("sgamma:" + ("cplx" if e.get("cplx") else "real"))
    elif k == "studentt":
        ctx.stat("studentt:theta-" + ("field" if isinstance(e["theta"], list) else "scalar"))
    elif k == "invgamma":
        ctx.stat("invgamma:alpha-" + ("field" if isinstance(e["alpha"], list) else "scalar"))
    elif k == "categorical":
        ctx.stat("categorical:axis=%d" % e.get("axis", 0))


def run_cases(ctx, cases, do_oracle=True):
    lines = [G.model_line(c) for c in cases]
    outs_ = iter(ctx.model(DRIVER, [l for l in lines if l is not None]))
    outs = [None if l is None else next(outs_) for l in lines]
    for c, mo in zip(cases, outs):
        for k in kinds_of(c):
            ctx.stat("leaf:" + k)
        for w in wrappers_of(c["e"]) or {"bare"}:
            ctx.stat("wrap:" + w)
        ctx.stat("dom:" + c["dom"]["t"] + str(len(c["dom"]["shape"])) + "d")
        ctx.stat("dim:%d" % len(G.flatx(c)))
        if any(c["cplx"].values()):
            ctx.stat("complex")
        _branch_stats(ctx, c["e"])
        o, err = _measure(c)
        if mo is None:
            # non-linear complex model: outside the list model — oracle only
            ctx.stat("model:not-expressible(oracle only)")
            ctx.case(c, nontrivial=True)
        elif err is not None or "error" in mo:
            ctx.compare(c, {"error": (err or "").split(":")[0]} if err else {"ok": True},
                        {"error": mo.get("error")} if "error" in mo else {"ok": True}, note="C11 model vs implementation")
        else:
            bad = _compare(ctx, c, o, _dec(mo))
            ctx.compare(c, {"agree": True}, {"agree": not bad, "detail": bad} if bad else {"agree": True},
                        note="C11 Float model vs Linearization(want_metric=True) through the real energy")
        if do_oracle:
            r = _oracle(c)
            if r is not None:
                ctx.counterexample(c, *r)


def load_corpus():
    import glob
    import json
    import os
    from core.ctx import VERIF
    out = []
    for p in sorted(glob.glob(os.path.join(VERIF, "corpus", "C11", "*.json"))):
        rec = json.load(open(p))
        out.append(rec.get("case", rec))
    return out


def run(ctx):
    import nifty.cl  # noqa: F401  (import errors are infrastructure)
    st = R.selftest()
    worst = max(v for _, v in st)
    ctx.extra["fisher_closed_forms_vs_scipy_max_relerr"] = worst
    if worst > 1e-4:
        raise RuntimeError(f"oracle self-test failed: {st}")
    corpus = load_corpus()
    for c in corpus:
        ctx.stat("corpus")
    cases = list(corpus)
    # every leaf kind bare, then random trees
    for kind in sorted(set(G.KINDS)):
        for _ in range(ctx.n(3, 12)):
            cases.append(G.gen_case(ctx.rng, small=True, force_kind=kind, simple=True))
    # every variant of the branching leaves at least once per run (bare), whatever the seed
    def ensure(kind, keyfn, values):
        need, tries = set(values), 0
        while need and tries < 400:
            tries += 1
            c = G.gen_case(ctx.rng, small=True, force_kind=kind, simple=True)
            v = keyfn(next(G.leaves(c["e"])))
            if v in need:
                need.discard(v)
                cases.append(c)
    ensure("gauss", lambda l: (l["icov"], bool(l.get("cplx"))),
           [("none", False), ("scal", False), ("diag", False), ("sand", False), ("none", True), ("diag", True)])
    ensure("varcov", lambda l: (bool(l["cplx"]), bool(l["full"])), [(a, b) for a in (False, True) for b in (False, True)])
    ensure("sgamma", lambda l: bool(l.get("cplx")), [False, True])
    ensure("studentt", lambda l: isinstance(l["theta"], list), [False, True])
    ensure("invgamma", lambda l: isinstance(l["alpha"], list), [False, True])
    for _ in range(ctx.n(4, 40)):
        cases.append(G.gen_vmodel_case(ctx.rng, small=True))
    for _ in range(ctx.n(50, 700)):
        cases.append(G.gen_case(ctx.rng, small=ctx.quick))
    # round 2: complex data and complex models in front of every energy (forced single-operator Jacobians, then random chains)
    for f in C.FORCED:
        for _ in range(ctx.n(1, 3)):
            cases.append(C.gen_ccase(ctx.rng, small=True, force=f))
            ctx.stat("cmodel:forced")
    for _ in range(ctx.n(60, 600)):
        cases.append(C.gen_ccase(ctx.rng, small=ctx.quick))
    B = 100
    with contextlib.redirect_stdout(io.StringIO()):
        for i in range(0, len(cases), B):
            run_cases(ctx, cases[i:i + B])


def search(ctx):
    """targeted search when a proof/correspondence broke: bare leaves of every kind, many positions"""
    for kind in sorted(set(G.KINDS)):
        for _ in range(40):
            c = G.gen_case(ctx.rng, small=True, force_kind=kind, simple=ctx.rng.random() < 0.5)
            r = oracle(c)
            if r is not None:
                ctx.counterexample(c, *r)
                return
    for f in list(C.FORCED) * 3 + [None] * 150:
        c = C.gen_ccase(ctx.rng, small=True, force=f)
        r = oracle(c)
        if r is not None:
            ctx.counterexample(c, *r)
            return
