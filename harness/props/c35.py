"""C35 — Response operators compute their documented quantity (DESIGN.md §5 C35; details in design.d/C35.md).

Class E (exact, through the C02 engine + Driver/C35.lean): LinearInterpolator at dyadic points (1-3 D, periodic wrap, points far
outside the grid, int64 position arrays), RegriddingOperator, FieldZeroPadder (plain/central), MaskOperator: dense matrices of
all modes = Lean model.  LOSResponse (σ=0), three-way: code vs the exact-rational TRANSCRIPTION of `_comp_traverse`
(Model/ResponseLos.lean, eps = 1e-7; float32 cast reproduced: two float32 ulps), code vs the independent segment model
(Model/Response.lean; within the 1e-7 shrink), transcription vs independent model exactly inside Lean on every generic line.
Nufft / Gridder / VariablePositionNufft: explicit Python Fourier sums (model-free) and, on a rational position lattice, the exact
Lean model Model/Nft.lean (polynomials in ω evaluated numerically), epsilon-dependent tolerance.  nifty.re
SamplingCartesianGridLOS: closed form on affine fields (model-free) and the exact transcription Model/ResponseSampling.lean on
integer fields (1e-9).  Oracles on the real code only: documented periodic multilinear sum (exact), multi-affine polynomials,
period shifts, constants; regridding exact on affine data; padding placement; mask selection; LOS = Σ field·|segment ∩ pixel|
(per-pixel clipping, float64/complex/float32 fields); Fourier sums and the explicit derivative for the Jacobian.
"""
import json
import math
import zlib
from fractions import Fraction

import numpy as np

from . import _c02_util as U
from . import c02 as E
from ._c02_classes import CLASSES as C02_CLASSES, Base, _fullshape, _model_doms, _pick_dtype
from . import _c35_nft as NFT

ID = "C35"
LEAN_MODULES = ["NiftyVerif.Props.C35", "NiftyVerif.Model.LinOpsProto", "NiftyVerif.Model.Response",
                "NiftyVerif.Model.ResponseLos", "NiftyVerif.Model.Nft", "NiftyVerif.Model.NftProto",
                "NiftyVerif.Model.ResponseProto", "NiftyVerif.Model.ResponseSampling", "NiftyVerif.Model.Coo", "NiftyVerif.Model.CQ", "NiftyVerif.Model.LinOps",
                "NiftyVerif.Core.Proto"]
DRIVER = "Driver/C35.lean"
TRANSLATORS = []
OBLIGATIONS = ["NiftyVerif.C35." + t for t in (
    "interp_weights_sum_one", "interp_exact_multilinear", "interp_at_gridpoint", "interp_row_apply",
    "regrid_exact_affine", "pad_plain_spec", "pad_central_spec", "pad_plain_sum", "mask_selects_unflagged",
    "mask_adjoint_zero_fill", "los_weights_sum", "los_outside_empty",
    "los_traverse_refines", "los_traverse_refines_zero", "los_traverse_weights_sum", "los_traverse_weights_nonneg",
    "los_traverse_steps", "los_traverse_first_pixel", "los_clip_inside", "los_clip_eq_clipBox", "los_traverse_refines_losRow",
    "los_traverse_in_grid", "los_generic_flag_sound", "los_init_refines",
    "sampling_los_exact_affine", "sampling_interp_exact_multiaffine",
    "nft_adjoint", "nft_mono_apply_spec", "nft_on_grid_is_dft", "nft_on_grid_is_dft_nd", "nft_shift", "nft_entry_is_phase")]
RULE = ("one case = (operator class, generated grid / sampling points / line segments / positions / mask / accuracy); "
        "non-trivial = the operator has at least one non-zero weight; distinct by canonical JSON of the case; "
        "LOS lines: los-refine-compared = generic lines on which transcription and independent model were compared exactly")
TRUSTED_BASE = [
    "Lean 4.33 kernel; axioms propext/Classical.choice/Quot.sound only (audited every run)",
    "hand-written Lean models Model/Response.lean (interpolation, independent LOS segment model), Model/ResponseLos.lean "
    "(transcription of _comp_traverse / LOSResponse.__init__), Model/Nft.lean (lattice Fourier matrix), Model/ResponseSampling.lean (transcription of nifty.re _los), Model/LinOps.lean "
    "(regridding, padding, mask), each tied by differential comparison",
    "ducc0 nufft/wgridder kernels, scipy.sparse, jax map_coordinates: executed, compared with explicit sums / closed forms only",
    "harness: generators, explicit O(n·m) Fourier sums and their derivative, per-pixel segment∩box lengths, exact periodic "
    "multilinear sums, numerical evaluation of the model's polynomials in ω",
]
ASSUMPTIONS = [
    "LOSResponse with sigmas != 0 (erfc weighting) is compared numerically only through adjointness/linearity",
    "LOS: float64 rounding of the traversal is outside the model; the float32 weight cast is reproduced in the harness "
    "(tolerance 2.5e-7·|w| + 1e-10·length against the transcription at eps = 1e-7); np.argsort ties (lines through a grid "
    "edge/corner) are outside the refinement theorem: such lines are compared numerically and counted as non-generic",
    "NFT: class T tolerance 100·epsilon·Σ|input| against explicit sums and against the exact lattice model",
]


# ------------------------------------------------------------------------------------------------ class E table
class _Interp(Base):
    name = "LinearInterpolator"
    dtypes = "fc"

    def gen(self, rng, quick):
        lay = rng.choice([(1, 1), (1, 2), (1, 3), (2, 1), (3, 1), (1, 1), (1, 2)])
        nsub, d = lay
        doms = []
        for _ in range(nsub):
            doms.append(U.sub_json(dict(kind="RG", shape=[rng.randint(1, 4) for _ in range(d)],
                                        dist=[rng.choice([0.5, 1.0, 2.0, 0.25]) for _ in range(d)],
                                        harmonic=rng.random() < 0.2)))
        sh = _fullshape(doms)
        dist = [x for dd in doms for x in dd["dist"]]
        npts = rng.randint(1, 5)
        pts = []
        for _ in range(npts):
            far = rng.random() < 0.3               # several periods away, negative, beyond the upper edge
            pts.append([float(Fraction(rng.randint(-16 * n, 24 * n) if far else rng.randint(-8, 8 * (n + 1)), 8) * Fraction(dj))
                        for n, dj in zip(sh, dist)])
        c = dict(cls=self.name, doms=doms, points=pts, dtype=_pick_dtype(rng, "fc"))
        if rng.random() < 0.2:                     # integer sampling positions handed over as an int64 array
            c["points"] = [[float(rng.randint(-2 * n, 3 * n)) for n in sh] for _ in range(npts)]
            c["points_int"] = True
        return c

    def malformed(self, rng):
        c = self.gen(rng, True)
        r = rng.random()
        if r < 0.5:
            c["points"] = [p + [0.0] for p in c["points"]]
        else:
            c["doms"][0] = U.sub_json(dict(kind="U", shape=c["doms"][0]["shape"]))
        return c

    def build(self, case):
        import nifty.cl as ift
        pts = np.array(case["points"], dtype=np.int64 if case.get("points_int") else np.float64).T
        return ift.LinearInterpolator(U.build_domtuple(case["doms"]), pts)

    def line(self, case):
        doms = _model_doms(case)
        if any(d["kind"] != "RG" for d in doms):
            return dict(cls="Reject", kind="TypeError")
        return dict(cls=self.name, shape=_fullshape(doms), dist=[U.fr(x) for d in doms for x in d["dist"]],
                    points=[[U.fr(v) for v in p] for p in case["points"]])

    def extra_oracle(self, case, op, rng):
        """documented: exact for multilinear functions; at grid points the grid value; periodic multilinear definition
        evaluated independently (exact rationals) at the case's own points and at fresh ones far outside the grid"""
        import nifty.cl as ift
        doms = case["doms"]
        sh = _fullshape(doms)
        dist = [x for dd in doms for x in dd["dist"]]
        D = len(sh)
        dom = U.build_domtuple(doms)
        # random multi-affine polynomial in node units u_j = x_j / dist_j, integer coefficients
        coef = {S: rng.randint(-3, 3) for S in range(1 << D)}

        def f(u):
            tot = 0.0
            for S, a in coef.items():
                t = float(a)
                for j in range(D):
                    if S >> j & 1:
                        t = t * u[j]
                tot += t
            return tot
        nodes = np.zeros(sh)
        for idx in np.ndindex(*sh):
            nodes[idx] = f(idx)
        npts = 4
        U8 = [[Fraction(rng.randint(0, 8 * (n - 1)), 8) if n > 1 else Fraction(0) for n in sh] for _ in range(npts)]
        U8[0] = [Fraction(rng.randint(0, n - 1)) for n in sh]           # a grid point
        pts = np.array([[float(u * Fraction(dj)) for u, dj in zip(p, dist)] for p in U8]).T
        op2 = ift.LinearInterpolator(dom, pts)
        got = op2(ift.makeField(dom, nodes)).asnumpy()
        want = np.array([f([float(u) for u in p]) for p in U8])
        if not np.array_equal(got, want):
            return ("interpolation does not reproduce a multilinear polynomial exactly at dyadic points "
                    f"(got {got.tolist()}, want {want.tolist()})", "multilinear")
        if got[0] != nodes[tuple(int(u) for u in U8[0])]:
            return ("interpolation at a grid point differs from the grid value", "gridpoint")
        # --- the documented definition, independently, with periodic wrapping: positions below zero, beyond the upper edge,
        #     exactly on nodes, several periods away (multiples of dist/8 in [-2·n·dist, 3·n·dist]) — exact (class E)
        field = np.array([float(rng.randint(-4, 4)) for _ in range(int(np.prod(sh)))]).reshape(sh)
        fresh = []
        for k in range(6):
            p = []
            for n in sh:
                r = rng.random()
                if r < 0.35:
                    u = Fraction(rng.randint(-16 * n, -1), 8)                       # negative
                elif r < 0.55:
                    u = Fraction(rng.randint(8 * n, 24 * n), 8)                     # beyond the upper edge
                elif r < 0.7:
                    u = Fraction(rng.randint(-2 * n, 3 * n))                        # exactly on a (wrapped) node
                else:
                    u = Fraction(rng.randint(-16 * n, 24 * n), 8)
                p.append(u)
            fresh.append(p)
        own = [[Fraction(v) / Fraction(dj) for v, dj in zip(pt, dist)] for pt in case["points"]]
        for label, UU in (("own", own), ("fresh", fresh)):
            ptsx = np.array([[float(u * Fraction(dj)) for u, dj in zip(p, dist)] for p in UU], dtype=np.float64).T
            opx = op if label == "own" else ift.LinearInterpolator(dom, ptsx)
            gotx = opx(ift.makeField(dom, field)).asnumpy()
            wantx = np.array([float(_periodic_multilinear(field, sh, p)) for p in UU])
            if not np.array_equal(gotx, wantx):
                i = int(np.argmax(gotx != wantx))
                return (f"interpolation at x/dist = {[str(u) for u in UU[i]]} gives {gotx[i]!r}, the documented periodic "
                        f"multilinear sum is {wantx[i]!r}", "periodic-definition")
            # invariance under a shift of every coordinate by one period n_d·dist_d (either direction)
            sgn = rng.choice([-1, 1])
            ptss = np.array([[float((u + sgn * n) * Fraction(dj)) for u, dj, n in zip(p, dist, sh)] for p in UU]).T
            gots = ift.LinearInterpolator(dom, ptss)(ift.makeField(dom, field)).asnumpy()
            if not np.array_equal(gots, gotx):
                return (f"interpolation changes when every coordinate is shifted by {sgn} period(s)", "period-shift")
            # constants are reproduced exactly (weights add up to one)
            gc = opx(ift.makeField(dom, np.full(sh, 3.0))).asnumpy()
            if not np.array_equal(gc, np.full(len(UU), 3.0)):
                return (f"interpolation of the constant 3 gives {gc.tolist()}", "constant")
        return None


def _periodic_multilinear(field, sh, u):
    """Σ_{e∈{0,1}^d} Π_d w_d · field[(floor(u_d)+e_d) mod n_d], w = 1−c or c, c = u − floor(u); `u` = x/dist as Fractions"""
    import itertools
    base = [math.floor(x) for x in u]
    c = [x - b for x, b in zip(u, base)]
    tot = Fraction(0)
    for e in itertools.product((0, 1), repeat=len(sh)):
        w = Fraction(1)
        for ed, cd in zip(e, c):
            w *= cd if ed else 1 - cd
        if w:
            tot += w * Fraction(field[tuple((b + ed) % n for b, ed, n in zip(base, e, sh))])
    return tot


class _Regrid35(type(C02_CLASSES["RegriddingOperator"])):
    name = "RegriddingOperator"

    def extra_oracle(self, case, op, rng):
        """documented: linear interpolation onto the coarser grid — exact on affine data"""
        import nifty.cl as ift
        doms = case["doms"]
        sh = _fullshape(doms)
        sp = case["space"] if case["space"] is not None else 0
        a0 = sum(len(d["shape"]) for d in doms[:sp])
        if any(s < 2 for s in doms[sp]["shape"]):
            return None                     # a single pixel carries no slope
        alpha = rng.randint(-3, 3)
        beta = [rng.randint(-3, 3) for _ in sh]
        x = np.zeros(sh)
        for idx in np.ndindex(*sh):
            x[idx] = alpha + sum(b * i for b, i in zip(beta, idx))
        got = op(ift.makeField(op.domain, x)).asnumpy()
        tsh = list(sh)
        ratio = [1.0] * len(sh)
        for k, N in enumerate(case["new_shape"]):
            ratio[a0 + k] = sh[a0 + k] / N
            tsh[a0 + k] = N
        want = np.zeros(tsh)
        for idx in np.ndindex(*tsh):
            want[idx] = alpha + sum(b * i * r for b, i, r in zip(beta, idx, ratio))
        if not np.array_equal(got, want):
            return ("regridding is not exact on affine data", "affine")
        return None


class _Mask35(type(C02_CLASSES["MaskOperator"])):
    name = "MaskOperator"

    def extra_oracle(self, case, op, rng):
        """documented: keeps exactly the unflagged pixels (in order); the adjoint puts them back and zero-fills"""
        import nifty.cl as ift
        fl = np.array(case["flags"], dtype=bool)
        n = fl.size
        x = np.arange(1, n + 1, dtype=np.float64)
        got = op(ift.makeField(op.domain, x.reshape(op.domain.shape))).asnumpy()
        if not np.array_equal(got, x[~fl]):
            return ("mask does not return exactly the unflagged pixels in order", "mask-select")
        back = op.adjoint_times(ift.makeField(op.target, got)).asnumpy().reshape(-1)
        want = np.where(fl, 0.0, x)
        if not np.array_equal(back, want):
            return ("mask adjoint does not zero-fill the flagged pixels", "mask-adjoint")
        return None


class _Pad35(type(C02_CLASSES["FieldZeroPadder"])):
    name = "FieldZeroPadder"

    def extra_oracle(self, case, op, rng):
        """zero padding keeps every input value (plain: also the total sum)"""
        import nifty.cl as ift
        x = np.array([float(rng.randint(1, 5)) for _ in range(op.domain.size)]).reshape(op.domain.shape)
        y = op(ift.makeField(op.domain, x)).asnumpy()
        if not case["central"] and y.sum() != x.sum():
            return ("plain zero padding changes the sum of the data", "pad-sum")
        if np.count_nonzero(y) < np.count_nonzero(x):
            return ("zero padding lost input values", "pad-lost")
        # documented placement, axis by axis: plain = data first, zeros behind; central = the first n//2+1 entries in front,
        # the last n//2 entries at the end, zeros in the middle (N = n+1, even and odd n included by the generator)
        doms = case["doms"]
        sp = case["space"] if case["space"] is not None else 0
        a0 = sum(len(d["shape"]) for d in doms[:sp])
        ref = x
        for k, N in enumerate(case["new_shape"]):
            ax = a0 + k
            n = ref.shape[ax]
            if N == n:
                continue
            shp = list(ref.shape)
            shp[ax] = N
            z = np.zeros(shp)
            sl = lambda a, b: (slice(None),) * ax + (slice(a, b),)
            if case["central"]:
                ny = n // 2
                z[sl(0, ny + 1)] = ref[sl(0, ny + 1)]
                if ny:
                    z[sl(N - ny, N)] = ref[sl(n - ny, n)]
            else:
                z[sl(0, n)] = ref
            ref = z
        if not np.array_equal(y, ref):
            return ("zero padding does not place the data as documented", "pad-definition")
        return None


CLASSES = {"LinearInterpolator": _Interp(), "RegriddingOperator": _Regrid35(), "MaskOperator": _Mask35(),
           "FieldZeroPadder": _Pad35()}


# ------------------------------------------------------------------------------------------------ LOS (class T)
def _gen_los(rng):
    nd = rng.choice([1, 2, 2, 3])
    shape = [rng.randint(1, 5) for _ in range(nd)]
    dist = [rng.choice(["1/2", "1", "2", "3/10", "7/5"]) for _ in range(nd)]
    nlos = rng.randint(1, 4)
    starts, ends = [], []
    for _ in range(nlos):
        s, e = [], []
        par = rng.randrange(nd) if (nd > 1 and rng.random() < 0.25) else None     # axis-parallel in one coordinate
        mode = rng.choice(["in", "in", "wide", "wide", "corner", "out"])
        for j in range(nd):
            L = shape[j] * Fraction(dist[j])
            if mode == "in":                      # mostly inside, some slightly outside
                a = Fraction(rng.randint(-20, 117), 97) * L
                b = Fraction(rng.randint(-20, 117), 97) * L
            elif mode == "wide":                  # start and end anywhere in [-1.5 L, 2.5 L]: crossing, entering, leaving
                a = Fraction(rng.randint(-145, 242), 97) * L
                b = Fraction(rng.randint(-145, 242), 97) * L
            elif mode == "corner":                # from outside one corner region towards the opposite one
                lowa = rng.random() < 0.5
                a = Fraction(rng.randint(-60, -1) if lowa else rng.randint(98, 160), 97) * L
                b = Fraction(rng.randint(98, 160) if lowa else rng.randint(-60, -1), 97) * L
            else:                                 # entirely outside (same side on at least this axis, sometimes all axes)
                side = rng.random() < 0.5
                a = Fraction(rng.randint(-120, -1) if side else rng.randint(98, 220), 97) * L
                b = Fraction(rng.randint(-120, -1) if side else rng.randint(98, 220), 97) * L
            if par == j:
                b = a
            s.append(str(a))
            e.append(str(b))
        if all(Fraction(a) == Fraction(b) for a, b in zip(s, e)):
            e[0] = str(Fraction(e[0]) + Fraction(shape[0]) * Fraction(dist[0]) / 3)
        starts.append(s)
        ends.append(e)
    return dict(cls="LOSResponse", shape=shape, dist=dist, starts=starts, ends=ends)


def _los_build(case):
    import nifty.cl as ift
    dom = ift.RGSpace(tuple(case["shape"]), distances=tuple(float(Fraction(d)) for d in case["dist"]))
    st = np.array([[float(Fraction(v)) for v in p] for p in case["starts"]]).T
    en = np.array([[float(Fraction(v)) for v in p] for p in case["ends"]]).T
    return dom, ift.LOSResponse(dom, st, en), st, en


def _los_lengths(case):
    return [math.sqrt(float(sum((Fraction(b) - Fraction(a)) ** 2 for a, b in zip(s, e))))
            for s, e in zip(case["starts"], case["ends"])]


def _sampled_line_integral(case, x, M=20000):
    shape = case["shape"]
    dist = np.array([float(Fraction(d)) for d in case["dist"]])
    out = []
    t = (np.arange(M) + 0.5) / M
    for s, e in zip(case["starts"], case["ends"]):
        s = np.array([float(Fraction(v)) for v in s])
        e = np.array([float(Fraction(v)) for v in e])
        P = (s[:, None] + t[None, :] * (e - s)[:, None]) / dist[:, None] + 0.5     # pixel coordinates (pixel centres at i+1/2)
        pix = np.floor(P).astype(np.int64)
        inside = np.all((P > 0) & (P < np.array(shape)[:, None]), axis=0)
        pix = np.clip(pix, 0, np.array(shape)[:, None] - 1)
        vals = x[tuple(pix)] * inside
        out.append(vals.sum() * np.linalg.norm(e - s) / M)
    return np.array(out)


def _exact_pixel_lengths(case):
    """independent of any traversal: for every line and every pixel the length of (segment ∩ pixel box), by clipping the
    parameter interval [0,1] against the 2·ndim faces of that one pixel (float64; exact up to rounding ~1e-16)"""
    shape = case["shape"]
    dist = [float(Fraction(d)) for d in case["dist"]]
    out = np.zeros((len(case["starts"]),) + tuple(shape))
    L = _los_lengths(case)
    for r, (s, e) in enumerate(zip(case["starts"], case["ends"])):
        ps = [float(Fraction(v)) / dj + 0.5 for v, dj in zip(s, dist)]
        pe = [float(Fraction(v)) / dj + 0.5 for v, dj in zip(e, dist)]
        lo_ax, hi_ax = [], []
        for j, n in enumerate(shape):
            d = pe[j] - ps[j]
            i = np.arange(n, dtype=np.float64)
            if d == 0.0:
                inside = (i < ps[j]) & (ps[j] < i + 1)
                lo = np.where(inside, 0.0, 2.0)
                hi = np.where(inside, 1.0, -1.0)
            else:
                t0, t1 = (i - ps[j]) / d, (i + 1 - ps[j]) / d
                lo, hi = np.minimum(t0, t1), np.maximum(t0, t1)
            lo_ax.append(lo)
            hi_ax.append(hi)
        for idx in np.ndindex(*shape):
            lo = max([0.0] + [lo_ax[j][i] for j, i in enumerate(idx)])
            hi = min([1.0] + [hi_ax[j][i] for j, i in enumerate(idx)])
            if hi > lo:
                out[(r,) + idx] = (hi - lo) * L[r]
    return out


def los_oracle(case):
    """LOSResponse returns line integrals of the (piecewise constant) field: Σ_pixels field·|segment ∩ pixel| with the
    intersection lengths computed pixel by pixel (no traversal), for float64 / complex128 / float32 fields; a sampled
    integral as a second, cruder reference; adjointness.  A constructor failure on a well-formed case is a failure."""
    import random
    rng = random.Random(zlib.crc32(json.dumps(case, sort_keys=True).encode()))
    sig = lambda kind, **kw: dict(cls="LOSResponse", kind=kind, **kw)
    try:
        dom, op, st, en = _los_build(case)
    except Exception as e:
        return (f"LOSResponse: constructor raised {type(e).__name__}: {str(e)[:100]} on well-formed starts/ends",
                sig("build-error", error=type(e).__name__))
    try:
        import nifty.cl as ift
        W = _exact_pixel_lengths(case)                      # (nlos,) + shape
        L = np.array(_los_lengths(case))
        Wsum = np.abs(W).reshape(len(L), -1).sum(axis=1)
        for dt in (np.float64, np.complex128, np.float32):
            x = np.array([float(rng.randint(0, 4)) for _ in range(dom.size)]).reshape(dom.shape).astype(dt)
            if dt is np.complex128:
                x = x + 1j * np.array([float(rng.randint(-3, 3)) for _ in range(dom.size)]).reshape(dom.shape)
            got = op(ift.makeField(dom, x)).asnumpy()
            want = np.tensordot(W, x.astype(np.complex128 if dt is np.complex128 else np.float64), axes=len(dom.shape))
            xm = float(np.abs(x).max()) + 1e-30
            # 1e-7 shrink at both ends (2e-7·L), float32 storage of every weight (6e-8 relative), float32 accumulation for
            # float32 fields
            tol = 3e-7 * L * xm + (2e-7 if dt is not np.float32 else 1e-6) * Wsum * xm + 1e-12
            if np.any(np.abs(got - want) > tol):
                i = int(np.argmax(np.abs(got - want) - tol))
                return (f"LOSResponse ({np.dtype(dt).name} field): line {i} gives {got[i]!r}, the line integral "
                        f"Σ field·|segment ∩ pixel| is {want[i]!r}", sig("line-integral"))
            if dt is np.float64:
                got64, x64 = got, x
        want2 = _sampled_line_integral(case, x64)
        tol2 = (sum(case["shape"]) + 4) * L / 20000 * 4 + 1e-4 * L + 1e-6
        if np.any(np.abs(got64 - want2) > tol2):
            i = int(np.argmax(np.abs(got64 - want2) - tol2))
            return (f"LOSResponse: line {i} gives {got64[i]!r}, sampled line integral of the field is {want2[i]!r}",
                    sig("line-integral"))
        y = np.array([float(rng.randint(-3, 3)) for _ in range(op.target.size)])
        AHy = op.adjoint_times(ift.makeField(op.target, y)).asnumpy()
        lhs, rhs = float(np.vdot(y, got64)), float(np.vdot(AHy, x64))
        if abs(lhs - rhs) > 1e-5 * (abs(lhs) + abs(rhs) + 1):
            return (f"LOSResponse: <y,Ax> = {lhs} but <A^H y,x> = {rhs}", sig("adjoint"))
    except Exception as e:
        return (f"LOSResponse: apply raised {type(e).__name__}: {str(e)[:100]}", sig("apply-error", error=type(e).__name__))
    return None


LOS_EPS = "1/10000000"          # the code's end-point shrink 1e-07, sent to the transcription as an exact rational


def _f32(x):
    return float(np.float32(x))


def _los_compare(ctx, case, m, op, R):
    """three-way comparison for one generated LOS case; returns (nontrivial, skipped)"""
    L = _los_lengths(case)
    nlos, npix = R.shape
    # (a) Lean-internal: transcription == independent segment model on the same parameter interval (exact, generic lines only);
    #     the transcribed clipping agrees with clipBox (always)
    for r, ln in enumerate(m["los"]):
        for key in ("eps", "zero"):
            o = ln[key]
            if not o["clip"]:
                ctx.disagree(case, {"line": r, "which": key, "clipT": [o["dmin"], o["dmax"]]}, {"clipBox": "differs"},
                             "LOS: transcribed clipping (d0/d1/dmin/dmax) differs from the independent clipBox")
            if o["generic"]:
                ctx.stat("los-refine-compared:" + key)
                if sorted(map(tuple, o["trav"])) != sorted(map(tuple, o["seg"])):
                    ctx.disagree(case, {"line": r, "which": key, "trav": o["trav"]}, {"seg": o["seg"]},
                                 "LOS: transcription of _comp_traverse differs from the independent segment model (generic line)")
            else:
                ctx.stat("los-refine-skipped-nongeneric:" + key)
    # (b) code vs transcription (eps = 1e-7): same pixels, float32 of the exact weight
    if m["init"] == "ValueError":
        ctx.disagree(case, {"built": True}, {"init": "ValueError"}, "LOS transcription emits an out-of-grid pixel, the code does not")
        return False, False
    T = np.zeros((nlos, npix))
    for r, c, w in m["init"]:
        T[r, c] += _f32(float(Fraction(w)) * L[r])
    Lc = np.array(L)[:, None]
    tolT = 2.5e-7 * np.abs(T) + 1e-10 * Lc
    if np.any(np.abs(R - T) > tolT):
        i = np.unravel_index(int(np.argmax(np.abs(R - T) - tolT)), R.shape)
        ctx.disagree(case, {"entry": [int(i[0]), int(i[1])], "code": float(R[i])}, {"transcription": float(T[i])},
                     "LOSResponse (sigma=0): COO weights vs transcription of _comp_traverse at eps=1e-7 (float32 of the exact value)")
    # (c) code vs independent model on the whole clipped segment (class T: the 1e-7 shrink is inside the tolerance)
    M = np.zeros((nlos, npix))
    for r, c, re, im in m["modes"]["1"]:
        M[r, c] += float(Fraction(re)) * L[r]
    tol = 2.5e-7 * Lc + 2.5e-7 * np.abs(M) + 1e-10 * Lc
    if np.any(np.abs(R - M) > tol):
        i = np.unravel_index(int(np.argmax(np.abs(R - M) - tol)), R.shape)
        ctx.disagree(case, {"entry": [int(i[0]), int(i[1])], "code": float(R[i])}, {"model": float(M[i])},
                     "LOSResponse (sigma=0): pixel weights vs independent exact traversal model (class T)")
    return bool(np.any(M != 0)), False


def _los_cases(ctx, n):
    cases = [_gen_los(ctx.rng) for _ in range(n)]
    for c in cases:
        c["eps"] = LOS_EPS
    return cases


def _los_process(ctx, cases, outs):
    for case, m in zip(cases, outs):
        ctx.stat("cls:LOSResponse")
        ctx.stat("los-ndim:%d" % len(case["shape"]))
        try:
            dom, op, st, en = _los_build(case)
            R = np.asarray(op._smat.toarray(), dtype=np.float64)
        except Exception as e:
            ctx.case(case, False)
            ctx.disagree(case, {"error": type(e).__name__}, m, "LOSResponse could not be built")
            r = los_oracle(case)
            if r is not None:
                ctx.counterexample(case, r[0], r[1])
            continue
        if "error" in m:
            ctx.case(case, False)
            ctx.disagree(case, {"built": True}, m, "LOS model rejected a case the code accepts")
            continue
        nontrivial, _ = _los_compare(ctx, case, m, op, R)
        ctx.case(case, nontrivial)
        ctx.stat("los-hits-grid" if nontrivial else "los-misses-grid")
        r = los_oracle(case)
        if r is not None:
            ctx.counterexample(case, r[0], r[1])


# ------------------------------------------------------------------------------------------------ NFT (class T, model-free)
def _gen_nft(rng):
    kind = rng.choice(["Nufft", "Nufft", "Gridder", "VarPos", "ShiftedFFT"])
    if kind == "ShiftedFFT":
        shape = [rng.randint(1, 5) for _ in range(rng.choice([1, 1, 2]))]
        return dict(cls=kind, shape=shape, dist=[rng.choice([0.1, 0.5, 1.0, 2.0]) for _ in shape], pos=[],
                    eps=rng.choice([1e-6, 1e-9]), seed=rng.randrange(1 << 30), pre=rng.choice([0, 0, 2]))
    if kind == "Gridder":
        shape = [rng.choice([2, 4, 6]), rng.choice([2, 4, 6])]
    else:
        shape = [rng.randint(1, 5) for _ in range(rng.choice([1, 2, 2, 3]))]
    nd = len(shape)
    dist = [rng.choice([0.1, 0.5, 1.0, 0.37, 2.0]) for _ in range(nd)]
    npts = rng.randint(1, 5)
    def coord(d):
        r = rng.random()
        if r < 0.6:
            return round(rng.uniform(-1.5, 1.5) / d, 6)
        if r < 0.8:
            return round(rng.uniform(-7.5, 7.5) / d, 6)                     # several periods away
        return rng.choice([0.0, 1.0, -1.0, 0.5, -0.5, 2.0, -3.0]) / d      # exactly on the period boundary / half period
    pos = [[coord(d) for d in dist] for _ in range(npts)]
    eps = rng.choice([1e-5, 1e-8, 2e-10])
    seed = rng.randrange(1 << 30)
    return dict(cls=kind, shape=shape, dist=dist, pos=pos, eps=eps, seed=seed)


def _centered(shape):
    return np.meshgrid(*[np.arange(n) - n // 2 for n in shape], indexing="ij")


def nft_oracle(case):
    """explicit Fourier sums at the given positions (documented quantity of Nufft / Gridder / VariablePositionNufft)"""
    import nifty.cl as ift
    kind = case["cls"]
    sig = lambda k, **kw: dict(cls=kind, kind=k, **kw)
    rs = np.random.RandomState(case["seed"])
    shape, dist, pos, eps = case["shape"], np.array(case["dist"]), np.array(case["pos"], dtype=np.float64), case["eps"]
    dom = ift.RGSpace(tuple(shape), distances=tuple(dist))
    K = _centered(shape)
    try:
        if kind == "Nufft":
            op = ift.Nufft(dom, pos, eps)
            xv = rs.randint(-3, 4, len(pos)) + 1j * rs.randint(-3, 4, len(pos))
            got = op(ift.makeField(op.domain, xv.astype(np.complex128))).asnumpy()
            want = np.zeros(shape)
            for v, p in zip(xv, pos):
                ph = sum(K[d] * (2 * np.pi * p[d] * dist[d]) for d in range(len(shape)))
                want += np.real(v * np.exp(1j * ph))
            tol = 100 * eps * np.abs(xv).sum() + 1e-11
            if np.abs(got - want).max() > tol:
                return (f"Nufft.times differs from the explicit Fourier sum by {np.abs(got - want).max():.3g} (tol {tol:.3g})",
                        sig("fourier-sum"))
            yv = rs.randint(-3, 4, shape).astype(np.float64)
            gota = op.adjoint_times(ift.makeField(op.target, yv)).asnumpy()
            wanta = np.array([np.sum(yv * np.exp(-1j * sum(K[d] * (2 * np.pi * p[d] * dist[d]) for d in range(len(shape)))))
                              for p in pos])
            tola = 100 * eps * np.abs(yv).sum() + 1e-11
            if np.abs(gota - wanta).max() > tola:
                return (f"Nufft.adjoint_times differs from the explicit Fourier sum by {np.abs(gota - wanta).max():.3g}",
                        sig("fourier-sum-adjoint"))
            lhs, rhs = np.vdot(yv, got).real, np.vdot(gota, xv).real
            if abs(lhs - rhs) > 200 * eps * (np.abs(xv).sum() * np.abs(yv).sum()) + 1e-10:
                return (f"Nufft: Re<y,Ax> = {lhs} but Re<A^H y,x> = {rhs}", sig("adjoint"))
        elif kind == "Gridder":
            from nifty.cl.library.nft import Gridder
            op = Gridder(dom, pos, eps)
            xv = rs.randint(-3, 4, len(pos)) + 1j * rs.randint(-3, 4, len(pos))
            got = op(ift.makeField(op.domain, xv.astype(np.complex128))).asnumpy()
            l, m = K[0] * dist[0], K[1] * dist[1]
            want = np.zeros(shape)
            for v, (u, w) in zip(xv, pos):
                want += np.real(v * np.exp(2j * np.pi * (u * l + w * m)))
            tol = 100 * eps * np.abs(xv).sum() + 1e-11
            if np.abs(got - want).max() > tol:
                return (f"Gridder.times differs from the explicit Fourier sum by {np.abs(got - want).max():.3g} (tol {tol:.3g})",
                        sig("fourier-sum"))
            yv = rs.randint(-3, 4, shape).astype(np.float64)
            gota = op.adjoint_times(ift.makeField(op.target, yv)).asnumpy()
            wanta = np.array([np.sum(yv * np.exp(-2j * np.pi * (u * l + w * m))) for (u, w) in pos])
            if np.abs(gota - wanta).max() > 100 * eps * np.abs(yv).sum() + 1e-11:
                return (f"Gridder.adjoint_times differs from the explicit Fourier sum by {np.abs(gota - wanta).max():.3g}",
                        sig("fourier-sum-adjoint"))
        elif kind == "ShiftedFFT":
            from nifty.cl.library.nft import ShiftedPositionFFT
            npre = case.get("pre", 0)
            pre = ift.UnstructuredDomain(npre) if npre else None
            op = ShiftedPositionFFT(dom, eps, pre)
            lead = (npre,) if npre else ()
            g = rs.randint(-3, 4, lead + tuple(shape)) + 1j * rs.randint(-3, 4, lead + tuple(shape))
            # the shifts live on (codomain, ndim) and are shared by all entries of pre_domain
            delta = rs.randint(-1, 3, op.domain["delta_coord"].shape).astype(np.float64)
            x = ift.MultiField.from_dict({"grid": ift.makeField(op.domain["grid"], g.astype(np.complex128)),
                                          "delta_coord": ift.makeField(op.domain["delta_coord"], delta)}, domain=op.domain)
            got = op(x).asnumpy()
            # documented: delta = 0 is the FFT on the standard grid, an integer delta samples the neighbouring FFT frequencies
            want = np.zeros(lead + tuple(shape), dtype=np.complex128)
            for t in (range(npre) if npre else [None]):
                gt = g if t is None else g[t]
                F = np.fft.fftn(gt) * dom.scalar_dvol
                for k in np.ndindex(*shape):
                    dk = delta[k]
                    src = tuple(int(kk + d) % n for kk, d, n in zip(k, dk, shape))
                    if t is None:
                        want[k] = F[src]
                    else:
                        want[(t,) + k] = F[src]
            tol = 100 * eps * np.abs(g).sum() * dom.scalar_dvol + 1e-11
            if np.abs(got - want).max() > tol:
                return (f"ShiftedPositionFFT with integer shifts differs from the (rolled) FFT by {np.abs(got - want).max():.3g} "
                        f"(tol {tol:.3g})", sig("shifted-fft"))
        else:
            from nifty.cl.library.nft import VariablePositionNufft
            op = VariablePositionNufft(dom, len(pos), eps)
            g = rs.randint(-3, 4, shape) + 1j * rs.randint(-3, 4, shape)
            x = ift.MultiField.from_dict({"grid": ift.makeField(op.domain["grid"], g.astype(np.complex128)),
                                          "coord": ift.makeField(op.domain["coord"], pos)}, domain=op.domain)
            got = op(x).asnumpy()
            want = np.array([np.sum(g * np.exp(-1j * sum(K[d] * (2 * np.pi * p[d] * dist[d]) for d in range(len(shape)))))
                             for p in pos])
            tol = 100 * eps * np.abs(g).sum() + 1e-11
            if np.abs(got - want).max() > tol:
                return (f"VariablePositionNufft differs from the explicit Fourier sum by {np.abs(got - want).max():.3g} "
                        f"(tol {tol:.3g})", sig("fourier-sum"))
            # Jacobian: adjointness and agreement with a finite difference in the coordinates
            lin = op(ift.Linearization.make_var(x))
            jac = lin.jac
            dx = ift.MultiField.from_dict({"grid": ift.makeField(op.domain["grid"], (rs.randint(-2, 3, shape) + 0j)),
                                           "coord": ift.makeField(op.domain["coord"], rs.randint(-2, 3, pos.shape) * 1.0)},
                                          domain=op.domain)
            yv = ift.makeField(op.target, rs.randint(-2, 3, len(pos)) + 1j * rs.randint(-2, 3, len(pos)))
            Jdx = jac(dx)
            JHy = jac.adjoint_times(yv)
            lhs = np.vdot(yv.asnumpy(), Jdx.asnumpy()).real
            rhs = (np.vdot(JHy["grid"].asnumpy(), dx["grid"].asnumpy()).real
                   + np.vdot(JHy["coord"].asnumpy(), dx["coord"].asnumpy()).real)
            scale = np.abs(g).sum() * (1 + np.abs(K[0]).max() * 10) + 1
            if abs(lhs - rhs) > 1e3 * eps * scale * 10 + 1e-8:
                return (f"VariablePositionNufft Jacobian: Re<y,Jx> = {lhs} but Re<J^H y,x> = {rhs}", sig("adjoint"))
            # the coordinate part of the Jacobian against the explicit derivative of the Fourier sum
            #   d/dpos_{j,d} Σ_k g_k e^{-iθ_kj} = Σ_k g_k (-i κ_d 2π dst_d) e^{-iθ_kj}
            # (a finite difference is useless here: the kernel error ~eps is not smooth across a period boundary, so
            #  (f(x+h)-f(x))/h carries noise eps·Σ|g|/h)
            dx0 = ift.MultiField.from_dict({"grid": 0 * dx["grid"], "coord": dx["coord"]}, domain=op.domain)
            an = jac(dx0).asnumpy()
            dxc = dx["coord"].asnumpy()
            wantj = np.zeros(len(pos), dtype=np.complex128)
            for j, p in enumerate(pos):
                ph = np.exp(-1j * sum(K[d] * (2 * np.pi * p[d] * dist[d]) for d in range(len(shape))))
                for d in range(len(shape)):
                    wantj[j] += dxc[j, d] * np.sum(g * (-1j * K[d] * 2 * np.pi * dist[d]) * ph)
            amp = sum(np.abs(K[d]).max() * 2 * np.pi * dist[d] for d in range(len(shape))) * max(np.abs(dxc).max(), 1.0)
            tolj = 100 * eps * np.abs(g).sum() * (amp + 1) + 1e-9
            if np.abs(an - wantj).max() > tolj:
                return ("VariablePositionNufft: coordinate Jacobian differs from the derivative of the explicit Fourier sum "
                        f"by {np.abs(an - wantj).max():.3g} (tol {tolj:.3g})", sig("jacobian"))
    except Exception as e:
        return (f"{kind}: raised {type(e).__name__}: {str(e)[:120]}", sig("apply-error", error=type(e).__name__))
    return None


# ------------------------------------------------------------------------------------------------ NFT on a rational lattice
def _lattice_process(ctx, cases, outs):
    """positions with pos·dst = a/M: the Lean model (Model/Nft.lean) gives E·x and E^H·y exactly as polynomials in
    ω = e^{2πi/M}; the harness evaluates them numerically and compares the real operators at the epsilon-dependent
    tolerance (class T); the exponent table is cross-checked in integers"""
    for case, out in zip(cases, outs):
        ctx.stat("cls:lattice-" + case["cls"])
        ctx.stat("lattice-M:%d" % case["M"])
        ctx.case(case, True)
        if isinstance(out, dict) and "exp" in out and not NFT.model_exp_ok(case, out):
            ctx.disagree(case, {"exp": "python"}, {"exp": out["exp"][:6]}, "NFT lattice: exponent table of the Lean model")
            continue
        r = NFT.check_lattice(case, out)
        if r is not None:
            # model (exact lattice sums) vs code: a correspondence failure, re-examined by vcheck with the model-free oracle
            ctx.disagree(case, {"code": r[1]}, {"model": "Model/Nft.lean"}, r[0])
        r = nft_oracle(case)                     # model-free: explicit Python Fourier sums on the real code
        if r is not None:
            ctx.counterexample(case, r[0], r[1])


def _corpus35(pred):
    import glob
    import os
    from core.ctx import VERIF
    out = []
    for p in sorted(glob.glob(os.path.join(VERIF, "corpus", ID, "*.json"))):
        try:
            d = json.load(open(p))
            c = d.get("case", d)
            if pred(c):
                out.append(c)
        except Exception:
            pass
    return out


def _run_los_and_lattice(ctx, nlos, nlat, nsamp=0):
    """one driver call for both streams (every `lean --run` start costs seconds); corpus cases first"""
    lc = _los_cases(ctx, nlos)
    nc = [NFT.gen_lattice(ctx.rng) for _ in range(nlat)]
    if nlos:
        lc = [dict(c, eps=LOS_EPS) for c in _corpus35(lambda c: c.get("cls") == "LOSResponse")] + lc
    if nlat:
        nc = _corpus35(lambda c: c.get("lattice") is True) + nc
    sc = [_gen_sampling(ctx.rng) for _ in range(nsamp)]
    outs = ctx.model(DRIVER, lc + [NFT.model_line(c) for c in nc] + [_sampling_line(c) for c in sc])
    _los_process(ctx, lc, outs[:len(lc)])
    _lattice_process(ctx, nc, outs[len(lc):len(lc) + len(nc)])
    _sampling_process(ctx, sc, outs[len(lc) + len(nc):])


# ------------------------------------------------------------------------------------------------ nifty.re sampling LOS
def _gen_sampling(rng):
    nd = rng.choice([1, 2, 3])
    shape = [rng.randint(2, 5) for _ in range(nd)]
    dist = [rng.choice([0.5, 1.0, 2.0]) for _ in range(nd)]
    nlos = rng.randint(1, 3)
    ext = [n * d for n, d in zip(shape, dist)]
    st = [[round(rng.uniform(0.05, 0.95) * e, 4) for e in ext] for _ in range(nlos)]
    en = [[round(rng.uniform(0.05, 0.95) * e, 4) for e in ext] for _ in range(nlos)]
    return dict(cls="SamplingCartesianGridLOS", shape=shape, dist=dist, starts=st, ends=en,
                n=rng.choice([1, 7, 50]), coef=[rng.randint(-3, 3) for _ in range(nd + 1)],
                field=[rng.randint(-4, 4) for _ in range(int(np.prod(shape)))])


def _sampling_line(case):
    """the same float64 numbers the code sees, as exact rationals (class F inputs), for Model/ResponseSampling.lean"""
    return dict(cls="SamplingLOS", shape=case["shape"], dist=[U.fr(d) for d in case["dist"]],
                starts=[[U.fr(v) for v in p] for p in case["starts"]], ends=[[U.fr(v) for v in p] for p in case["ends"]],
                n=case["n"], x=[str(v) for v in case["field"]])


def _sampling_process(ctx, cases, outs):
    """code (jax, float64) vs the exact transcription of `_los` on an arbitrary integer field (class T, 1e-9)"""
    for case, m in zip(cases, outs):
        ctx.stat("cls:" + case["cls"])
        ctx.case(case, True)
        r = sampling_oracle(case)
        if r is not None:
            ctx.counterexample(case, r[0], r[1])
        if not isinstance(m, dict) or "vals" not in m:
            ctx.disagree(case, {"built": True}, m, "sampling LOS model rejected a generated case")
            continue
        try:
            import jax
            jax.config.update("jax_enable_x64", True)
            import jax.numpy as jnp
            from nifty.re.extra.sampling_los import SamplingCartesianGridLOS
            st, en = np.array(case["starts"]), np.array(case["ends"])
            op = SamplingCartesianGridLOS(jnp.array(st), jnp.array(en), shape=tuple(case["shape"]),
                                          distances=tuple(case["dist"]), n_sampling_points=case["n"])
            got = np.asarray(op(jnp.array(np.array(case["field"], dtype=np.float64).reshape(case["shape"]))))
        except Exception as e:
            ctx.disagree(case, {"error": type(e).__name__}, m, "SamplingCartesianGridLOS raised on a generated case")
            continue
        norm = np.linalg.norm(en - st, axis=1)
        for i, v in enumerate(m["vals"]):
            if v is None:
                ok = bool(np.isnan(got[i]))
            else:
                want = float(Fraction(v)) * norm[i]
                ok = abs(got[i] - want) <= 1e-9 * (abs(want) + 4 * norm[i])
            if not ok:
                ctx.disagree(case, {"line": i, "code": float(got[i])}, {"model": v, "norm": float(norm[i])},
                             "SamplingCartesianGridLOS vs the transcription of _los on an integer field (class T, 1e-9)")
                break


def sampling_oracle(case):
    """nifty.re line-of-sight by sampling: exact (midpoint rule + linear interpolation) on affine fields"""
    sig = lambda k, **kw: dict(cls=case["cls"], kind=k, **kw)
    try:
        import jax
        jax.config.update("jax_enable_x64", True)
        import jax.numpy as jnp
        from nifty.re.extra.sampling_los import SamplingCartesianGridLOS
        shape, dist = case["shape"], np.array(case["dist"])
        st, en = np.array(case["starts"]), np.array(case["ends"])
        op = SamplingCartesianGridLOS(jnp.array(st), jnp.array(en), shape=tuple(shape), distances=tuple(dist),
                                      n_sampling_points=case["n"])
        c = case["coef"]
        x = np.zeros(shape)
        for idx in np.ndindex(*shape):
            x[idx] = c[0] + sum(a * i for a, i in zip(c[1:], idx))
        got = np.asarray(op(jnp.array(x)))
        l2i = (np.array(shape) - 1) / np.array(shape) / dist
        mid = (st + en) / 2 * l2i
        want = (c[0] + (mid * np.array(c[1:])).sum(axis=1)) * np.linalg.norm(en - st, axis=1)
        if np.abs(got - want).max() > 1e-9 * (np.abs(want).max() + 1):
            return (f"SamplingCartesianGridLOS on an affine field gives {got.tolist()}, closed form {want.tolist()}",
                    sig("affine-line-integral"))
    except Exception as e:
        return (f"SamplingCartesianGridLOS raised {type(e).__name__}: {str(e)[:120]}", sig("apply-error", error=type(e).__name__))
    return None


# ------------------------------------------------------------------------------------------------ entry points
def oracle(case):
    cls = case.get("cls")
    if cls == "LOSResponse":
        return los_oracle(case)
    if cls in ("Nufft", "Gridder", "VarPos", "ShiftedFFT"):
        return nft_oracle(case)
    if cls == "SamplingCartesianGridLOS":
        return sampling_oracle(case)
    return E.oracle(case, CLASSES)


def shrink(case):
    if case.get("cls") in ("LOSResponse", "SamplingCartesianGridLOS") and len(case["starts"]) > 1:
        for i in range(len(case["starts"])):
            c = dict(case)
            c["starts"] = [case["starts"][i]]
            c["ends"] = [case["ends"][i]]
            yield c
    if case.get("cls") in ("Nufft", "Gridder", "VarPos") and len(case["pos"]) > 1:
        for i in range(len(case["pos"])):
            c = dict(case)
            c["pos"] = [case["pos"][i]]
            yield c
    if case.get("cls") == "LinearInterpolator" and len(case["points"]) > 1:
        for i in range(len(case["points"])):
            c = dict(case)
            c["points"] = [case["points"][i]]
            yield c


def run(ctx):
    E.run_table(ctx, CLASSES, DRIVER, ctx.n(24, 400), ctx.n(4, 30), "C35")
    _run_los_and_lattice(ctx, ctx.n(30, 800), ctx.n(12, 600), ctx.n(4, 100))
    for _ in range(ctx.n(120, 1500)):
        c = _gen_nft(ctx.rng)
        ctx.stat("cls:" + c["cls"])
        ctx.case(c, True)
        r = nft_oracle(c)
        if r is not None:
            ctx.counterexample(c, r[0], r[1])


def search(ctx):
    for _ in range(ctx.n(100, 500)):
        for gen, orc in ((_gen_los, los_oracle), (_gen_nft, nft_oracle)):
            c = gen(ctx.rng)
            r = orc(c)
            if r is not None:
                ctx.counterexample(c, r[0], r[1])
                return
    for name, spec in CLASSES.items():
        for _ in range(40):
            c = spec.gen(ctx.rng, ctx.quick)
            r = E.oracle(c, CLASSES)
            if r is not None:
                ctx.counterexample(c, r[0], r[1])
                return
