"""C35 helper — Nufft / Gridder / VariablePositionNufft at positions on a rational lattice vs the exact Lean model.

Positions with pos_{j,d}·dist_d = a_{j,d}/M (integers a, M > 0) make every matrix entry a power of ω = exp(2πi/M):
E[k,j] = ω^{Σ_d (k_d − N_d//2)·a_{j,d}}.  Model/Nft.lean computes the products E·x and Eᴴ·y exactly as coefficient lists
over the Gaussian rationals (value = Σ_m c[m] ω^m, theorems `nft_mono_apply`, `nft_mono_applyAdj` of Lemmas/Nft.lean);
here the lists are evaluated at ω numerically and compared with what the real operators return (class T, tolerance
100·eps·Σ|input| + 1e-11, the same as `nft_oracle` in c35.py).

Pure helpers: nothing from harness/core is needed; `nifty.cl` is imported lazily inside `check_lattice` (vcheck.py has put
NIFTY_REPO on sys.path by then).  x / y / grid are drawn from np.random.RandomState(case["seed"]) in the same order as
`nft_oracle` does for the same kind, so both checks look at the same vectors.
"""
import json
from fractions import Fraction

import numpy as np

KINDS = ("Nufft", "Gridder", "VarPos")
MS = (1, 2, 3, 4, 5, 8, 12)
DISTS = (0.1, 0.5, 1.0, 2.0, 0.37)
EPSS = (1e-5, 1e-8, 2e-10)


# ------------------------------------------------------------------------------------------------ generator
def gen_lattice(rng):
    """one lattice case; `rng` is a random.Random"""
    kind = rng.choice(["Nufft", "Nufft", "Gridder", "VarPos"])
    M = rng.choice(MS)
    if kind == "Gridder":
        shape = [rng.choice([2, 4, 6]), rng.choice([2, 4, 6])]
    else:
        shape = [rng.randint(1, 5) for _ in range(rng.choice([1, 2, 2, 3]))]
    dist = [rng.choice(DISTS) for _ in shape]
    npts = rng.randint(1, 5)
    special = sorted({0, M, -M, M // 2, -(M // 2), 2 * M, -2 * M, M - 1, 1 - M})

    def coord():
        return rng.choice(special) if rng.random() < 0.4 else rng.randint(-2 * M, 2 * M)

    a = [[coord() for _ in shape] for _ in range(npts)]
    pos = [[aj / (M * d) for aj, d in zip(row, dist)] for row in a]
    return dict(cls=kind, lattice=True, M=M, shape=shape, dist=dist, a=a, pos=pos,
                eps=rng.choice(EPSS), seed=rng.randrange(1 << 30))


# ------------------------------------------------------------------------------------------------ vectors
def draw(case):
    """(x, y): x = P complex point values, y = grid values (flattened row-major) — same draws as nft_oracle"""
    rs = np.random.RandomState(case["seed"])
    shape, npts = tuple(case["shape"]), len(case["a"])
    if case["cls"] in ("Nufft", "Gridder"):
        xv = rs.randint(-3, 4, npts) + 1j * rs.randint(-3, 4, npts)
        yv = rs.randint(-3, 4, shape).astype(np.float64) + 0j
    else:
        yv = rs.randint(-3, 4, shape) + 1j * rs.randint(-3, 4, shape)
        xv = np.zeros(npts, dtype=np.complex128)       # VariablePositionNufft only has the grid → points direction
    return np.asarray(xv, dtype=np.complex128), np.asarray(yv, dtype=np.complex128)


def _cq(z):
    return [str(int(round(z.real))), str(int(round(z.imag)))]


def model_line(case):
    """the JSON object for Driver/C35.lean (handler `handleNft` of Model/NftProto.lean)"""
    xv, yv = draw(case)
    return {"cls": "NftLattice", "M": int(case["M"]), "shape": [int(n) for n in case["shape"]],
            "a": [[int(v) for v in row] for row in case["a"]],
            "x": [_cq(z) for z in xv], "y": [_cq(z) for z in yv.reshape(-1)]}


def _eval_lists(lists, M):
    w = np.exp(2j * np.pi * np.arange(M) / M)
    res = np.zeros(len(lists), dtype=np.complex128)
    for i, c in enumerate(lists):
        coef = np.array([complex(float(Fraction(re)), float(Fraction(im))) for re, im in c], dtype=np.complex128)
        if len(coef) != M:
            raise ValueError("coefficient list of the wrong length")
        res[i] = np.sum(coef * w)
    return res


def eval_model(case, out):
    """(Ex, EHy): the model's coefficient lists evaluated at ω = exp(2πi/M); Ex has the grid shape"""
    M = int(case["M"])
    Ex = _eval_lists(out["Ex"], M).reshape(tuple(case["shape"]))
    EHy = _eval_lists(out["EHy"], M)
    return Ex, EHy


def model_exp_ok(case, out):
    """the exponent table of the model against the definition, in integer arithmetic (cheap cross-check of the driver)"""
    M, shape, a = int(case["M"]), case["shape"], case["a"]
    want = []
    for r, k in enumerate(np.ndindex(*shape)):
        for j, row in enumerate(a):
            want.append([r, j, sum((kd - n // 2) * ad for kd, n, ad in zip(k, shape, row)) % M])
    return out.get("exp") == want


# ------------------------------------------------------------------------------------------------ real code vs model
def deviations(case, out):
    """[(name, max abs deviation, tolerance)] for the directions the operator has; raises on errors of the real code"""
    import nifty.cl as ift
    kind = case["cls"]
    shape, dist, eps = case["shape"], np.array(case["dist"]), case["eps"]
    pos = np.array(case["pos"], dtype=np.float64)
    dom = ift.RGSpace(tuple(shape), distances=tuple(dist))
    xv, yv = draw(case)
    Ex, EHy = eval_model(case, out)
    res = []
    if kind in ("Nufft", "Gridder"):
        if kind == "Nufft":
            op = ift.Nufft(dom, pos, eps)
        else:
            from nifty.cl.library.nft import Gridder
            op = Gridder(dom, pos, eps)
        got = op(ift.makeField(op.domain, xv.astype(np.complex128))).asnumpy()
        res.append(("times", float(np.abs(got - Ex.real).max()), 100 * eps * float(np.abs(xv).sum()) + 1e-11))
        gota = op.adjoint_times(ift.makeField(op.target, yv.real.astype(np.float64))).asnumpy()
        res.append(("adjoint", float(np.abs(gota - EHy).max()), 100 * eps * float(np.abs(yv).sum()) + 1e-11))
    else:
        from nifty.cl.library.nft import VariablePositionNufft
        op = VariablePositionNufft(dom, len(pos), eps)
        x = ift.MultiField.from_dict({"grid": ift.makeField(op.domain["grid"], yv.astype(np.complex128)),
                                      "coord": ift.makeField(op.domain["coord"], pos)}, domain=op.domain)
        got = op(x).asnumpy()
        res.append(("adjoint", float(np.abs(got - EHy).max()), 100 * eps * float(np.abs(yv).sum()) + 1e-11))
    return res


def check_lattice(case, out):
    """None, or (message, signature): the real operator vs the evaluated exact model"""
    kind = case["cls"]
    sig = lambda k, **kw: dict(cls=kind, kind=k, **kw)
    if not isinstance(out, dict) or "error" in out or "Ex" not in out or "EHy" not in out:
        return (f"{kind}: the lattice model rejected the case: {out!r}", sig("lattice-model-error"))
    try:
        devs = deviations(case, out)
    except Exception as e:  # noqa: BLE001 — every failure of the real code becomes a canonical signature
        return (f"{kind} on lattice positions raised {type(e).__name__}: {e}", sig("apply-error", error=type(e).__name__))
    for name, dev, tol in devs:
        if not (dev <= tol):
            if name == "times":
                return (f"{kind}.times differs from the exact lattice Fourier sum E·x by {dev:.3g} (tol {tol:.3g})",
                        sig("lattice-fourier-sum"))
            what = "value" if kind == "VarPos" else "adjoint_times"
            return (f"{kind} {what} differs from the exact lattice Fourier sum E^H·y by {dev:.3g} (tol {tol:.3g})",
                    sig("lattice-fourier-sum-adjoint"))
    return None


# ------------------------------------------------------------------------------------------------ self-test
_TMP_DRIVER = """import NiftyVerif.Model.NftProto
open Lean NiftyVerif NiftyVerif.Proto
def handleT (j : Json) : Json := match NiftyVerif.Nft.handleNft j with | some o => o | none => jErr "not-nft"
def main : IO Unit := run handleT
"""


def _selftest(n=50, seed=0):
    import os
    import random
    import subprocess
    import sys
    import tempfile
    here = os.path.dirname(os.path.abspath(__file__))
    lean_dir = os.path.normpath(os.path.join(here, "..", "..", "lean"))
    sys.path.insert(0, os.path.normpath(os.path.join(here, "..")))
    from core.ctx import REPO  # noqa: F401 — puts NIFTY_REPO on sys.path
    rng = random.Random(seed)
    cases = [gen_lattice(rng) for _ in range(n)]
    with tempfile.NamedTemporaryFile("w", suffix=".lean", dir="/tmp", delete=False) as f:
        f.write(_TMP_DRIVER)
        drv = f.name
    try:
        inp = "".join(json.dumps(model_line(c)) + "\n" for c in cases)
        p = subprocess.run(["lake", "env", "lean", "--run", drv], cwd=lean_dir, input=inp, capture_output=True, text=True)
        outs = [json.loads(l) for l in p.stdout.splitlines() if l.startswith("{")]
    finally:
        os.unlink(drv)
    if len(outs) != len(cases):
        print("driver failed:", p.stdout[-500:], p.stderr[-500:])
        return 2
    worst = {}
    bad = 0
    for c, o in zip(cases, outs):
        if not model_exp_ok(c, o):
            print("exponent table differs:", json.dumps(c))
            bad += 1
        r = check_lattice(c, o)
        if r is not None:
            print("FAIL", r, json.dumps(c))
            bad += 1
            continue
        for name, dev, tol in deviations(c, o):
            key = (c["cls"], name)
            w = worst.get(key, (0.0, 0.0, 0))
            worst[key] = (max(w[0], dev / tol), max(w[1], dev), w[2] + 1)
    for key in sorted(worst):
        print(f"{key[0]:8s} {key[1]:8s} n={worst[key][2]:3d}  max dev/tol = {worst[key][0]:.3g}  max abs dev = {worst[key][1]:.3g}")
    print(f"{len(cases)} cases, {bad} failures")
    return 1 if bad else 0


if __name__ == "__main__":
    import sys
    n = int(sys.argv[1]) if len(sys.argv) > 1 else 50
    s = int(sys.argv[2]) if len(sys.argv) > 2 else 0
    raise SystemExit(_selftest(n, s))
