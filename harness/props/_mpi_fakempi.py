"""_mpi_fakempi.py — fake MPI communicator for NIFTy checks (real MPI cannot be loaded here: libmpi is missing).

Two execution modes with the same semantics and the same Result:
  mode="coop" (default): ONE forked child process runs all ranks as cooperatively scheduled threads — exactly one rank
      executes at a time, control changes hands only inside communicator calls, and the module-global state of
      `nifty.cl.random` (`_sseq`, `_rng`; the only rank-specific global state in nifty.cl) is saved/installed at every
      switch, so every rank sees its own private RNG stacks.  No inter-process latency: fast on a loaded machine, and
      the schedule is fully deterministic given `seed`.
  mode="procs": every rank runs in its own FORKED child process connected to a hub in the parent by pipes (true
      process isolation of all module state; slower: every communicator call is a round trip through the OS).
In both modes all communicator calls go through one scheduler, which gives

  * SYNCHRONOUS point-to-point semantics: `send/Send` returns only when the matching `recv/Recv` has been posted
    (the strictest behaviour MPI allows; eager buffering of small messages is what hides deadlocks in real runs);
  * exact deadlock detection: when no rank is computing, not all are finished and no transition is enabled, the run
    is stopped at once and the blocked calls are reported (plus a wall-clock timeout for ranks that never return);
  * a recording of every communicator call per rank ([name, peer]) and of the global firing order;
  * optionally a seeded scheduler: with `seed=<int>` the hub waits until every rank is blocked or finished and then
    fires ONE enabled transition chosen by `random.Random(seed)` — deterministic exploration of interleavings.
    With `seed=None` transitions fire as soon as they are enabled.

API
---
run(nranks, fn, *args, seed=None, timeout=120.0, quiet=True, mode="coop") -> Result
    child r executes `fn(comm, *args)` with `comm = FakeComm` of that rank (args are inherited through fork, no
    pickling); the return value must be picklable.  Fork BEFORE importing jax (raises if jax is loaded).
Result.values[r]   return value of rank r (None if it did not return)
Result.errors[r]   None | [exception type name, message]
Result.calls[r]    list of [name, peer] (peer = dest / source / root; None for allgather, allreduce, Barrier),
                   plus ["mark", label] entries written by `comm.mark(label)` (local, never blocks)
Result.descs[r]    parallel list: type name of the pickled payload for send/bcast-root, "" otherwise
Result.order       global firing order: ["p2p", sender, receiver, kind] | ["coll", name, root]
Result.deadlock    None | {"blocked": {rank: [name, peer]}, "finished": [...], "failed": [...]}
Result.timed_out   bool (wall-clock limit; scale limits with `load_factor()` so that a loaded machine does not look like a hang)
Result.ok          all ranks returned normally

`comm.sub(k)` (coop mode only) returns a communicator over ranks 0..k-1 (None on the others): lets one run exercise
several task counts.
FakeComm implements what NIFTy uses: Get_size, Get_rank, send, recv, Send, Recv, bcast, Bcast, allgather,
allreduce (SUM = Python `+`, reduced along a tree whose shape and rank order change from call to call — the same on
all ranks —, as an MPI library may do), Barrier, gather, and `mark(label)`.
Inside the children a stub module `mpi4py.MPI` is installed (`Intracomm = FakeComm`, `COMM_WORLD = comm`) so that
`isinstance(comm, mpi4py.MPI.Intracomm)` checks in the library pass.
"""
import io
import os
import pickle
import random
import sys
import time
import traceback
import types
from multiprocessing import Pipe
from multiprocessing.connection import wait as _wait

P2P_SEND = {"send": "obj", "Send": "buf"}
P2P_RECV = {"recv": "obj", "Recv": "buf"}
COLLECTIVES = ("allgather", "allreduce", "bcast", "Bcast", "Barrier", "gather")


class FakeMPIError(RuntimeError):
    pass


class FakeComm:
    """communicator object living in a rank's process; talks to the hub through `conn`"""

    def __init__(self, rank, size, conn):
        self._rank, self._size, self._conn = rank, size, conn

    # -- basics --------------------------------------------------------------------------------
    def Get_size(self):
        return self._size

    def Get_rank(self):
        return self._rank

    size = property(Get_size)
    rank = property(Get_rank)

    def mark(self, label):
        self._conn.send(("mark", str(label)))

    def _call(self, name, peer, payload, desc=""):
        self._conn.send(("call", name, peer, payload, desc))
        tag, data = self._conn.recv()
        if tag == "err":
            raise FakeMPIError(data)
        return data

    # -- point to point ------------------------------------------------------------------------
    def send(self, obj, dest, tag=0):
        self._call("send", int(dest), pickle.dumps(obj), type(obj).__name__)

    def recv(self, buf=None, source=None, tag=None, status=None):
        if source is None:
            raise FakeMPIError("recv without explicit source is not supported by the fake communicator")
        return pickle.loads(self._call("recv", int(source), None))

    def Send(self, buf, dest, tag=0):
        import numpy as np
        a = np.ascontiguousarray(buf)
        self._call("Send", int(dest), (a.dtype.str, a.shape, a.tobytes()), "buffer")

    def Recv(self, buf, source=None, tag=None, status=None):
        import numpy as np
        if source is None:
            raise FakeMPIError("Recv without explicit source is not supported by the fake communicator")
        dt, shp, raw = self._call("Recv", int(source), None)
        if len(raw) != buf.nbytes:
            raise FakeMPIError(f"message truncated: {len(raw)} bytes sent, buffer has {buf.nbytes}")
        buf.reshape(-1).view(np.uint8)[...] = np.frombuffer(raw, dtype=np.uint8)

    # -- collectives ---------------------------------------------------------------------------
    def Barrier(self):
        self._call("Barrier", None, None)

    barrier = Barrier

    def allgather(self, obj):
        return [pickle.loads(b) for b in self._call("allgather", None, pickle.dumps(obj))]

    def gather(self, obj, root=0):
        res = self._call("gather", int(root), pickle.dumps(obj))
        return [pickle.loads(b) for b in res] if self._rank == root else None

    def allreduce(self, obj, op=None):
        if op is not None:
            raise FakeMPIError("only the default SUM is supported")
        vals = [pickle.loads(b) for b in self._call("allreduce", None, pickle.dumps(obj))]
        # MPI libraries reduce along a tree of their own choosing: the order of a non-commutative `+` (lists!) is not
        # rank order in general.  Every call uses another rank order and tree shape — the same one on all ranks (the
        # counter advances identically everywhere because collectives are called in the same sequence).
        k = self.__dict__.get("_nreduce", 0)
        self.__dict__["_nreduce"] = k + 1
        n = len(vals)
        order = [(i + k) % n for i in range(n)]
        if k % 2:
            order.reverse()

        def tree(idx):
            if len(idx) == 1:
                return vals[idx[0]]
            cut = 1 + (k % (len(idx) - 1)) if len(idx) > 2 else 1
            return tree(idx[:cut]) + tree(idx[cut:])
        return tree(order)

    def bcast(self, obj=None, root=0):
        pl = pickle.dumps(obj) if self._rank == root else None
        return pickle.loads(self._call("bcast", int(root), pl, type(obj).__name__ if self._rank == root else ""))

    def Bcast(self, buf, root=0):
        import numpy as np
        if self._rank == root:
            a = np.ascontiguousarray(buf)
            self._call("Bcast", int(root), a.tobytes(), "buffer")
        else:
            raw = self._call("Bcast", int(root), None)
            if len(raw) != buf.nbytes:
                raise FakeMPIError(f"Bcast size mismatch: {len(raw)} vs {buf.nbytes}")
            buf.reshape(-1).view(np.uint8)[...] = np.frombuffer(raw, dtype=np.uint8)


class Result:
    def __init__(self, n):
        self.values = [None] * n
        self.errors = [None] * n
        self.calls = [[] for _ in range(n)]
        self.descs = [[] for _ in range(n)]
        self.order = []
        self.deadlock = None
        self.timed_out = False
        self.cpu_s = None           # CPU seconds the rank process(es) used, known when the run was stopped by the time limit
        self.returned = [False] * n

    @property
    def ok(self):
        return all(self.returned) and not self.deadlock and not self.timed_out

    def p2p_calls(self, r):
        return [c for c in self.calls[r] if c[0] != "mark"]

    def segments(self, r):
        """calls of rank r split at the marks: {label: [calls...]} (calls before the first mark under '')"""
        out, cur = {}, ""
        for c in self.calls[r]:
            if c[0] == "mark":
                cur = c[1]
                out.setdefault(cur, [])
            else:
                out.setdefault(cur, []).append(c)
        return out

    def summary(self):
        return dict(ok=self.ok, errors=self.errors, deadlock=self.deadlock, timed_out=self.timed_out)


def _install_mpi4py_stub(comm):
    mod = types.ModuleType("mpi4py.MPI")
    mod.Intracomm = FakeComm
    mod.COMM_WORLD = comm
    mod.SUM = None
    sys.modules["mpi4py.MPI"] = mod
    try:
        import mpi4py
        mpi4py.MPI = mod
    except Exception:
        pkg = types.ModuleType("mpi4py")
        pkg.MPI = mod
        sys.modules["mpi4py"] = pkg


def _child(rank, size, conn, fn, args, quiet):
    code = 0
    try:
        if quiet:
            devnull = os.open(os.devnull, os.O_WRONLY)
            os.dup2(devnull, 1)
            os.dup2(devnull, 2)
        comm = FakeComm(rank, size, conn)
        _install_mpi4py_stub(comm)
        try:
            val = fn(comm, *args)
            conn.send(("done", pickle.dumps(val)))
        except BaseException as e:  # noqa: BLE001 - everything is reported to the hub
            conn.send(("exc", type(e).__name__, str(e)[:2000], traceback.format_exc()[-3000:]))
    except BaseException:
        code = 3
    finally:
        try:
            conn.close()
        finally:
            os._exit(code)


_LOAD_FACTOR = None


def _nop(comm):
    comm.Barrier()
    return comm.Get_rank()


def load_factor():
    """how much slower than an idle machine are we right now?  (wall time of a trivial 2-rank run / 0.15 s, clamped to
    [1, 40]; measured once per process).  Callers multiply their wall-clock limits with it: a genuine hang still hits the
    limit, an overloaded machine does not produce a spurious 'does not complete'."""
    global _LOAD_FACTOR
    if _LOAD_FACTOR is None:
        t0 = time.time()
        run(2, _nop, timeout=600.0)
        _LOAD_FACTOR = min(40.0, max(2.0, (time.time() - t0) / 0.15))
    return _LOAD_FACTOR


def run(nranks, fn, *args, seed=None, timeout=120.0, quiet=True, mode="coop"):
    if "jax" in sys.modules:
        raise RuntimeError("fakempi.run forks: call it before jax is imported")
    if mode == "coop":
        return _run_coop(nranks, fn, args, seed, timeout, quiet)
    return _run_procs(nranks, fn, args, seed, timeout, quiet)


# ---------------------------------------------------------------------------------------------------------
# mode "coop": one forked child, ranks = cooperatively scheduled threads
class _CoopComm(FakeComm):
    def __init__(self, rank, size, sched, group=None):
        self._rank, self._size, self._sched, self._group = rank, size, sched, group

    def sub(self, k):
        """communicator over the ranks 0..k-1 of this one (None on the other ranks); coop mode only"""
        return _CoopComm(self._rank, k, self._sched, group=k) if self._rank < k else None

    def mark(self, label):
        self._sched.res.calls[self._rank].append(["mark", str(label)])
        self._sched.res.descs[self._rank].append("")

    def _call(self, name, peer, payload, desc=""):
        s, r = self._sched, self._rank
        s.res.calls[r].append([name, peer])
        s.res.descs[r].append(desc)
        if (name in P2P_SEND or name in P2P_RECV) and not (isinstance(peer, int) and 0 <= peer < self._size):
            raise FakeMPIError(f"invalid rank {peer}")
        s.pending[r] = (name, peer, payload, self._group)
        s.back.release()          # hand control to the scheduler ...
        s.go[r].acquire()         # ... and wait to be resumed
        tag, data = s.reply.pop(r)
        if tag == "err":
            raise FakeMPIError(data)
        return data


class _CoopSched:
    def __init__(self, n, fn, args, seed):
        import threading
        self.n, self.fn, self.args = n, fn, args
        self.res = Result(n)
        self.rng = random.Random(seed) if seed is not None else None
        self.pending, self.reply = {}, {}
        self.go = [threading.Semaphore(0) for _ in range(n)]
        self.back = threading.Semaphore(0)
        self.finished = set()
        self.failed = set()
        self.comms = [_CoopComm(r, n, self) for r in range(n)]
        try:
            import nifty.cl.random as rnd
            self.rnd = rnd
            blob = pickle.dumps((rnd._sseq, rnd._rng))
            self.state = [pickle.loads(blob) for _ in range(n)]
        except ImportError:
            self.rnd, self.state = None, None
        self.threads = [threading.Thread(target=self._body, args=(r,), daemon=True) for r in range(n)]

    def _body(self, r):
        self.go[r].acquire()
        try:
            val = self.fn(self.comms[r], *self.args)
            self.res.values[r] = pickle.loads(pickle.dumps(val))   # same copy semantics as a process boundary
            self.res.returned[r] = True
        except BaseException as e:  # noqa: BLE001
            self.res.errors[r] = [type(e).__name__, str(e)[:2000]]
            self.res.tracebacks = getattr(self.res, "tracebacks", {})
            self.res.tracebacks[r] = traceback.format_exc()[-3000:]
            self.failed.add(r)
        self.finished.add(r)
        self.back.release()

    def _resume(self, r):
        if self.rnd is not None:
            self.rnd._sseq, self.rnd._rng = self.state[r]
        mod = sys.modules.get("mpi4py.MPI")
        if mod is not None:
            mod.COMM_WORLD = self.comms[r]
        self.go[r].release()
        self.back.acquire()
        if self.rnd is not None:
            self.state[r] = (self.rnd._sseq, self.rnd._rng)

    def _enabled(self):
        ts = []
        n, pending = self.n, self.pending
        for b, (name, peer, _, g) in sorted(pending.items()):
            if name in P2P_SEND:
                q = pending.get(peer)
                if q is not None and q[0] in P2P_RECV and q[1] == b and peer != b and q[3] == g:
                    ts.append(("p2p", b, peer))
        for g in sorted({p[3] or n for p in pending.values()}):
            members = range(g)
            if all(r in pending and (pending[r][3] or n) == g for r in members):
                names = {(pending[r][0], pending[r][1]) for r in members}
                if len(names) == 1 and next(iter(names))[0] in COLLECTIVES:
                    ts.append(("coll",) + next(iter(names)) + (g,))
        return ts

    def _fire(self, t):
        pending, reply, res = self.pending, self.reply, self.res
        if t[0] == "p2p":
            _, b, a = t
            sname, _, payload, _ = pending.pop(b)
            rname, _, _, _ = pending.pop(a)
            res.order.append(["p2p", b, a, sname + "/" + rname])
            if P2P_SEND[sname] != P2P_RECV[rname]:
                msg = f"message kind mismatch: {sname} of rank {b} matched by {rname} of rank {a}"
                reply[a] = reply[b] = ("err", msg)
            else:
                reply[a], reply[b] = ("ok", payload), ("ok", None)
            return [a, b]
        _, name, root, g = t
        res.order.append(["coll", name, root] + ([g] if g != self.n else []))
        pls = [pending[r][2] for r in range(g)]
        for r in range(g):
            del pending[r]
        for r in range(g):
            if name in ("allgather", "allreduce"):
                reply[r] = ("ok", pls)
            elif name == "gather":
                reply[r] = ("ok", pls if r == root else None)
            elif name in ("bcast", "Bcast"):
                reply[r] = ("ok", pls[root])
            else:
                reply[r] = ("ok", None)
        return list(range(g))

    def run(self):
        for t in self.threads:
            t.start()
        runnable = list(range(self.n))
        while True:
            ts = self._enabled()
            opts = [("run", r) for r in runnable] + [("fire", t) for t in ts]
            if not opts:
                if len(self.finished) < self.n:
                    self.res.deadlock = dict(
                        blocked={r: [self.pending[r][0], self.pending[r][1]] for r in sorted(self.pending)},
                        finished=sorted(self.finished - self.failed), failed=sorted(self.failed))
                break
            kind, x = opts[self.rng.randrange(len(opts))] if self.rng is not None else opts[0]
            if kind == "run":
                runnable.remove(x)
                self._resume(x)
            else:
                runnable += self._fire(x)
        return self.res


def _run_coop(nranks, fn, args, seed, timeout, quiet):
    sys.stdout.flush()
    sys.stderr.flush()
    pc, cc = Pipe(duplex=False)
    pid = os.fork()
    if pid == 0:
        code = 0
        try:
            pc.close()
            if quiet:
                devnull = os.open(os.devnull, os.O_WRONLY)
                os.dup2(devnull, 1)
                os.dup2(devnull, 2)
            _install_mpi4py_stub(None)
            res = _CoopSched(nranks, fn, args, seed).run()
            cc.send_bytes(pickle.dumps(res))
        except BaseException:  # noqa: BLE001
            code = 3
            try:
                cc.send_bytes(pickle.dumps(("crash", traceback.format_exc()[-3000:])))
            except Exception:  # noqa: BLE001
                pass
        finally:
            os._exit(code)
    cc.close()
    res = None
    try:
        if pc.poll(timeout):
            try:
                res = pickle.loads(pc.recv_bytes())
            except (EOFError, OSError):
                res = None
    finally:
        pc.close()
        cpu = None
        try:
            done, _, ru = os.wait4(pid, os.WNOHANG)
            if done == 0:
                os.kill(pid, 9)
                _, _, ru = os.wait4(pid, 0)
            cpu = ru.ru_utime + ru.ru_stime
        except ChildProcessError:
            pass
    if isinstance(res, Result):
        return res
    out = Result(nranks)
    out.cpu_s = cpu
    if res is None:
        out.timed_out = True
        out.deadlock = dict(blocked={}, finished=[], failed=[], note="no result within the time limit (or child died)")
    else:
        out.errors = [["HarnessCrash", res[1]]] * nranks
    return out


def _run_procs(nranks, fn, args, seed, timeout, quiet):
    sys.stdout.flush()
    sys.stderr.flush()
    conns, pids = [], []
    pipes = [Pipe(duplex=True) for _ in range(nranks)]
    for r in range(nranks):
        pid = os.fork()
        if pid == 0:
            for q, (pc, cc) in enumerate(pipes):
                pc.close()
                if q != r:
                    cc.close()
            _child(r, nranks, pipes[r][1], fn, args, quiet)  # never returns
        pids.append(pid)
    for pc, cc in pipes:
        cc.close()
        conns.append(pc)

    res = Result(nranks)
    rng = random.Random(seed) if seed is not None else None
    pending = {}            # rank -> (name, peer, payload)
    alive = set(range(nranks))   # not yet finished (running or blocked)
    failed = set()
    deadline = time.time() + timeout

    def reply(r, data):
        conns[r].send(("ok", data))

    def enabled():
        ts = []
        for b, (name, peer, _) in pending.items():
            if name in P2P_SEND:
                q = pending.get(peer)
                if q is not None and q[0] in P2P_RECV and q[1] == b and peer != b:
                    ts.append(("p2p", b, peer))
        if len(pending) == nranks:
            names = {(p[0], p[1]) for p in pending.values()}
            if len(names) == 1 and next(iter(names))[0] in COLLECTIVES:
                ts.append(("coll",) + next(iter(names)))
        return ts

    def fire(t):
        if t[0] == "p2p":
            _, b, a = t
            sname, _, payload = pending.pop(b)
            rname, _, _ = pending.pop(a)
            res.order.append(["p2p", b, a, sname + "/" + rname])
            if P2P_SEND[sname] != P2P_RECV[rname]:
                msg = f"message kind mismatch: {sname} of rank {b} matched by {rname} of rank {a}"
                conns[a].send(("err", msg))
                conns[b].send(("err", msg))
            else:
                reply(a, payload)
                reply(b, None)
        else:
            _, name, root = t
            res.order.append(["coll", name, root])
            pls = [pending[r][2] for r in range(nranks)]
            pending.clear()
            for r in range(nranks):
                if name in ("allgather", "allreduce"):
                    reply(r, pls)
                elif name == "gather":
                    reply(r, pls if r == root else None)
                elif name in ("bcast", "Bcast"):
                    reply(r, pls[root])
                else:
                    reply(r, None)

    try:
        while alive:
            running = [r for r in alive if r not in pending]
            ts = enabled()
            if ts and (rng is None or not running):
                fire(ts[rng.randrange(len(ts))] if rng is not None else ts[0])
                continue
            if not running:
                res.deadlock = dict(blocked={r: [pending[r][0], pending[r][1]] for r in sorted(pending)},
                                    finished=sorted(set(range(nranks)) - alive - failed), failed=sorted(failed))
                break
            left = deadline - time.time()
            if left <= 0:
                res.timed_out = True
                res.deadlock = dict(blocked={r: [pending[r][0], pending[r][1]] for r in sorted(pending)},
                                    finished=sorted(set(range(nranks)) - alive - failed), failed=sorted(failed),
                                    running=sorted(running))
                break
            ready = _wait([conns[r] for r in running], timeout=min(left, 1.0))
            for c in ready:
                r = conns.index(c)
                try:
                    msg = c.recv()
                except (EOFError, OSError):
                    res.errors[r] = ["ProcessDied", "rank process ended without reporting"]
                    alive.discard(r)
                    failed.add(r)
                    continue
                if msg[0] == "mark":
                    res.calls[r].append(["mark", msg[1]])
                    res.descs[r].append("")
                elif msg[0] == "call":
                    _, name, peer, payload, desc = msg
                    res.calls[r].append([name, peer])
                    res.descs[r].append(desc)
                    if name in P2P_SEND or name in P2P_RECV:
                        if not (isinstance(peer, int) and 0 <= peer < nranks):
                            conns[r].send(("err", f"invalid rank {peer}"))
                            continue
                    pending[r] = (name, peer, payload)
                elif msg[0] == "done":
                    res.values[r] = pickle.loads(msg[1])
                    res.returned[r] = True
                    alive.discard(r)
                elif msg[0] == "exc":
                    res.errors[r] = [msg[1], msg[2]]
                    res.tracebacks = getattr(res, "tracebacks", {})
                    res.tracebacks[r] = msg[3]
                    alive.discard(r)
                    failed.add(r)
    finally:
        for c in conns:
            try:
                c.close()
            except Exception:
                pass
        for pid in pids:
            try:
                done, _ = os.waitpid(pid, os.WNOHANG)
                if done == 0:
                    os.kill(pid, 9)
                    os.waitpid(pid, 0)
            except ChildProcessError:
                pass
    return res
