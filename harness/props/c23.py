"""C23 — Distributed summation is partition-independent and cannot deadlock (DESIGN.md §5 C23).

Tie: the REAL `nifty.cl.utilities.allreduce_sum` runs over the synchronous fake communicator (forked ranks, hub with a
seeded scheduler, exact deadlock detection).  Compared with the Lean model (class E):
  * per rank, the complete sequence of communicator calls [name, peer] == the model's `calls` (projection of the
    global event list + collectives + compound sub-messages);
  * the returned value on every rank, bit for bit == Python-float evaluation of the model's tree (the summands are
    chosen to expose non-associativity), == the single-process result.
Oracle (real code only): no deadlock, no rank fails, all ranks return the same bits, and these equal the value of the
fixed pairwise tree `tree(j,1)=x_j, tree(j,2s)=tree(j,s)+tree(j+s,s) if j+s<n else tree(j,s)` and the serial result.
"""
import itertools

from core.ctx import canon
from props import _mpi_fakempi as fm

ID = "C23"
LEAN_MODULES = ["NiftyVerif.Props.C23", "NiftyVerif.Core.Proto", "NiftyVerif.Model.Allreduce",
                "NiftyVerif.Model.AllreduceReplay"]
DRIVER = "Driver/C23.lean"
OBLIGATIONS = ["NiftyVerif.C23." + t for t in (
    "owner_invariant", "tree_value", "tree_leaves", "tree_eval_sum", "matched_pair_is_one_event",
    "projection_deadlock_free", "runs_bounded", "schedule_independent", "maximal_run_exists",
    "allreduce_all_schedules", "serial_eq_distributed", "serial_program", "compound_messages_ordered",
    "whoOf_lt", "full_protocol_deadlock_free", "full_protocol_schedule_independent", "full_allreduce_all_schedules",
    "matched_kinds_agree", "calls_are_expanded_projection", "dtype_detection_order_independent",
    "observed_run_is_model_run")]
RULE = ("case = (ordered partition `counts` of n summands over p ranks incl. empty ranks, payload kind, summand values); "
        "thorough: ALL partitions with n<=8, p<=4 for every kind, quick: all with n<=5,p<=3 (float) + a sample; "
        "non-trivial = at least one cross-rank transfer; distinct by (counts, kind)")
TRUSTED_BASE = ["Lean 4.33 kernel; axioms propext/Classical.choice/Quot.sound only (audited every run)",
                "harness/props/_mpi_fakempi.py: synchronous in-process communicator standing in for MPI "
                "(matching by (source,dest) in posting order, collectives complete when all ranks have entered)",
                "Model/Allreduce.lean is a hand transcription of allreduce_sum/_send/_recv/_bcast; tied by the exhaustive "
                "comparison of call sequences and values described in RULE"]
ASSUMPTIONS = ["real MPI transport, mpi4py pickling and message matching with tags/communicators other than the default "
               "are outside the model",
               "floating-point addition is deterministic given operands and order (IEEE-754), so equal trees give equal bits"]

KINDS = ["int", "float", "npfloat", "list", "ndarray", "ndarray0", "field", "multifield"]
TY = {"int": "plain", "float": "plain", "list": "plain", "npfloat": "plain", "ndarray0": "ndarray", "ndarray": "ndarray", "field": {"field": "plain"},
      "multifield": {"multifield": 2}}
POOL = [1e16, 1.0, -1e16, 3.0, 1e-3, -1.0, 2.0 ** 53, -(2.0 ** 53), 0.1, 7.0, 1e-17, -3.0]


# ------------------------------------------------------------------------------------------------
# building summands / encoding results (used inside the rank processes and in the parent)
def _summand(kind, vals, i):
    import numpy as np
    import nifty.cl as ift
    v = vals[i]
    if kind == "int":
        return int(v)
    if kind == "float":
        return float(v)
    if kind == "npfloat":      # numpy scalar (what energies/values look like)
        return np.float64(v)
    if kind == "ndarray0":     # 0-d array: `_send` has to restore the shape after ascontiguousarray
        return np.array(float(v))
    if kind == "list":  # `+` is concatenation: not commutative, exposes swapped operands (optimize_kl sums lists)
        return [[i, float(v).hex()]]
    arr = np.array([v, -v, vals[(i + 1) % len(vals)]], dtype=np.float64)
    if kind == "ndarray":
        return arr.reshape(3, 1)     # two-dimensional: the shape sent ahead of the buffer matters
    dom = ift.DomainTuple.make(ift.UnstructuredDomain(3))
    if kind == "field":
        return ift.makeField(dom, arr)
    if kind == "multifield":
        return ift.MultiField.from_dict({"a": ift.makeField(dom, arr), "b": ift.makeField(dom, arr[::-1].copy())})
    raise ValueError(kind)


def _plain(kind, vals, i):
    """the same summand as plain python/numpy data, for evaluating a tree without the library"""
    import numpy as np
    v = vals[i]
    if kind == "int":
        return int(v)
    if kind in ("float", "npfloat", "ndarray0"):
        return float(v)
    if kind == "list":
        return [[i, float(v).hex()]]
    arr = np.array([v, -v, vals[(i + 1) % len(vals)]], dtype=np.float64)
    if kind == "multifield":
        return np.concatenate([arr, arr[::-1]])
    return arr


def _enc(kind, x):
    import numpy as np
    if kind == "int":
        return [int(x)]
    if kind == "list":
        return [list(t) for t in x]
    if kind in ("float", "npfloat"):
        return [float(x).hex()]
    if kind == "ndarray0":
        return [float(x).hex(), list(np.shape(x))]
    if kind == "ndarray":
        return [float(t).hex() for t in np.asarray(x).ravel()] + [list(np.shape(x))]
    if kind == "field":
        return [float(t).hex() for t in x.val.asnumpy().ravel()]
    d = x.to_dict()
    return [float(t).hex() for k in ("a", "b") for t in d[k].val.asnumpy().ravel()]


def _enc_plain(kind, x):
    import numpy as np
    if kind == "int":
        return [int(x)]
    if kind == "list":
        return [list(t) for t in x]
    if kind in ("float", "npfloat"):
        return [float(x).hex()]
    if kind == "ndarray0":
        return [float(x).hex(), []]
    if kind == "ndarray":
        return [float(t).hex() for t in np.asarray(x).ravel()] + [[3, 1]]
    return [float(t).hex() for t in np.asarray(x).ravel()]


def _eval_tree(t, leaf):
    return leaf(t) if isinstance(t, int) else _eval_tree(t[0], leaf) + _eval_tree(t[1], leaf)


def _ref_tree(n):
    """the property's tree, written down independently of the model: nested lists over leaf indices"""
    def tree(j, s):
        if s == 1:
            return j
        h = s // 2
        return [tree(j, h), tree(j + h, h)] if j + h < n else tree(j, h)
    s = 1
    while s < n:
        s *= 2
    return tree(0, s)


def _job(comm, cases):
    """runs in every rank: all cases one after the other, separated by marks"""
    from nifty.cl.utilities import allreduce_sum
    r = comm.Get_rank()
    out = []
    for ci, c in enumerate(cases):
        comm.mark(ci)
        counts, kind, vals = c["counts"], c["kind"], c["vals"]
        lo = sum(counts[:r])
        kinds = c.get("kinds")
        try:
            mine = [_summand(kinds[i] if kinds else kind, vals, i) for i in range(lo, lo + counts[r])]
            res = allreduce_sum(mine, comm)
            out.append(_enc(kind, res))
        except fm.FakeMPIError:
            raise
        except Exception as e:  # noqa: BLE001
            out.append({"error": type(e).__name__})
    return out


def _serial(case):
    from nifty.cl.utilities import allreduce_sum
    kind, vals = case["kind"], case["vals"]
    try:
        return _enc(kind, allreduce_sum([_summand(kind, vals, i) for i in range(len(vals))], None))
    except Exception as e:  # noqa: BLE001
        return {"error": type(e).__name__}


def _run_real(cases, p, seed):
    """-> list per case of dict(calls=[per rank], values=[per rank], fail=None|info).
    A case that does not complete (deadlock, a rank failing) ends its batch; the cases after it are run in a new batch,
    so one failing input costs exactly one case."""
    outs = [None] * len(cases)
    start, end = 0, len(cases)
    guard = 0
    while start < len(cases) and guard < 4 * len(cases) + 4:
        guard += 1
        chunk = cases[start:end]
        res = fm.run(p, _job, chunk, seed=seed, timeout=120.0 * fm.load_factor())
        if res.ok:
            segs = [res.segments(r) for r in range(p)]
            for ci in range(len(chunk)):
                outs[start + ci] = dict(calls=[segs[r].get(str(ci)) for r in range(p)],
                                        values=[res.values[r][ci] for r in range(p)], fail=None)
            start, end = end, len(cases)
            continue
        # the first case some rank did not complete
        done = min((len(res.values[r]) if res.returned[r] else _last_mark(res, r)) for r in range(p))
        done = min(done, len(chunk) - 1)
        if done > 0:
            end = start + done          # run the completed prefix on its own (values live in the ranks until they return)
            continue
        why = "deadlock" if res.deadlock and not res.timed_out else ("timeout" if res.timed_out else "rank-failed")
        outs[start] = dict(calls=None, values=None,
                           fail=dict(kind=why, blocked=(res.deadlock or {}).get("blocked"), errors=res.errors))
        start, end = start + 1, len(cases)
    for i, o in enumerate(outs):
        if o is None:
            outs[i] = dict(calls=None, values=None, fail=dict(kind="not-run", blocked=None, errors=None))
    return outs


def _partial(res, r, ci):
    return None


def _last_mark(res, r):
    ms = [int(c[1]) for c in res.calls[r] if c[0] == "mark"]
    return ms[-1] if ms else 0


def _single(case, seed=0):
    return _run_real([case], len(case["counts"]), seed)[0]


# ------------------------------------------------------------------------------------------------
def oracle(case):
    """property on the real code only (one partition, several scheduler seeds)"""
    counts, kind, vals = case["counts"], case["kind"], case["vals"]
    n, p = sum(counts), len(counts)
    if n == 0 or case.get("kinds"):
        return None  # rejected inputs are not in the scope of the property
    ser = _serial(case)
    want = _enc_plain(kind, _eval_tree(_ref_tree(n), lambda i: _plain(kind, vals, i)))
    sig0 = {"site": "allreduce_sum", "payload": "zero-dim-array" if kind == "ndarray0" else "other"}
    if ser != want:
        return (f"serial allreduce_sum over {n} {kind} summands {vals} returns {ser}, the pairwise tree gives {want}",
                dict(sig0, what="serial-tree"))
    for seed in case.get("seeds", [0]):
        o = _single(case, seed)
        if o["fail"]:
            return (f"allreduce_sum with partition {counts} ({kind}) does not complete under synchronous sends: {o['fail']}",
                    dict(sig0, what=o["fail"]["kind"]))
        if any(v != o["values"][0] for v in o["values"]):
            return (f"ranks return different values for partition {counts}: {o['values']}", dict(sig0, what="ranks-differ"))
        if o["values"][0] != want:
            return (f"partition {counts} of {kind} summands {vals}: distributed sum {o['values'][0]} != pairwise tree {want}",
                    dict(sig0, what="value"))
    return None


def shrink(case):
    counts, vals = case["counts"], case["vals"]
    # drop a rank, drop a summand
    for r in range(len(counts)):
        if len(counts) > 1:
            c2 = counts[:r] + counts[r + 1:]
            lo = sum(counts[:r])
            yield dict(case, counts=c2, vals=vals[:lo] + vals[lo + counts[r]:])
    for r in range(len(counts)):
        if counts[r] > 0:
            c2 = list(counts)
            c2[r] -= 1
            lo = sum(counts[:r])
            yield dict(case, counts=c2, vals=vals[:lo] + vals[lo + 1:])
    if case["kind"] != "float":
        yield dict(case, kind="float")


def _compositions(n, p):
    if p == 1:
        yield [n]
        return
    for k in range(n + 1):
        for rest in _compositions(n - k, p - 1):
            yield [k] + rest


def _mkvals(rng, n, kind):
    if kind == "int":
        return [rng.randrange(-50, 50) for _ in range(n)]
    return [rng.choice(POOL) for _ in range(n)]


def _model_op(c):
    op = dict(op="program", counts=c["counts"], ty=TY[c["kind"]])
    if c["kind"] == "ndarray0" and sum(c["counts"]) >= 2:
        op["bty"] = "plain"      # a sum of zero-dimensional arrays is a numpy scalar: `_bcast` sees a plain object
    return op


# number of communicator calls of one transfer / of the final bcast, per payload kind (model: sendSeq / bcastSeq)
NSUB = {"int": 1, "float": 1, "npfloat": 1, "list": 1, "ndarray": 2, "ndarray0": 2, "field": 2, "multifield": 5}
NPOST = {"int": 2, "float": 2, "npfloat": 2, "list": 2, "ndarray": 3, "ndarray0": 3, "field": 4, "multifield": 10}


def _observe(case, seed):
    """one real run on its own: the GLOBAL order in which the hub fired rendezvous and collectives"""
    p = len(case["counts"])
    res = fm.run(p, _job, [case], seed=seed, timeout=60.0 * fm.load_factor())
    if not res.ok:
        return None
    obs = []
    for o in res.order:
        if o[0] == "p2p":
            obs.append(["p2p", o[1], o[2]])
        else:
            obs.append(["coll"])
    return obs


def _replay_op(case, obs):
    kind, n = case["kind"], sum(case["counts"])
    npost = NPOST[kind] if not (kind == "ndarray0" and n >= 2) else 2
    return dict(op="replay", counts=case["counts"], m=NSUB[kind], npost=npost, obs=obs)


def _check_batch(ctx, cases, p, seed, model):
    real = _run_real(cases, p, seed)
    for c, o, m in zip(cases, real, model):
        n = sum(c["counts"])
        ctx.stat(f"kind={c['kind']}")
        ctx.stat(f"p={p}")
        ctx.stat(f"n={n}")
        if any(k == 0 for k in c["counts"]):
            ctx.stat("has-empty-rank")
        if o["fail"]:
            ctx.stat("real-run-failed")
            ctx.counterexample(c, f"allreduce_sum with partition {c['counts']} ({c['kind']}) does not complete under "
                                  f"synchronous sends: {o['fail']}",
                               {"site": "allreduce_sum", "payload": "zero-dim-array" if c["kind"] == "ndarray0" else "other",
                                "what": o["fail"]["kind"]})
            continue
        if "error" in m:
            impl = o["values"][0] if all(v == o["values"][0] for v in o["values"]) else {"values": o["values"]}
            ctx.stat("error:" + str(m["error"]))
            ctx.compare(c, impl, m, note="error stream: allreduce_sum vs model", nontrivial=False)
            continue
        cross = sum(1 for prog in m["progs"] for a in prog if a[0] == "recv")
        ctx.stat("cross-rank-transfers", cross)
        ctx.stat("local-additions", sum(1 for prog in m["progs"] for a in prog if a[0] == "loc"))
        want = _enc_plain(c["kind"], _eval_tree(m["tree"], lambda i: _plain(c["kind"], c["vals"], i)))
        impl = dict(calls=o["calls"], values=o["values"])
        mod = dict(calls=m["calls"], values=[want] * p)
        ok = ctx.compare(c, impl, mod, note="allreduce_sum over fake MPI vs model: call sequences / value of the tree",
                         nontrivial=cross > 0)
        ctx.traces_validated += p
        if m["tree"] != _ref_tree(n) or m["final"] != m["tree"]:
            ctx.broke("correspondence", "model tree vs the property's recursion", canon(dict(n=n, tree=m["tree"])))
        if ok:
            ser = _serial(c)
            if ser != want:
                ctx.counterexample(c, f"serial allreduce_sum returns {ser}, distributed/pairwise tree {want}",
                                   {"site": "allreduce_sum", "payload": "zero-dim-array" if c["kind"] == "ndarray0" else "other",
                                    "what": "serial-tree"})


def run(ctx):
    import numpy  # noqa: F401  (imported before forking so the children do not pay for it)
    import nifty.cl  # noqa: F401
    rng = ctx.rng
    # corpus first: minimised past failures are replayed through the oracle
    import json
    import os
    cdir = os.path.join(os.path.dirname(os.path.dirname(os.path.dirname(os.path.abspath(__file__)))), "corpus", ID)
    for fn in sorted(os.listdir(cdir)) if os.path.isdir(cdir) else []:
        c = json.load(open(os.path.join(cdir, fn))).get("case")
        if c:
            ctx.stat("corpus")
            ctx.case(c, nontrivial=True)
            r = oracle(c)
            if r:
                ctx.counterexample(c, *r)
    N, P = ctx.n(5, 8), ctx.n(3, 4)
    by_p = {}
    # exhaustive block ---------------------------------------------------------------------------
    for p in range(1, P + 1):
        for n in range(1, N + 1):
            for counts in _compositions(n, p):
                kinds = KINDS if not ctx.quick else ["float", "list"][: 1 + (n + p) % 2]
                for kind in kinds:
                    by_p.setdefault(p, []).append(dict(counts=counts, kind=kind, vals=_mkvals(rng, n, kind)))
    # sampled block (quick: the larger sizes and the other kinds) ------------------------------------
    if ctx.quick:
        for _ in range(40):
            p = rng.randrange(1, 5)
            n = rng.randrange(1, 9)
            counts = [0] * p
            for _i in range(n):
                counts[rng.randrange(p)] += 1
            if rng.random() < 0.3:  # skewed: most of the work on one rank
                counts = [0] * p
                counts[rng.randrange(p)] = n
            kind = rng.choice(KINDS)
            by_p.setdefault(p, []).append(dict(counts=counts, kind=kind, vals=_mkvals(rng, n, kind)))
    else:
        for _ in range(150):  # beyond the exhaustive bound
            p = rng.randrange(2, 7)
            n = rng.randrange(9, 20)
            counts = [0] * p
            for _i in range(n):
                counts[rng.randrange(p)] += 1
            kind = rng.choice(KINDS)
            by_p.setdefault(p, []).append(dict(counts=counts, kind=kind, vals=_mkvals(rng, n, kind)))
    # error stream: no summand at all; mixed types -----------------------------------------------------
    for p in (1, 2, 3):
        by_p.setdefault(p, []).append(dict(counts=[0] * p, kind="float", vals=[]))
    # trace validation: the global firing order observed by the hub in some real runs, replayed in the model ----------
    pool = [c for p_, cs in sorted(by_p.items()) for c in cs if 2 <= sum(c["counts"]) <= 8 and len(c["counts"]) >= 2]
    observed = []
    for c in rng.sample(pool, min(len(pool), ctx.n(5, 150))):
        obs = _observe(c, rng.randrange(1 << 30))
        if obs is not None:
            observed.append((c, obs))
    # ONE model call for everything (starting the Lean driver is the expensive part on a loaded machine) -------
    ser_cases = [dict(counts=[n], kind=k, vals=_mkvals(rng, n, k)) for n in range(0, ctx.n(12, 40)) for k in ("float", "field")]
    flat = [(p, c) for p, cases in sorted(by_p.items()) for c in cases]
    outs = ctx.model(DRIVER, [_model_op(c) for _, c in flat]
                     + [dict(op="serial", n=len(c["vals"])) for c in ser_cases]
                     + [_replay_op(c, obs) for c, obs in observed])
    routs = outs[len(flat) + len(ser_cases):]
    outs = outs[:len(flat) + len(ser_cases)]
    for (c, obs), m in zip(observed, routs):
        ctx.stat("replayed-observed-order")
        ctx.traces_validated += 1
        want = dict(accepted=True, finished=True, slot0=_ref_tree(sum(c["counts"])))
        ctx.compare(dict(c, replay=True, nobs=len(obs)), want, m,
                    note="global order of rendezvous/collectives observed in a real run, replayed in the transition system",
                    nontrivial=any(o[0] == "p2p" for o in obs))
    mod_by_p = {}
    for (p, c), m in zip(flat, outs):
        mod_by_p.setdefault(p, []).append(m)
    for p, cases in sorted(by_p.items()):
        _check_batch(ctx, cases, p, rng.randrange(1 << 30), mod_by_p[p])
    # serial path incl. n = 0 ------------------------------------------------------------------------------
    for c, m in zip(ser_cases, outs[len(flat):]):
        impl = _serial(c)
        want = m if "error" in m else _enc_plain(c["kind"], _eval_tree(m["tree"], lambda i: _plain(c["kind"], c["vals"], i)))
        ctx.stat("serial")
        ctx.compare(dict(c, serial=True), impl, want, note="comm=None path vs model tree", nontrivial=len(c["vals"]) > 2)
    # oracle on a sample (several scheduler seeds each) -----------------------------------------------------
    allc = [c for cs in by_p.values() for c in cs if sum(c["counts"]) > 0]
    for c in rng.sample(allc, min(len(allc), ctx.n(2, 40))):
        r = oracle(dict(c, seeds=[rng.randrange(1 << 30) for _ in range(ctx.n(1, 3))]))
        ctx.stat("oracle-runs")
        if r:
            ctx.counterexample(c, *r)
    ctx.extra["exhaustive"] = True
    ctx.extra["exhaustive_bound"] = dict(n=N, p=P)


def search(ctx):
    rng = ctx.rng
    for p in range(1, 5):
        for n in range(1, 7):
            for counts in _compositions(n, p):
                for kind in ("float", "field"):
                    c = dict(counts=counts, kind=kind, vals=_mkvals(rng, n, kind), seeds=[0, 1])
                    r = oracle(c)
                    if r:
                        ctx.counterexample(c, *r)
                        return
