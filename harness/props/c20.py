"""C20 — Linear Gaussian problems: Wiener filter and VI give the exact posterior (DESIGN.md §5 C20).

Tie (class T, exact-rational reference): generated responses R (incl. rank-deficient, wide, tall), noise covariances
(diagonal; full SPD for the JAX side), data.  The Lean driver solves the signal-space and data-space systems exactly in
ℚ (and re-checks its own solutions by multiplication); the real `wiener_filter_posterior` (both spaces),
`WienerFilterCurvature.inverse_times`, JAX and classic `optimize_kl` (MAP and MGVI) are compared with the exact mean.
Oracle (real code only): all of these agree with a NumPy solve of the normal equations."""
import os
import tempfile
from fractions import Fraction

import numpy as np

from ._prob_util import jax_setup, fr, rs, fl, fll, dyadic, allclose, maxerr, safe, is_err

ID = "C20"
LEAN_MODULES = ["NiftyVerif.Core.Proto", "NiftyVerif.Model.LinAlg", "NiftyVerif.Model.Vi", "NiftyVerif.Props.C20"]
DRIVER = "Driver/C20.lean"
OBLIGATIONS = ["NiftyVerif.C20." + t for t in (
    "metric_posDef", "push_through", "meanSignal_eq_meanData", "normal_equations", "hamiltonian_expansion",
    "hamiltonian_at_mean", "posterior_mean_minimises", "posterior_cov_woodbury", "mgvi_fixed_point")]
RULE = ("case = (response matrix R m×n with entries in {-2..2}, shape wide/tall/square, rank mode full/duplicated rows/"
        "zero column/zero matrix, noise covariance diagonal or full SPD, integer data, which solvers are exercised); "
        "non-trivial = R ≠ 0 and d ≠ 0; distinct by canonical case")
TRUSTED_BASE = [
    "Lean 4.33 kernel + Mathlib Matrix/PosDef; axioms propext/Classical.choice/Quot.sound only (audited every run)",
    "Bayes' theorem for Gaussians: the posterior density is proportional to exp(-H); a density exp(-H(m) - ½hᵀDh) is "
    "N(m, D⁻¹) (the theorems establish the quadratic form exactly, not the measure theory)",
    "driver: Gauss-Jordan elimination in ℚ, each solution re-checked exactly by multiplication inside the driver",
    "CG / Newton-CG convergence on these small systems is observed (tolerance 1e-7), their correctness is C14/C15/C17",
]
ASSUMPTIONS = ["real-valued fields (the theorems are stated over ℝ)",
               "sample covariances are tied in C18 (exact A Aᵀ by excitation substitution), not re-done here"]

TOL = 1e-7


def gen_case(rng, quick=True, drivers=False):
    shape = rng.choice(["square", "wide", "tall"])
    n = rng.randint(1, 4 if quick else 6)
    m = n if shape == "square" else (rng.randint(1, n) if shape == "wide" else rng.randint(n, n + 2))
    rank = rng.choice(["full", "full", "dup_rows", "zero_col", "zero"] if not drivers else ["full", "dup_rows"])
    R = [[rng.randint(-2, 2) for _ in range(n)] for _ in range(m)]
    if rank == "dup_rows" and m >= 2:
        R[-1] = list(R[0])
    if rank == "zero_col":
        j = rng.randrange(n)
        for r in R:
            r[j] = 0
    if rank == "zero":
        R = [[0] * n for _ in range(m)]
    noise = rng.choice(["diag", "diag", "scalar", "full"])
    if noise == "scalar":
        v = rng.choice([Fraction(1, 4), Fraction(1), Fraction(4), Fraction(9, 4)])
        N = [[v if i == j else Fraction(0) for j in range(m)] for i in range(m)]
    elif noise == "diag":
        N = [[rng.choice([Fraction(1, 4), Fraction(1), Fraction(4), Fraction(9, 4), Fraction(1, 16)]) if i == j
              else Fraction(0) for j in range(m)] for i in range(m)]
    else:
        L = [[dyadic(rng, -1, 1, 1) if j < i else (dyadic(rng, 0.5, 2, 1) if i == j else Fraction(0)) for j in range(m)]
             for i in range(m)]
        N = [[sum(L[i][k] * L[j][k] for k in range(m)) for j in range(m)] for i in range(m)]
    d = [rng.randint(-3, 3) for _ in range(m)]
    # documented options of the entry points: affine offset of the forward model, model_is_linear, position, samples,
    # classic curvature with/without sampling controller, sampling modes of the drivers
    offset = [rng.randint(-2, 2) for _ in range(m)] if rng.random() < 0.4 else [0] * m
    affine = any(offset)
    wf_linear = (not affine) and rng.random() < 0.5
    wf_pos = rng.choice(["zero", "nonzero", "nonzero"] if not wf_linear else ["none", "zero", "nonzero"])
    return dict(n=n, m=m, shape=shape, rank=rank, noise=noise, R=[[rs(x) for x in r] for r in R],
                N=[[rs(x) for x in r] for r in N], d=[rs(x) for x in d], drivers=drivers,
                seed=rng.randint(0, 2 ** 31 - 1), dict_domain=(n >= 2 and rng.random() < 0.3),
                offset=[rs(x) for x in offset], wf_linear=wf_linear, wf_pos=wf_pos,
                wf_position=[rs(dyadic(rng, -2, 2, 1)) for _ in range(n)], wf_samples=rng.choice([0, 0, 2]),
                cl_sampling_ic=rng.random() < 0.5,
                okl_mode=rng.choice(["linear_resample", "nonlinear_resample", "linear_sample"]),
                cl_geovi=rng.random() < 0.4, quick=bool(quick))


def _np(c):
    R = np.array([fll(r) for r in c["R"]], dtype=float).reshape(c["m"], c["n"])
    N = np.array([fll(r) for r in c["N"]], dtype=float).reshape(c["m"], c["m"])
    d = np.array(fll(c["d"]), dtype=float)
    return R, N, d


def _off(c):
    return np.array(fll(c.get("offset", ["0"] * c["m"])), dtype=float)


def _sym_sqrt_inv(N):
    w, V = np.linalg.eigh(N)
    return (V / np.sqrt(w)) @ V.T


CG_KW = dict(absdelta=1e-14, resnorm=1e-12, maxiter=200, miniter=1)


def _tree(x):
    return getattr(x, "tree", x)


def _jax_likelihood(c):
    jax_setup()
    import jax.numpy as jnp
    import nifty.re as jft
    R, N, d = _np(c)
    Ninv = jnp.array(np.linalg.inv(N))
    Rj = jnp.array(R)
    off = jnp.array(_off(c))
    if c["noise"] == "full":
        S = jnp.array(_sym_sqrt_inv(N))
        lh = jft.Gaussian(jnp.array(d), noise_cov_inv=lambda x: Ninv @ x, noise_std_inv=lambda x: S @ x)
    else:
        dv = jnp.array(1.0 / np.diag(N))
        lh = jft.Gaussian(jnp.array(d), noise_cov_inv=lambda x: dv * x, noise_std_inv=lambda x: jnp.sqrt(dv) * x)
    if c["dict_domain"]:
        n1 = max(1, c["n"] // 2)
        dom = jft.Vector({"a": jft.ShapeWithDtype((n1,)), "b": jft.ShapeWithDtype((c["n"] - n1,))})
        fwd = lambda x: Rj @ jnp.concatenate([x["a"], x["b"]]) + off
        flat = lambda x: np.concatenate([np.asarray(_tree(x)["a"]), np.asarray(_tree(x)["b"])])
        wrap = lambda v: jft.Vector({"a": v[:n1], "b": v[n1:]})
    else:
        dom = jft.ShapeWithDtype((c["n"],))
        fwd = lambda x: Rj @ x + off
        flat = lambda x: np.asarray(x)
        wrap = lambda v: v
    return lh.amend(fwd, domain=dom), flat, wrap, jnp.array(N)


def _tree(x):
    return getattr(x, "tree", x)


def real_wiener_jax(c, signal_space):
    def go():
        jax = jax_setup()
        import nifty.re as jft
        lh, flat, wrap, N = _jax_likelihood(c)
        import jax.numpy as jnp
        kw = dict(noise_covariance=(lambda x: N @ x)) if not signal_space else {}
        mode = c.get("wf_pos", "none")
        if mode == "zero":
            kw["position"] = wrap(jnp.zeros(c["n"]))
        elif mode == "nonzero":
            kw["position"] = wrap(jnp.array(fll(c["wf_position"])))
        ns = c.get("wf_samples", 0)
        smpls, _ = jft.wiener_filter_posterior(lh, key=jax.random.PRNGKey(c["seed"]), n_samples=ns,
                                               draw_linear_kwargs=dict(cg_kwargs=CG_KW), signal_space=signal_space,
                                               jit=False, model_is_linear=c.get("wf_linear", True), **kw)
        mean = flat(smpls.pos)
        if ns:
            smean = np.mean([flat(x) for x in smpls], axis=0)
            if not np.max(np.abs(smean - mean)) <= 1e-12 * max(1.0, np.max(np.abs(mean))):
                return mean + (smean - mean) + 1e3        # mirrored samples must average to the mean: make it visible
        return mean
    return safe(go)


def real_okl_jax(c, n_samples):
    def go():
        jax = jax_setup()
        import jax.numpy as jnp
        import nifty.re as jft
        lh, flat, wrap, N = _jax_likelihood(c)
        pos0 = wrap(jnp.full((c["n"],), 0.3))
        mkw = dict(name=None, xtol=1e-12, absdelta=1e-14, maxiter=30, cg_kwargs=dict(name=None, **CG_KW))
        smpls, st = jft.optimize_kl(lh, pos0, key=jax.random.PRNGKey(c["seed"]), n_total_iterations=2,
                                    n_samples=n_samples, draw_linear_kwargs=dict(cg_name=None, cg_kwargs=CG_KW),
                                    nonlinearly_update_kwargs=dict(minimize_kwargs=dict(name=None, xtol=1e-12,
                                                                   cg_kwargs=dict(name=None, **CG_KW), maxiter=5)),
                                    kl_kwargs=dict(minimize_kwargs=mkw), sample_mode=c.get("okl_mode", "linear_resample"),
                                    odir=None)
        return flat(smpls.pos)
    return safe(go)


class _Dense:
    """a user-defined classic LinearOperator wrapping a dense m×n matrix (built lazily: needs nifty.cl imported)"""
    _cls = None

    @classmethod
    def make(cls, ift, dom, tgt, mat):
        if cls._cls is None:
            class DenseOp(ift.LinearOperator):
                def __init__(self, dom, tgt, mat):
                    self._domain = ift.DomainTuple.make(dom)
                    self._target = ift.DomainTuple.make(tgt)
                    self._capability = self.TIMES | self.ADJOINT_TIMES
                    self._mat = mat

                def apply(self, x, mode):
                    self._check_input(x, mode)
                    v = x.asnumpy() if hasattr(x, "asnumpy") else x.val
                    if mode == self.TIMES:
                        return ift.makeField(self._target, self._mat @ v)
                    return ift.makeField(self._domain, self._mat.T @ v)
            cls._cls = DenseOp
        return cls._cls(dom, tgt, mat)


def _cl_setup(c):
    import logging
    import nifty.cl as ift
    ift.logger.setLevel(logging.ERROR)
    R, N, d = _np(c)
    sd = ift.UnstructuredDomain(c["n"])
    dd = ift.UnstructuredDomain(c["m"])
    Rop = _Dense.make(ift, sd, dd, R)
    Nop = ift.DiagonalOperator(ift.makeField(dd, np.diag(N).copy()), sampling_dtype=np.float64)
    return ift, Rop, Nop, ift.makeField(dd, d - _off(c)), sd, dd


def _val(f):
    return np.asarray(f.asnumpy() if hasattr(f, "asnumpy") else f.val, dtype=float)


def real_curvature_cl(c):
    def go():
        ift, Rop, Nop, d, sd, dd = _cl_setup(c)
        ic = ift.AbsDeltaEnergyController(1e-14, iteration_limit=200, convergence_level=3)
        S = ift.ScalingOperator(sd, 1.0)
        curv = ift.WienerFilterCurvature(Rop, Nop, S, ic, ic if c.get("cl_sampling_ic", True) else None)
        j = Rop.adjoint_times(Nop.inverse_times(d))
        return _val(curv.inverse_times(j))
    return safe(go)


def real_okl_cl(c, n_samples):
    def go():
        ift, Rop, Nop, d, sd, dd = _cl_setup(c)
        ift.random.push_sseq_from_seed(c["seed"] % (2 ** 31))
        try:
            lh = ift.GaussianEnergy(d, inverse_covariance=Nop.inverse) @ Rop.ducktape("xi")
            ic = ift.AbsDeltaEnergyController(1e-14, iteration_limit=200, convergence_level=3)
            mini = ift.NewtonCG(ift.AbsDeltaEnergyController(1e-14, iteration_limit=20, convergence_level=3))
            geo = ift.NewtonCG(ift.AbsDeltaEnergyController(1e-14, iteration_limit=10, convergence_level=3)) \
                if (c.get("cl_geovi") and n_samples) else None
            res = ift.optimize_kl(lh, 2, n_samples, mini, ic, nonlinear_sampling_minimizer=geo,
                                  output_directory=None, initial_position=ift.MultiField.from_dict({"xi": ift.full(sd, 0.3)}),
                                  plot_energy_history=False, plot_minisanity_history=False,
                                  return_final_position=True, sanity_checks=False)
            sl, pos = res
            return _val(pos["xi"])
        finally:
            ift.random.pop_sseq()
    return safe(go)


def exact_mean_numpy(c):
    R, N, d = _np(c)
    Ninv = np.linalg.inv(N)
    return np.linalg.solve(R.T @ Ninv @ R + np.eye(c["n"]), R.T @ Ninv @ (d - _off(c)))


def _solvers(c):
    """which real solvers apply to the case"""
    s = ["jax_signal", "jax_data"]
    if c["noise"] != "full":
        s.append("cl_curvature")
    if c["drivers"]:
        s += ["jax_mgvi"] + ([] if c.get("quick") else ["jax_map"])
        if c["noise"] != "full":
            s += ["cl_mgvi"] + ([] if c.get("quick") else ["cl_map"])
    return s


_RUN = {
    "jax_signal": lambda c: real_wiener_jax(c, True),
    "jax_data": lambda c: real_wiener_jax(c, False),
    "cl_curvature": real_curvature_cl,
    "jax_map": lambda c: real_okl_jax(c, 0),
    "jax_mgvi": lambda c: real_okl_jax(c, 2),
    "cl_mgvi": lambda c: real_okl_cl(c, 2),
    "cl_map": lambda c: real_okl_cl(c, 0),
}
_CACHE = {}


def real_all(c):
    from core.ctx import canon
    k = canon(c)
    if k not in _CACHE:
        _CACHE[k] = {s: _RUN[s](c) for s in _solvers(c)}
    return _CACHE[k]


def oracle(case):
    """all solvers of the real code return the exact posterior mean (NumPy solve of the normal equations)"""
    ref = exact_mean_numpy(case)
    sc = max(1.0, float(np.max(np.abs(ref))))
    for name, v in real_all(case).items():
        sig = dict(solver=name, noise=case["noise"])
        if is_err(v):
            return (f"{name} raised {v['error']}", dict(sig, what="error", error=v["error"]))
        if np.shape(v) != ref.shape or not np.max(np.abs(v - ref)) <= TOL * sc:
            return (f"{name}: posterior mean {np.array2string(np.asarray(v), precision=8)} differs from the exact "
                    f"{np.array2string(ref, precision=8)}", dict(sig, what="mean"))
    return None


def shrink(case):
    if case["drivers"]:
        yield dict(case, drivers=False)
    if case["dict_domain"]:
        yield dict(case, dict_domain=False)
    n, m = case["n"], case["m"]
    if m > 1:
        yield dict(case, m=m - 1, R=case["R"][:-1], N=[r[:-1] for r in case["N"][:-1]], d=case["d"][:-1])
    if n > 1:
        yield dict(case, n=n - 1, R=[r[:-1] for r in case["R"]])


def _gen_where(rng, quick, pred, **kw):
    for _ in range(200):
        c = gen_case(rng, quick, **kw)
        if pred(c):
            return c
    return c


def run(ctx):
    rng = ctx.rng
    cases = [gen_case(rng, ctx.quick) for _ in range(ctx.n(6, 200))]
    cases += [gen_case(rng, ctx.quick, drivers=True) for _ in range(ctx.n(1, 12))]
    # directed: every documented option combination that changes a code path is present in every run
    nz = lambda c: any(fr(x) != 0 for r in c["R"] for x in r)
    cases.append(_gen_where(rng, ctx.quick, lambda c: nz(c) and not c["wf_linear"] and c["wf_pos"] == "nonzero"
                            and not any(fr(x) != 0 for x in c["offset"])))
    cases.append(_gen_where(rng, ctx.quick, lambda c: nz(c) and any(fr(x) != 0 for x in c["offset"]) and c["wf_samples"] > 0))
    cases.append(_gen_where(rng, ctx.quick, lambda c: nz(c) and c["wf_linear"] and c["wf_pos"] == "none" and c["rank"] != "full"))
    cases.append(_gen_where(rng, ctx.quick, lambda c: nz(c) and c["noise"] != "full" and not c["cl_sampling_ic"]))
    outs = ctx.model(DRIVER, [dict(op="wiener", R=c["R"], N=c["N"], n=c["n"],
                                   d=[rs(fr(a) - fr(b)) for a, b in zip(c["d"], c["offset"])]) for c in cases])
    for c, m in zip(cases, outs):
        nontriv = any(fr(x) != 0 for r in c["R"] for x in r) and any(fr(x) != 0 for x in c["d"])
        ctx.case(c, nontriv)
        for k in ("shape", "rank", "noise", "wf_linear", "wf_pos", "wf_samples", "cl_sampling_ic"):
            ctx.stat(f"{k}={c[k]}")
        ctx.stat("affine" if any(fr(x) != 0 for x in c["offset"]) else "linear")
        ctx.stat(f"n={c['n']},m={c['m']}")
        if is_err(m):
            ctx.broke("correspondence", "model driver", f"{m} on {c}")
            continue
        if not (m["checked"] and m["means_equal"]):
            ctx.broke("correspondence", "model self-check",
                      f"exact solves inconsistent (checked={m['checked']}, signal==data: {m['means_equal']})")
        exact = [fr(x) for x in m["mean_signal"]]
        sc = max(1.0, max(abs(float(x)) for x in exact))
        res = oracle(c)
        if res is not None:
            ctx.counterexample(c, *res)
        for name, v in real_all(c).items():
            ctx.stat(f"solver={name}")
            if is_err(v):
                ctx.disagree(c, v, "value", f"{name} raised")
            elif not allclose(v, exact, sc, TOL):
                ctx.disagree(c, dict(solver=name, mean=[repr(float(x)) for x in v]),
                             dict(mean=[repr(float(x)) for x in exact]),
                             f"class T: {name} vs the exact rational posterior mean")


def search(ctx):
    rng = ctx.rng
    for _ in range(ctx.n(40, 300)):
        c = gen_case(rng, True)
        r = oracle(c)
        if r is not None:
            ctx.counterexample(c, *r)
            return
