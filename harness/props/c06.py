"""C06 — Field arithmetic and contractions follow array semantics with volumes (DESIGN.md §5 C06, design.d/C06.md)."""
import operator
from fractions import Fraction

import numpy as np

from props import _c06_lib as L

ID = "C06"
LEAN_MODULES = ["NiftyVerif.Props.C06", "NiftyVerif.Core.Proto"]  # the driver needs Core.Proto built
DRIVER = "Driver/C06.lean"
OBLIGATIONS = ["NiftyVerif.C06." + t for t in (
    "weight_spec", "integrate_eq_sum_weight", "mean_eq_integrate_div_volume", "var_eq_mean_sq_dev",
    "vdot_conj_linear", "vdot_partial_eq_sum", "total_volume_mul", "multifield_op_keywise", "multifield_norm",
    "domain_mismatch_rejected", "domain_mismatch_rejected_vdot", "total_volume_fibre", "mean_eq_weighted_average",
    "mean_weighted", "var_eq_weighted_variance", "structured_volume_consistent",
    "evalBin_spec", "pointwise_binop_elementwise", "pointwise_scalar_elementwise", "pointwise_unary", "clip_spec",
    "multifield_pointwise", "all_any_size_spec", "multifield_vdot", "multifield_vdot_conj_linear",
    "flexible_addsub_spec", "field_norm", "prod_partial_total", "scalar_variants", "scalar_var",
    "weight_spec_driver", "integrate_driver", "mean_driver", "var_driver", "vdot_driver",
    "mean_weighted_driver", "var_weighted_driver", "pointwise_driver", "multifield_vdot_driver", "all_any_size_driver",
    "scalar_variants_driver")]
RULE = ("a case = DomainTuple(s) built with the repo's constructors (RGSpace dyadic distances, UnstructuredDomain, "
        "PowerSpace, DOFSpace, LMSpace, GLSpace, HPSpace; 0-3 sub-domains) + int/float/complex data (small integers / "
        "dyadic) + one public Field/MultiField method call with one `spaces` value (every subset of sub-domains is "
        "enumerated per domain, as None / int / tuple); malformed stream: mismatched domains, bad `spaces`, wrong key "
        "sets; non-trivial = the call reaches the model's arithmetic (not an argument error) on a domain of size > 1; "
        "distinct by canonical JSON of (domain recipes, data, call)")
TRUSTED_BASE = [
    "Lean 4.33 kernel; axioms propext/Classical.choice/Quot.sound only (audited every run)",
    "NumPy reductions sum/prod/mean/var(axis), np.vdot (ducc0.misc.vdot), np.linalg.norm, element-wise ufuncs: "
    "represented in the model by their mathematical definitions, executed not modelled",
    "hand-written model lean/NiftyVerif/Model/Field.lean of field.py / multi_field.py / domain_tuple.py volume logic, "
    "tied by differential execution on every run (class E exact, class F volumes of GLSpace/HPSpace shipped as exact "
    "dyadic rationals, class T 1e-9 for mean/var/std/norm(2)/negative powers/inexact volumes)",
    "hypothesis VolConsistent for GLSpace / HPSpace: domain.total_volume (4*np.pi resp. size*pi/(3 nside^2)) equals the "
    "sum of domain.dvol; a theorem for StructuredDomain's own formula, for these two classes assumed by the "
    "weighted-average theorems and checked numerically (1e-12 relative) on every generated GLSpace/HPSpace",
    "harness: generators, canonicalisation, independent NumPy oracle (harness/props/c06.py, _c06_lib.py)"]
ASSUMPTIONS = [
    "IEEE rounding and NumPy/ducc summation order are outside the model: only inputs on which every float operation is "
    "exact are compared exactly; the rest within 1e-9 relative",
    "every sub-domain is one flattened index in the model (NumPy contracts all axes of a sub-domain together)",
    "UnstructuredDomain has no volume attributes in this code base: volume operations over it raise AttributeError "
    "(transcribed; the oracle accepts exactly this rejection)",
    "tuple(set(spaces)) in parse_spaces is modelled as ascending order: tuples mixing negative and valid indices are "
    "not generated"]

DYADIC_DIST = ["1/4", "1/2", "1", "2", "3/4", "3/2"]
DOF_W = ["1/4", "1/2", "1", "2", "3", "3/2"]


# ----------------------------------------------------------------------------------------------------------
# generators
# ----------------------------------------------------------------------------------------------------------
def gen_sub(rng, budget):
    if rng.random() < 0.15:   # unit axes: sub-domains of size 1 with shapes (1,) and (1, 1)
        return rng.choice([["RG", [1], ["1/2"], False], ["RG", [1, 1], ["1/2", "3/2"], False], ["U", [1]], ["U", [1, 1]],
                           ["DOF", ["3/2"]], ["GL", 1, 1], ["PSLM", 0], ["LM", 0], ["PS", ["RG", [1], ["2"], True]]]), 1
    for _ in range(50):
        t = rng.choice(["RG", "RG", "U", "U", "PS", "PS", "DOF", "DOF", "GL", "HP", "LM", "PSLM"])
        if t == "RG":
            nd = rng.choice([1, 1, 2])
            shape = [rng.randint(1, 4) for _ in range(nd)]
            r = ["RG", shape, [rng.choice(DYADIC_DIST) for _ in range(nd)], rng.random() < 0.3]
            size = int(np.prod(shape))
        elif t == "U":
            nd = rng.choice([1, 1, 2])
            shape = [rng.randint(1, 3) for _ in range(nd)]
            r, size = ["U", shape], int(np.prod(shape))
        elif t == "PS":
            nd = rng.choice([1, 1, 2])
            shape = [rng.randint(2, 5) for _ in range(nd)]
            r = ["PS", ["RG", shape, [rng.choice(DYADIC_DIST) for _ in range(nd)], True]]
            size = L.build_sub(r).size
        elif t == "PSLM":
            lmax = rng.randint(0, 3)
            r, size = ["PSLM", lmax], lmax + 1
        elif t == "DOF":
            k = rng.randint(1, 4)
            r, size = ["DOF", [rng.choice(DOF_W) for _ in range(k)]], k
        elif t == "GL":
            nlat, nlon = rng.randint(1, 3), rng.randint(1, 4)
            r, size = ["GL", nlat, nlon], nlat * nlon
        elif t == "HP":
            r, size = ["HP", 1], 12
        else:
            lmax = rng.randint(0, 2)
            r = ["LM", lmax]
            size = L.build_sub(r).size
        if size <= budget:
            return r, size
    return ["RG", [1], ["1"], False], 1


def gen_dom(rng, nsub=None, budget=48):
    if nsub is None and rng.random() < 0.12:
        # template: a 2-axis regular grid + a sub-domain with array-valued dvol + a third one, in random order —
        # the only constellation in which the non-uniform var path broadcasts a mean back over a multi-axis sub-domain
        a = ["RG", [rng.randint(1, 3), rng.randint(2, 3)], [rng.choice(DYADIC_DIST), rng.choice(DYADIC_DIST)], rng.random() < 0.3]
        b = rng.choice([["DOF", [rng.choice(DOF_W) for _ in range(rng.randint(1, 3))]], ["PSLM", rng.randint(0, 2)],
                        ["GL", rng.randint(1, 2), 2], ["PS", ["RG", [rng.randint(2, 4)], [rng.choice(DYADIC_DIST)], True]]])
        c, _ = gen_sub(rng, 3)
        rec = [a, b, c]
        rng.shuffle(rec)
        return rec
    if nsub is None:
        nsub = rng.choice([0, 1, 1, 2, 2, 2, 3, 3, 3])
    rec, left = [], budget
    for _ in range(nsub):
        r, size = gen_sub(rng, max(1, left))
        rec.append(r)
        left = max(1, left // size)
    return rec


PYTH = [(0, 0), (1, 0), (-1, 0), (2, 0), (-3, 0), (0, 1), (0, -2), (3, 4), (4, -3), (-3, -4), (0, 3), (-4, 3), (5, 12)]


def gen_data(rng, n, dt, mode=None):
    """small integers / halves: every product and sum below stays exactly representable"""
    if dt == "i":
        re = [str(rng.randint(-4, 4)) for _ in range(n)]
        return {"dt": "i", "re": re, "im": ["0"] * n}
    if dt == "f":
        re = [L.frs(Fraction(rng.randint(-8, 8), 2)) for _ in range(n)]
        return {"dt": "f", "re": re, "im": ["0"] * n}
    if mode == "pyth":
        z = [rng.choice(PYTH) for _ in range(n)]
        return {"dt": "c", "re": [str(a) for a, _ in z], "im": [str(b) for _, b in z]}
    return {"dt": "c", "re": [str(rng.randint(-3, 3)) for _ in range(n)], "im": [str(rng.randint(-3, 3)) for _ in range(n)]}


def gen_units(rng, n, dt):
    """divisors: powers of two (and ±i multiples): division is exact"""
    if dt == "i":
        return {"dt": "i", "re": [str(rng.choice([1, -1, 2, -2, 4])) for _ in range(n)], "im": ["0"] * n}
    if dt == "f":
        return {"dt": "f", "re": [rng.choice(["1", "-1", "2", "-2", "4", "1/2", "-1/2"]) for _ in range(n)], "im": ["0"] * n}
    z = [rng.choice([(1, 0), (-1, 0), (2, 0), (0, 1), (0, -2), (-4, 0), (0, 4)]) for _ in range(n)]
    return {"dt": "c", "re": [str(a) for a, _ in z], "im": [str(b) for _, b in z]}


def gen_exponents(rng, n, dt):
    return {"dt": dt, "re": [str(rng.randint(0, 3)) for _ in range(n)], "im": ["0"] * n}


def dom_size(rec):
    return int(np.prod([L.build_sub(r).size for r in rec])) if rec else 1


def spaces_forms(rng, sub, n):
    """the ways a subset of sub-domains can be passed"""
    forms = []
    if len(sub) == n:
        forms.append(None)
    if len(sub) == 1:
        forms.append(sub[0])
    t = list(sub)
    if len(t) > 1 and rng.random() < 0.5:
        rng.shuffle(t)
    forms.append(t)
    return forms


def gen_case(rng, kind="field"):
    """one domain, fields f (0), g (1), units (2), exponents (3), an int field (4) + mismatching field (5) on another
    domain; the op list enumerates every subset of sub-domains for every contraction"""
    rec = gen_dom(rng)
    n = len(rec)
    size = dom_size(rec)
    dt = rng.choice(["i", "f", "f", "c", "c"])
    dt2 = rng.choice(["i", "f", "c"])
    mode = rng.choice(["pyth", "free"])
    fields = [dict(gen_data(rng, size, dt, mode), dom=0), dict(gen_data(rng, size, dt2, mode), dom=0),
              dict(gen_units(rng, size, dt), dom=0), dict(gen_exponents(rng, size, dt), dom=0)]
    # a different domain: same shape where possible (only the distances / kind differ), else any other
    other = mutate_dom(rng, rec)
    fields.append(dict(gen_data(rng, dom_size(other), dt, mode), dom=1))
    if rng.random() < 0.25:          # 4-byte dtypes (int32 / float32 / complex64); field 1 sometimes stays 8-byte
        for k, fd in enumerate(fields):
            if k != 1 or rng.random() < 0.5:
                fd["p"] = 4
    case = {"doms": [rec, other], "fields": fields, "mfields": [], "ops": []}
    ops = case["ops"]
    for sub in L.subsets(n):
        for sp in spaces_forms(rng, sub, n):
            for name in L.CONTRACTIONS:
                ops.append({"op": name, "f": 0, "spaces": sp})
            ops.append({"op": "vdot", "f": 0, "g": 1, "spaces": sp})
            ops.append({"op": "vdot", "f": 1, "g": 0, "spaces": sp})
            ops.append({"op": "weight", "f": 0, "power": rng.choice([1, 1, 2, 3, 0, -1, -2]), "spaces": sp})
            ops.append({"op": "total_volume", "f": 0, "spaces": sp})
            ops.append({"op": "scalar_weight", "f": 0, "spaces": sp})
    for name in ("s_sum", "s_prod", "s_all", "s_any", "s_integrate", "s_mean", "s_var", "s_std"):
        ops.append({"op": name, "f": 0})
        ops.append({"op": name, "f": 1})
    for o in (1, 2, "inf"):
        ops.append({"op": "norm", "f": 0, "ord": o})
    ops.append({"op": "s_vdot", "f": 0, "g": 1})
    ops.append({"op": "s_vdot", "f": 1, "g": 0})
    for name in ("neg", "pos", "abs", "conjugate", "real", "imag"):
        ops.append({"op": "un", "name": name, "f": 0})
    for name in L.BIN_OPS:
        g = 2 if name in ("truediv", "floordiv") else (3 if name == "pow" else 1)
        ops.append({"op": "bin", "name": name, "f": 0, "g": g})
        if name not in ("truediv", "floordiv", "pow"):
            ops.append({"op": "bin", "name": name, "f": 1, "g": 0})
        c = gen_scalar(rng, name, dt)
        ops.append({"op": "bins", "name": name, "f": 0, "c": c})
        if name not in ("truediv", "floordiv"):
            f_idx = 3 if name == "pow" else 0
            ops.append({"op": "bins", "name": name, "f": f_idx, "c": gen_scalar(rng, "rpow" if name == "pow" else name, dt), "rev": True})
    for lo, hi in gen_bounds(rng, dt):
        ops.append({"op": "clip", "f": 0, "lo": lo, "hi": hi})
    ops.append({"op": "unite", "f": 0, "g": 1})
    ops.append({"op": "flexible_addsub", "f": 0, "g": 1, "neg": True})
    ops.append({"op": "flexible_addsub", "f": 1, "g": 0, "neg": False})
    ops.append({"op": "unite", "f": 0, "g": 4, "bad": "domain"})
    ops.append({"op": "scale", "f": 0, "c": ["1", "0", "i"]})
    ops.append({"op": "scale", "f": 0, "c": ["1", "0", "f"]})
    ops.append({"op": "scale", "f": 0, "c": gen_scalar(rng, "mul", dt)})
    # malformed stream: operands on different domains, bad spaces
    for name in rng.sample(L.BIN_OPS, 4):
        ops.append({"op": "bin", "name": name, "f": 0, "g": 4, "bad": "domain"})
    ops.append({"op": "vdot", "f": 0, "g": 4, "spaces": None, "bad": "domain"})
    ops.append({"op": "vdot", "f": 4, "g": 0, "spaces": [0] if n else [], "bad": "domain"})
    ops.append({"op": "s_vdot", "f": 0, "g": 4, "bad": "domain"})
    for sp in odd_spaces(rng, n):
        for name in rng.sample(L.CONTRACTIONS + ["weight", "vdot", "total_volume", "scalar_weight"], 4):
            o = {"op": name, "f": 0, "spaces": sp, "bad": "spaces-odd"}
            if name == "weight":
                o["power"] = rng.choice([1, 2])
            if name == "vdot":
                o["g"] = 1
            ops.append(o)
    for sp in bad_spaces(rng, n):
        name = rng.choice(L.CONTRACTIONS + ["weight", "vdot", "total_volume", "scalar_weight"])
        o = {"op": name, "f": 0, "spaces": sp, "bad": "spaces"}
        if name == "weight":
            o["power"] = 1
        if name == "vdot":
            o["g"] = 1
        ops.append(o)
    return case


def gen_bounds(rng, dt):
    """clip bounds [value, kind] (lo <= hi), one of them may be missing"""
    out = []
    for _ in range(2):
        a, b = sorted([rng.randint(-6, 6), rng.randint(-6, 6)])
        kind = rng.choice(["i", "f"])
        lo = [L.frs(Fraction(a, 2)) if kind == "f" else str(a // 2), kind]
        kind = rng.choice(["i", "f"])
        hi = [L.frs(Fraction(b + 1, 2)) if kind == "f" else str((b + 1) // 2 + 1), kind]
        if Fraction(lo[0]) > Fraction(hi[0]):
            lo, hi = [hi[0], hi[1]], [lo[0], lo[1]]
        r = rng.random()
        out.append((None, hi) if r < 0.2 else ((lo, None) if r < 0.4 else (lo, hi)))
    return out


def gen_scalar(rng, name, dt):
    """python scalar operand [re, im, kind] keeping the operation exact"""
    if name in ("truediv", "floordiv"):
        v = rng.choice(["2", "-2", "4", "1/2", "-1"]) if dt != "i" or name == "truediv" else rng.choice(["2", "-2", "3", "-1"])
        kind = "f" if "/" in v or rng.random() < 0.5 else "i"
        if name == "floordiv" and dt == "f":
            v = rng.choice(["2", "-2", "3", "1/2", "-3/2"])
            kind = "f" if "/" in v else rng.choice(["i", "f"])
        return [v, "0", kind]
    if name == "pow":
        return [str(rng.randint(0, 3)), "0", "i"]
    if name == "rpow":
        v = rng.choice(["2", "-1", "3", "1/2", "0"])
        return [v, "0", "f" if "/" in v else rng.choice(["i", "f"])]
    k = rng.choice(["i", "f", "c"]) if name in ("add", "sub", "mul", "eq", "ne") else rng.choice(["i", "f"])
    if k == "i":
        return [str(rng.randint(-3, 3)), "0", "i"]
    if k == "f":
        return [L.frs(Fraction(rng.randint(-6, 6), 2)), "0", "f"]
    return [str(rng.randint(-2, 2)), str(rng.randint(-2, 2)), "c"]


def mutate_dom(rng, rec):
    """a DomainTuple that is a different object: change one distance / weight / kind, or add / drop a sub-domain"""
    rec2 = [list(r) for r in rec]
    if rec2 and rng.random() < 0.7:
        i = rng.randrange(len(rec2))
        r = rec2[i]
        if r[0] == "RG":
            d = list(r[2])
            d[0] = "5/4" if d[0] != "5/4" else "1"
            rec2[i] = ["RG", r[1], d, r[3]]
        elif r[0] == "U":
            rec2[i] = ["RG", r[1], ["1"] * len(r[1]), False]
        elif r[0] == "DOF":
            w = list(r[1])
            w[0] = "5/4" if w[0] != "5/4" else "1"
            rec2[i] = ["DOF", w]
        else:
            rec2[i] = ["U", [L.build_sub(r).size]]
        return rec2
    if rec2 and rng.random() < 0.5:
        return rec2[:-1]
    return rec2 + [["U", [1]]]


def bad_spaces(rng, n):
    out = [n, [n], -1, [n + 1]]
    if n >= 1:
        out += [[0, 0], [0, n]]
    if n >= 2:
        out += [[1, 0, 1], [-1]]
    return out


def odd_spaces(rng, n):
    """tuples mixing negative / too large indices with valid ones: parse_spaces only looks at the first and last
    element of tuple(set(spaces)), so some of them are accepted (Python then resolves negative indices)"""
    out = []
    for _ in range(6):
        k = rng.randint(2, 4)
        t = [rng.randint(-n - 1, n + 1) if rng.random() < 0.8 else rng.choice([8, 9, 15, -9]) for _ in range(k)]
        if any(i < 0 or i >= n for i in t):
            out.append(t)
    for t in ([0, -1], [n - 1, -1], [0, -n], [1, -1], [0, 1, -1], [0, -2, 2], [n, 0], [9, 1], [1, 9]):
        if n >= 1 and rng.random() < 0.5:
            out.append(list(t))
    return out


def gen_mcase(rng):
    """MultiFields a, b on the same MultiDomain, c with the same keys on another, d with another key set"""
    nk = rng.choice([1, 2, 2, 3])
    keys = rng.sample(["a", "b", "c", "dd", "e"], nk)
    doms, fields = [], []
    dts = [rng.choice(["i", "f", "c"]) for _ in range(nk)]
    mode = rng.choice(["pyth", "free"])
    for _ in range(nk):
        # several keys on the SAME DomainTuple: only then can leaves be mixed up without tripping the identity check
        if doms and rng.random() < 0.4:
            doms.append([list(r) for r in doms[rng.randrange(len(doms))]])
        else:
            doms.append(gen_dom(rng, budget=12))
    sizes = [dom_size(r) for r in doms]
    lowp = rng.random() < 0.25
    mf = []
    for which in range(4):  # a, b: data; u: units; e: exponents
        idxs = []
        for k in range(nk):
            if which == 2:
                fd = gen_units(rng, sizes[k], dts[k])
            elif which == 3:
                fd = gen_exponents(rng, sizes[k], dts[k])
            else:
                fd = gen_data(rng, sizes[k], dts[k] if which == 0 else rng.choice(["i", "f", "c"]), mode)
            fields.append(dict(fd, dom=k, **({"p": 4} if lowp and (k + which) % 3 != 2 else {})))
            idxs.append(len(fields) - 1)
        mf.append({"keys": keys, "leaves": idxs})
    # c: same keys, one leaf on a different domain
    j = rng.randrange(nk)
    doms.append(mutate_dom(rng, doms[j]))
    idxs = list(mf[0]["leaves"])
    fields.append(dict(gen_data(rng, dom_size(doms[-1]), dts[j], mode), dom=len(doms) - 1))
    idxs[j] = len(fields) - 1
    mf.append({"keys": keys, "leaves": idxs})
    # d: different key set on the same leaf domains
    if nk > 1 and rng.random() < 0.5:
        mf.append({"keys": keys[:-1], "leaves": mf[0]["leaves"][:-1]})
    else:
        mf.append({"keys": keys + ["zz"], "leaves": mf[0]["leaves"] + [mf[0]["leaves"][0]]})
    ops = []
    for name in L.BIN_OPS:
        b = 2 if name in ("truediv", "floordiv") else (3 if name == "pow" else 1)
        ops.append({"op": "mbin", "name": name, "a": 0, "b": b})
        ops.append({"op": "mbins", "name": name, "a": 0, "c": gen_scalar(rng, name, "f")})
        if name not in ("truediv", "floordiv", "pow"):
            ops.append({"op": "mbins", "name": name, "a": 0, "c": gen_scalar(rng, name, "f"), "rev": True})
    for name in ("neg", "abs", "conjugate", "real", "imag"):
        ops.append({"op": "mun", "name": name, "a": 0})
    for a, b in ((0, 1), (1, 0), (0, 0)):
        ops.append({"op": "ms_vdot", "a": a, "b": b})
    ops.append({"op": "ms_sum", "a": 0})
    ops.append({"op": "msize", "a": 0})
    for lo, hi in gen_bounds(rng, "f")[:1]:
        ops.append({"op": "mclip", "a": 0, "lo": lo, "hi": hi})
    for a in (0, 1, 3):
        ops.append({"op": "ms_all", "a": a})
        ops.append({"op": "ms_any", "a": a})
    ops.append({"op": "mvdot", "a": 0, "b": 1})
    ops.append({"op": "mvdot", "a": 0, "b": 4, "bad": "domain"})
    # unite / flexible_addsub: same MultiDomain, other key sets (key union), one leaf on another domain (rejected)
    for b in (1, 5, 4):
        ops.append({"op": "mflex", "a": 0, "b": b, "neg": False, "unite": True})
        ops.append({"op": "mflex", "a": 0, "b": b, "neg": True})
        ops.append({"op": "mflex", "a": b, "b": 0, "neg": rng.random() < 0.5})
    for o in (1, 2, "inf"):
        ops.append({"op": "mnorm", "a": 0, "ord": o})
        ops.append({"op": "mnorm", "a": 1, "ord": o})
    for b in (4, 5):
        for name in rng.sample(L.BIN_OPS, 3):
            ops.append({"op": "mbin", "name": name, "a": 0, "b": b, "bad": "domain"})
        ops.append({"op": "ms_vdot", "a": 0, "b": b, "bad": "domain"})
        ops.append({"op": "ms_vdot", "a": b, "b": 0, "bad": "domain"})
    return {"doms": doms, "fields": fields, "mfields": mf, "ops": ops}


# ----------------------------------------------------------------------------------------------------------
# comparison class of one op
# ----------------------------------------------------------------------------------------------------------
def op_exact(case, op):
    """class E (exact equality demanded) iff every float operation on the path is exact on these inputs"""
    name = op["op"]
    if name not in L.E_OPS:
        return False
    if L.low_precision(case):
        return False  # 4-byte dtypes: 24-bit mantissa, class T with 1e-4 (cancelling sums over inexact GL/HP volumes)
    if name in ("integrate", "s_integrate", "total_volume", "scalar_weight", "weight"):
        rec = case["doms"][case["fields"][op["f"]]["dom"]]
        if not all(L.nice_recipe(r) for r in rec):
            return False
        if name == "weight" and op["power"] not in (0, 1):
            return False  # `fct**power` / `wgt**power` go through libm pow: tolerance class
    if name in ("bin", "bins", "mbin", "mbins") and op["name"] == "truediv" and op.get("rev"):
        return False
    # anything that takes a square root (2-norms, |z| of complex numbers via hypot) is class T
    if name in ("norm", "mnorm"):
        if str(op["ord"]) == "2":
            return False
        flds = ([case["fields"][op["f"]]] if name == "norm"
                else [case["fields"][i] for i in case["mfields"][op["a"]]["leaves"]])
        if any(fd["dt"] == "c" for fd in flds):
            return False
    if name in ("un", "mun") and op["name"] == "abs":
        flds = ([case["fields"][op["f"]]] if name == "un"
                else [case["fields"][i] for i in case["mfields"][op["a"]]["leaves"]])
        if any(fd["dt"] == "c" for fd in flds):
            return False
    return True


def single(case, op):
    c = dict(case)
    c["ops"] = [op]
    c.pop("laws", None)
    return c


# ----------------------------------------------------------------------------------------------------------
# oracle: the property itself, on the real code only, against plain NumPy with independently computed volumes
# ----------------------------------------------------------------------------------------------------------
def vol_array(dom, spaces):
    """product of the volume factors of the listed sub-domains, broadcast to the field's shape (from domain.dvol)"""
    w = np.ones(dom.shape, dtype=np.float64)
    for i in spaces:
        dv = dom[i].dvol
        if np.isscalar(dv):
            w = w * float(dv)
        else:
            shp = [1] * len(dom.shape)
            for ax, n in zip(dom.axes[i], np.asarray(dv).shape):
                shp[ax] = n
            w = w * np.asarray(dv, dtype=np.float64).reshape(shp)
    return w


def norm_spaces(sp, n):
    if sp is None:
        return tuple(range(n))
    if isinstance(sp, int):
        return (sp,)
    return tuple(sp)


def valid_spaces(sp, n):
    t = norm_spaces(sp, n)
    return all(isinstance(i, int) and 0 <= i < n for i in t) and len(set(t)) == len(t)


def _allclose(a, b, tol=1e-9):
    a, b = np.asarray(a), np.asarray(b)
    if a.shape != b.shape:
        return False
    return bool(np.allclose(a, b, rtol=tol, atol=tol, equal_nan=True))


# operations whose NumPy reference is the very same array operation on the same dtype: the result dtype must agree
SAME_DTYPE_OPS = {"sum", "prod", "all", "any", "un", "bin", "bins", "scale", "clip", "unite", "flexible_addsub",
                  "s_sum", "s_prod", "s_all", "s_any"}
# volume operations keep the precision of floating input (float32 stays float32, complex64 stays complex64 / float32)
# (mean/var/std over non-scalar volumes multiply by the NumPy scalar 1/total_volume and come out in double precision)
KEEP_PRECISION_OPS = {"weight", "integrate"}


def dtype_mismatch(name, res_dtype, ref_dtype, in_dtype):
    if name in SAME_DTYPE_OPS:
        return None if res_dtype == ref_dtype else f"dtype {res_dtype}, NumPy gives {ref_dtype}"
    if name == "scale_same":   # scale(1) hands back the field itself
        return None if res_dtype == in_dtype else f"dtype {res_dtype} for scale(1) of {in_dtype}"
    if name in KEEP_PRECISION_OPS and in_dtype.kind in "fc":
        want = 4 if in_dtype in (np.dtype(np.float32), np.dtype(np.complex64)) else 8
        have = res_dtype.itemsize // (2 if res_dtype.kind == "c" else 1)
        return None if (res_dtype.kind in "fc" and have == want) else f"dtype {res_dtype} for input dtype {in_dtype}"
    return None


def expected_numpy(built, op):
    """('value', ndarray/scalar, kept sub-domain indices or None) | ('none',) | ('raises',) | ('novolume',) | None (no claim)"""
    import nifty.cl as ift
    name = op["op"]
    if name.startswith("m") and name != "mean":
        return None
    f = built.fields[op["f"]]
    a = built.arrays[op["f"]]
    dom = f.domain
    n = len(dom)
    if "spaces" in op or name in L.CONTRACTIONS or name in ("weight", "vdot", "total_volume", "scalar_weight"):
        sp = op.get("spaces")
        if not valid_spaces(sp, n):
            return None
        t = norm_spaces(sp, n)
    else:
        t = tuple(range(n))
    axes = tuple(ax for i in t for ax in dom.axes[i])
    kept = [i for i in range(n) if i not in t]
    needs_vol = name in ("integrate", "mean", "var", "std", "weight", "total_volume", "scalar_weight",
                         "s_integrate", "s_mean", "s_var", "s_std")
    if needs_vol and any(isinstance(dom[i], ift.UnstructuredDomain) for i in t):
        return ("novolume",)
    if name in ("vdot", "s_vdot", "bin"):
        g = built.fields[op["g"]]
        if g.domain is not dom:
            return ("raises",)
        b = built.arrays[op["g"]]
    if name == "sum":
        return ("value", a.sum(axis=axes), kept)
    if name == "prod":
        return ("value", a.prod(axis=axes), kept)
    if name == "all":
        return ("value", a.all(axis=axes), kept)
    if name == "any":
        return ("value", a.any(axis=axes), kept)
    if needs_vol:
        w = vol_array(dom, t)
        V = w.sum(axis=axes)
    if name in ("integrate", "s_integrate"):
        return ("value", (a * w).sum(axis=axes), kept)
    if name in ("mean", "s_mean"):
        return ("value", (a * w).sum(axis=axes) / V, kept)
    if name in ("var", "std", "s_var", "s_std"):
        m = (a * w).sum(axis=axes) / V
        mb = np.expand_dims(m, axes) if axes else m
        v = (np.abs(a - mb) ** 2 * w).sum(axis=axes) / V
        return ("value", np.sqrt(v) if name.endswith("std") else v, kept)
    if name == "weight":
        if op["power"] < 0 and np.any(w == 0):
            return None
        return ("value", a * w ** float(op["power"]), list(range(n)))
    if name == "total_volume":
        return ("value", float(np.asarray(V).reshape(-1)[0]), None)
    if name == "scalar_weight":
        if all(np.isscalar(dom[i].dvol) for i in t):
            return ("value", float(np.prod([float(dom[i].dvol) for i in t])), None)
        return ("none",)
    if name == "vdot":
        return ("value", (np.conj(a) * b).sum(axis=axes), kept)
    if name == "s_vdot":
        return ("value", np.vdot(a, b), None)
    if name == "s_sum":
        return ("value", a.sum(), None)
    if name == "s_prod":
        return ("value", a.prod(), None)
    if name == "s_all":
        return ("value", a.all(), None)
    if name == "s_any":
        return ("value", a.any(), None)
    if name == "norm":
        return ("value", np.linalg.norm(a.reshape(-1).astype(np.complex128 if a.dtype.kind == "c" else np.float64),
                                        ord=L.py_ord(op["ord"])), None)
    if name == "un":
        u = op["name"]
        if u == "imag" and a.dtype.kind != "c":
            return None
        r = {"neg": lambda: -a, "pos": lambda: a, "abs": lambda: np.abs(a), "conjugate": lambda: np.conj(a),
             "real": lambda: a.real, "imag": lambda: a.imag}[u]()
        return ("value", r, list(range(n)))
    if name in ("bin", "bins"):
        fn = getattr(operator, op["name"])
        other = b if name == "bin" else L.py_scalar(op["c"])
        try:
            with np.errstate(all="ignore"):
                r = fn(other, a) if op.get("rev") else fn(a, other)
        except Exception as e:  # noqa: BLE001 - NumPy itself refuses (complex floor division, negative int powers)
            return ("raises", type(e).__name__)
        return ("value", r, list(range(n)))
    if name == "scale":
        return ("value", L.py_scalar(op["c"]) * a, list(range(n)))
    if name == "clip":
        return ("value", np.clip(a, L.py_bound(op.get("lo")), L.py_bound(op.get("hi"))), list(range(n)))
    if name in ("unite", "flexible_addsub"):
        g = built.fields[op["g"]]
        if g.domain is not dom:
            return ("raises",)
        b = built.arrays[op["g"]]
        return ("value", a - b if op.get("neg") else a + b, list(range(n)))
    return None


def expected_multi(built, op):
    """MultiField: key-wise array semantics; vdot / norms / sums of the concatenated leaves"""
    name = op["op"]
    A = built.mfields[op["a"]]
    keys = list(A.keys())
    arrs = {k: A[k].val.asnumpy() for k in keys}
    if name == "mflex":
        B = built.mfields[op["b"]]
        sign = -1 if op.get("neg") else 1
        out = {k: arrs[k] for k in keys}
        for k in B.keys():
            if k in out:
                if B[k].domain is not A[k].domain:
                    return ("raises",)
                out[k] = out[k] + sign * B[k].val.asnumpy()
            else:
                out[k] = sign * B[k].val.asnumpy()
        return ("mvalue", {k: out[k] for k in sorted(out)})
    if name in ("ms_all", "ms_any"):
        fn = all if name == "ms_all" else any
        return ("value", fn(bool(getattr(arrs[k], name[3:])()) for k in keys), None)
    if name == "msize":
        return ("value", sum(arrs[k].size for k in keys), None)
    if name in ("mbin", "ms_vdot", "mvdot"):
        B = built.mfields[op["b"]]
        if B.domain is not A.domain:
            return ("raises",)
        barrs = {k: B[k].val.asnumpy() for k in keys}
    if name == "mbin" or name == "mbins":
        fn = getattr(operator, op["name"])
        out = {}
        try:
            with np.errstate(all="ignore"):
                for k in keys:
                    other = barrs[k] if name == "mbin" else L.py_scalar(op["c"])
                    out[k] = fn(other, arrs[k]) if op.get("rev") else fn(arrs[k], other)
        except Exception as e:  # noqa: BLE001
            return ("raises", type(e).__name__)
        return ("mvalue", out)
    if name == "mclip":
        return ("mvalue", {k: np.clip(arrs[k], L.py_bound(op.get("lo")), L.py_bound(op.get("hi"))) for k in keys})
    if name == "mun":
        u = op["name"]
        if u == "imag" and any(a.dtype.kind != "c" for a in arrs.values()):
            return None
        fnu = {"neg": lambda a: -a, "abs": np.abs, "conjugate": np.conj, "real": lambda a: a.real, "imag": lambda a: a.imag}[u]
        return ("mvalue", {k: fnu(arrs[k]) for k in keys})
    if name in ("ms_vdot", "mvdot"):
        return ("value", sum(np.vdot(arrs[k], barrs[k]) for k in keys), None)
    if name == "ms_sum":
        return ("value", sum(arrs[k].sum() for k in keys), None)
    if name == "mnorm":
        cat = np.concatenate([arrs[k].reshape(-1).astype(np.complex128) for k in keys])
        return ("value", np.linalg.norm(cat, ord=L.py_ord(op["ord"])), None)
    return None


def check_op(built, op):
    """property on the real code for one call -> None | (what, signature)"""
    import warnings
    import nifty.cl as ift
    name = op["op"]
    multi = name.startswith("m") and name != "mean"
    try:
        with np.errstate(all="ignore"), warnings.catch_warnings():
            warnings.simplefilter("ignore")
            exp = expected_multi(built, op) if multi else expected_numpy(built, op)
    except Exception as e:  # noqa: BLE001 - the reference itself is undefined here (overflow etc.): no claim
        return None
    if exp is None:
        return None
    err = None
    try:
        with np.errstate(all="ignore"), warnings.catch_warnings():
            warnings.simplefilter("ignore")
            res, me = L.call_impl(built, op)
    except Exception as e:  # noqa: BLE001
        err = type(e).__name__
    sig = {"op": name if "name" not in op else f"{name}:{op['name']}"}
    label = f"{sig['op']}({', '.join(f'{k}={op[k]}' for k in ('spaces', 'power', 'ord', 'c', 'rev', 'lo', 'hi') if k in op)})"
    if exp[0] == "raises":
        if err is None:
            return (f"{label}: operands on different domains (or an operation NumPy refuses) were accepted",
                    dict(sig, kind="not-rejected"))
        if len(exp) > 1 and err != exp[1]:
            return None
        return None
    if exp[0] == "novolume":
        if err == "AttributeError" or err is None:
            return None  # UnstructuredDomain has no volume factors: rejection is the documented behaviour
        dts = built.case["fields"][op["f"]]["dt"] if not multi else "m"
        return (f"{label}: {err} on a domain without volume factors", dict(kind="error", error=err, dtype=dts))
    if err is not None:
        dts = built.case["fields"][op["f"]]["dt"] if not multi else "m"
        # one signature per (exception, dtype): the same defect surfaces through many methods (weight -> integrate ...)
        return (f"{label} raised {err} on a valid call (dtype {dts})", dict(kind="error", error=err, dtype=dts))
    if exp[0] == "none":
        return None if res is None else (f"{label}: expected None", dict(sig, kind="value"))
    if exp[0] == "mvalue":
        if not isinstance(res, ift.MultiField) or list(res.keys()) != list(exp[1].keys()):
            return (f"{label}: result is not a MultiField over the same keys", dict(sig, kind="type"))
        for k, v in exp[1].items():
            if not _allclose(res[k].val.asnumpy(), v, 1e-4 if L.low_precision(built.case) else 1e-9):
                return (f"{label}: leaf '{k}' differs from the key-wise array operation", dict(sig, kind="value"))
            if name in ("mbin", "mbins", "mun", "mclip", "mflex") and res[k].val.asnumpy().dtype != np.asarray(v).dtype:
                return (f"{label}: leaf '{k}' has dtype {res[k].val.asnumpy().dtype}, NumPy gives {np.asarray(v).dtype}",
                        dict(sig, kind="dtype"))
            src = built.mfields[op["a"]] if k in built.mfields[op["a"]] else built.mfields[op["b"]]
            if res[k].domain is not src[k].domain:
                return (f"{label}: leaf '{k}' changed its domain", dict(sig, kind="domain"))
        return None
    val, kept = exp[1], exp[2]
    if res is None or isinstance(res, ift.MultiField):
        return (f"{label}: returned {type(res).__name__} where a value is expected", dict(sig, kind="type"))
    if isinstance(res, ift.Field):
        got = res.val.asnumpy()
        if kept is not None:
            want_dom = ift.DomainTuple.make(tuple(built.fields[op["f"]].domain[i] for i in kept))
            if res.domain is not want_dom:
                return (f"{label}: result lives on the wrong domain", dict(sig, kind="domain"))
    else:
        got = np.asarray(res)
    if np.asarray(val).size and not np.all(np.isfinite(np.asarray(val, dtype=np.complex128))):
        return None
    if np.max(np.abs(np.asarray(val, dtype=np.complex128)), initial=0.0) > 2.0 ** 50:
        return None
    tol = 1e-4 if L.low_precision(built.case) else 1e-9
    try:
        same = _allclose(got.reshape(np.asarray(val).shape) if got.size == np.asarray(val).size else got, val, tol)
    except Exception:  # noqa: BLE001 - a result that cannot even be compared with an array is a wrong result
        same = False
    if same and not multi:
        nm = name
        if name == "scale" and L.py_scalar(op["c"]) == 1:
            nm = "scale_same"
        dm = dtype_mismatch(nm, np.asarray(got).dtype, np.asarray(val).dtype, built.arrays[op["f"]].dtype)
        if dm is not None:
            return (f"{label}: result has {dm}", dict(sig, kind="dtype"))
    if not same:
        return (f"{label} differs from the NumPy computation with the domain's volume factors",
                dict(sig, kind="value", dtype=("m" if multi else built.case["fields"][op["f"]]["dt"])))
    return None


def check_vdot_laws(built):
    """conjugate-linearity of vdot, exact on small integers (class E): <a x + y, z> = conj(a)<x,z> + <y,z>, <x,y> = conj<y,x>"""
    f, g = built.fields[0], built.fields[1]
    if f.domain is not g.domain:
        return None
    try:
        for a in (2, -3, 1 + 2j, -1j):
            lhs1 = (a * f + g).s_vdot(f)
            rhs1 = np.conj(a) * f.s_vdot(f) + g.s_vdot(f)
            lhs2 = f.s_vdot(a * g + f)
            rhs2 = a * f.s_vdot(g) + f.s_vdot(f)
            if lhs1 != rhs1:
                return (f"vdot is not conjugate-linear in its first argument (a={a})", {"op": "vdot", "kind": "conj-linear-1"})
            if lhs2 != rhs2:
                return (f"vdot is not linear in its second argument (a={a})", {"op": "vdot", "kind": "linear-2"})
        if f.s_vdot(g) != np.conj(g.s_vdot(f)):
            return ("vdot(x,y) != conj(vdot(y,x))", {"op": "vdot", "kind": "hermitian"})
    except Exception as e:  # noqa: BLE001
        return (f"vdot law evaluation raised {type(e).__name__}", {"op": "vdot", "kind": "error", "error": type(e).__name__})
    return None


def oracle(case):
    built = L.Built(case)
    if case.get("volume"):
        for rec, dom in zip(case["doms"], built.doms):
            for r, d in zip(rec, dom):
                dv = d.dvol
                tot = float(d.size * dv) if np.isscalar(dv) else float(np.sum(dv))
                if not abs(float(d.total_volume) - tot) <= 1e-12 * abs(tot):
                    return (f"{d!r}: total_volume differs from the sum of its volume factors",
                            {"kind": "volume", "domain": r[0]})
        return None
    for op in case["ops"]:
        r = check_op(built, op)
        if r is not None:
            return r
    if case.get("laws") and len(built.fields) >= 2:
        return check_vdot_laws(built)
    return None


def shrink(case):
    if len(case["ops"]) > 1:
        for op in case["ops"]:
            yield single(case, op)
        return
    # simpler data: zero all but one entry of every field
    for i, fd in enumerate(case["fields"]):
        for j in range(len(fd["re"])):
            if any(v != "0" for k, v in enumerate(fd["re"]) if k != j) or any(v != "0" for v in fd["im"]):
                c = dict(case)
                c["fields"] = [dict(x) for x in case["fields"]]
                dflt = "1" if i in (2,) else "0"
                c["fields"][i]["re"] = [v if k == j else dflt for k, v in enumerate(fd["re"])]
                c["fields"][i]["im"] = ["0"] * len(fd["im"])
                yield c
                break


# ----------------------------------------------------------------------------------------------------------
# the check
# ----------------------------------------------------------------------------------------------------------
def load_corpus():
    import glob
    import json
    import os
    from core.ctx import VERIF
    out = []
    for p in sorted(glob.glob(os.path.join(VERIF, "corpus", "C06", "*.json"))):
        rec = json.load(open(p))
        out.append(rec.get("case", rec))
    return out


def check_volume_hypothesis(ctx, case, built):
    """trusted-base hypothesis of the weighted-average theorems (VolConsistent): total_volume = sum of dvol for the
    domain classes whose total_volume is not StructuredDomain's formula on exact numbers (GLSpace, HPSpace)"""
    for rec, dom in zip(case["doms"], built.doms):
        for r, d in zip(rec, dom):
            if L.nice_recipe(r):
                continue
            dv = d.dvol
            tot = float(d.size * dv) if np.isscalar(dv) else float(np.sum(dv))
            ctx.stat("hypothesis:total_volume=sum(dvol):" + r[0])
            if not abs(float(d.total_volume) - tot) <= 1e-12 * abs(tot):
                ctx.broke("correspondence", "hypothesis total_volume = sum(dvol) fails for " + repr(d),
                          f"total_volume={float(d.total_volume)!r} sum(dvol)={tot!r}")
                ctx.counterexample({"doms": [[r]], "fields": [], "mfields": [], "ops": [], "volume": True},
                                   f"{d!r}: total_volume {float(d.total_volume)!r} differs from the sum of its volume "
                                   f"factors {tot!r}", {"kind": "volume", "domain": r[0]})


def run_cases(ctx, cases, set_tuples=()):
    builts = [L.Built(c) for c in cases]
    lines = [L.model_case(c, b) for c, b in zip(cases, builts)]
    outs = ctx.model(DRIVER, lines + [{"setorder": list(t)} for t in set_tuples])
    # the transcription of CPython's set iteration order (parse_spaces depends on it) against the interpreter itself
    for t, out in zip(set_tuples, outs[len(lines):]):
        real = [int(i) for i in tuple(set(tuple(t)))]
        ctx.stat("setorder-tuples")
        ctx.compare({"setorder": list(t)}, {"order": real}, out, note="tuple(set(spaces)) iteration order",
                    nontrivial=len(set(t)) > 1)
    for case, built, out in zip(cases, builts, outs):
        if "res" not in out:
            ctx.broke("correspondence", "model driver rejected a case", str(out)[:300])
            continue
        size = max([int(np.prod(d.shape)) for d in built.doms] + [1])
        for op, m in zip(case["ops"], out["res"]):
            one = single(case, op)
            opname = op["op"] if "name" not in op else op["op"] + ":" + op["name"]
            if m.get("error") in ("model-unsupported", "bad-args", "bad-op"):
                ctx.stat("skipped:" + m["error"])
                ctx.broke("correspondence", "model cannot evaluate a generated call", str(op))
                continue
            if m.get("k") == "irr":
                ctx.stat("skipped:irrational-norm1")
                continue
            if op["op"] in ("prod", "s_prod") and L.too_big(m):
                ctx.stat("skipped:prod-overflow")
                continue
            impl = L.run_impl(built, op)
            exact = op_exact(case, op)
            ok = L.agree(impl, m, exact, 1e-4 if L.low_precision(case) else L.TOL)
            ctx.stat("op:" + opname)
            ctx.stat("class:" + ("E" if exact else "T"))
            if "error" in m:
                ctx.stat("error:" + m["error"])
            if op.get("bad"):
                ctx.stat("malformed:" + op["bad"])
                if op["bad"] == "spaces-odd" and "error" not in m:
                    ctx.stat("odd-spaces-accepted:" + op["op"])
            ctx.compare(one, m if ok else impl, m, note=f"C06 {opname}: real code vs Lean model",
                        nontrivial=("error" not in m) and size > 1)
            r = check_op(built, op)
            if r is not None:
                ctx.counterexample(one, *r)
        check_volume_hypothesis(ctx, case, built)
        ctx.stat("nsub:%d" % len(case["doms"][0]))
        for rcp in case["doms"][0]:
            ctx.stat("sub:" + rcp[0])
        for fd in case["fields"][:1]:
            ctx.stat("dtype:" + fd["dt"] + str(fd.get("p", 8)))
        if case.get("laws"):
            r = check_vdot_laws(built)
            if r is not None:
                ctx.counterexample(dict(case, ops=[]), *r)


def run(ctx):
    cases = load_corpus()          # corpus first
    nf, nm = ctx.n(28, 400), ctx.n(12, 150)
    for _ in range(nf):
        c = gen_case(ctx.rng)
        c["laws"] = True
        cases.append(c)
    for _ in range(nm):
        cases.append(gen_mcase(ctx.rng))
    tuples = []
    for _ in range(ctx.n(400, 6000)):
        lo, hi = ctx.rng.choice([(-4, 6), (-12, 40), (-3, 3), (-40, 300), (-1, 9)])
        tuples.append([ctx.rng.randint(lo, hi) for _ in range(ctx.rng.randint(1, 14))])
    chunk = 200                    # few driver starts: each one elaborates the driver (seconds)
    for i in range(0, len(cases), chunk):
        run_cases(ctx, cases[i:i + chunk], tuples if i == 0 else ())


def search(ctx):
    """a proof or the correspondence broke: look for a failing input on the real code with fresh cases"""
    for _ in range(ctx.n(60, 300)):
        c = gen_case(ctx.rng)
        c["laws"] = True
        r = oracle(c)
        if r is not None:
            ctx.counterexample(c, *r)
            return
    for _ in range(ctx.n(30, 150)):
        c = gen_mcase(ctx.rng)
        r = oracle(c)
        if r is not None:
            ctx.counterexample(c, *r)
            return
