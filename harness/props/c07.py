"""C07 — Fields are immutable once constructed (DESIGN.md §5 C07, design.d/C07.md).

Histories over the alphabet of lean/NiftyVerif/Model/Heap.lean are executed on the real nifty.cl objects
(`Real`) and on the Lean model (Driver/C07.lean); after every step the harness compares: did the step raise
(and which kind), which object came back (identity -> first-occurrence number), the values of every field,
of every ndarray handle, every `flags.writeable`, every `AnyArray.readonly`, and what every operator built
from a field denotes (observed through `op(ones)` / `op(zeros)`).
Oracle (real code only): in a history that respects the two guards of the Lean theorem (no other writable
ndarray alias of the source exists when a field is built on it; nobody sets flags.writeable=True on an alias
of a field), the bytes of every field and the action of every operator built from a field never change.
"""
import glob
import json
import os

import numpy as np

from core.ctx import VERIF

ID = "C07"
LEAN_MODULES = ["NiftyVerif.Core.Proto", "NiftyVerif.Props.C07"]
DRIVER = "Driver/C07.lean"
OBLIGATIONS = ["NiftyVerif.C07." + t for t in (
    "inv_init", "inv_construct", "inv_step", "inv_run", "field_constant_step", "field_constant",
    "field_constant_from_start", "ops_step", "ops_from_field_constant",
    "asFound_violates", "asFound_base_escapes", "prior_view_escapes", "reenabled_flag_escapes",
    "asarray_exact_identity", "asarray_subclass_view", "asarray_view_escapes")]
RULE = ("histories of Heap.Op operations (every public Field constructor path x every write path: source array, "
        "views, .val/.raw/.asnumpy() handles, __setitem__, in-place ops, out= ufuncs, flags) generated while running "
        "the real code; length <= 12 quick / <= 40 thorough, 2-3+ fields; plus the full constructor x attack matrix; "
        "non-trivial = at least one field exists and at least one write/in-place/out=/flag operation follows its "
        "construction; distinct by the canonical op list")
TRUSTED_BASE = ["Lean 4.33 kernel; axioms propext/Classical.choice/Quot.sound only (audited every run)",
                "Model/Heap.lean is hand-written (effect records for 31 operations of any_array.py/field.py/sugar.py/"
                "diagonal_operator.py/adder.py); tied by per-step differential comparison of values, flags, identities, "
                "error kinds on generated histories",
                "NumPy's own flag semantics (views inherit the flag at creation; a read-only ndarray rejects item "
                "assignment, in-place ufuncs and out=) are executed, not proved; C-level writers that ignore flags and "
                "CuPy arrays are outside the model"]
ASSUMPTIONS = ["1-D float64 arrays holding small integers (class E)",
               "guards of the theorem: no other writable ndarray alias of the source array at construction; "
               "flags.writeable is not set back to True on an alias of a field's buffer (both decidable, evaluated on the "
               "real objects by the oracle and by Heap.guard in the model); `.base` navigation to a hidden owner is not "
               "in the alphabet"]

WRITE_OPS = {"writeArr", "wrapSetitem", "wrapIadd", "ufuncOut", "setFlag"}
# Heap.Op also has `arrBase` (`a.base`): navigation from any ndarray handle to the array it is a view of,
# `newSub` (sent as newArr with how >= 2: an owning ndarray-subclass instance) and `asArray` (np.asarray(a))


def _dom(n, ndim=1):
    """the canonical domain of a 1-D array of length n; 0-d sources live on the scalar domain"""
    import nifty.cl as ift
    if ndim == 0:
        return ift.DomainTuple.scalar_domain()
    return ift.DomainTuple.make(ift.UnstructuredDomain(n))


def _sz(x):
    return int(np.prod(x.shape, dtype=np.int64))


def _root(x):
    while isinstance(getattr(x, "base", None), np.ndarray):
        x = x.base
    return x


def _ints(a):
    a = np.asarray(a).reshape(-1)
    out = []
    for v in a:
        fv = float(v)
        out.append(int(fv) if fv == int(fv) else repr(fv))
    return out


class BadHandle(Exception):
    pass


class UserArray(np.ndarray):
    """a trivial user subclass of ndarray (like np.memmap / np.matrix / astropy Quantity sources)"""
    pass


def _source_array(vals, how):
    """the source array kinds a caller may hand to a constructor: exact ndarray, 0-d, an owning ndarray subclass, a memmap"""
    if how == 1 and len(vals) == 1:
        return np.array(float(vals[0]))
    if how == 2:
        a = np.ndarray.__new__(UserArray, shape=(len(vals),), dtype=np.float64)     # owns its data
        a[:] = vals
        return a
    if how == 3:
        import tempfile
        a = np.memmap(tempfile.TemporaryFile(), dtype=np.float64, mode="w+", shape=(max(len(vals), 1),))
        a[:len(vals)] = vals
        return a if len(vals) else a[:0]
    return np.array(vals, dtype=np.float64)


def _plain(a):
    return type(a) is np.ndarray


class Real:
    """executes Heap.Op operations on the real nifty.cl objects, mirroring the model's object numbering"""

    def __init__(self):
        self.arrs, self.wraps, self.fields, self.ops = [], [], [], []
        self.guard_ok = True          # all guards so far held (evaluated on the real objects)
        self.subclass_seen = False    # the history contains an ndarray-subclass source (user subclass, memmap)
        self.sub_sources = set()      # handles of the subclass source arrays (class tag exact=false in the model)
        self.birth = []               # bytes of every field at construction
        self.opbirth = []             # action of every operator at construction
        self.created_by = []          # op name that created each field

    # -- helpers ---------------------------------------------------------------------------------------------
    def _idx(self, lst, obj):
        for i, o in enumerate(lst):
            if o is obj:
                return i
        return -1

    def _get(self, lst, i):
        if not isinstance(i, int) or i < 0 or i >= len(lst):
            raise BadHandle()
        return lst[i]

    def _other_writable_alias(self, t):
        r = _root(t)
        return any((x is not t) and x.flags.writeable and (_root(x) is r) for x in self.arrs)

    def _is_field_buf(self, t):
        r = _root(t)
        return any(_root(f.raw) is r for f in self.fields)

    def _new_field(self, f, opname):
        self.fields.append(f)
        self.birth.append(np.array(f.raw).tobytes())
        self.created_by.append(opname)
        return ["field", len(self.fields) - 1]

    def _act(self, op):
        """what an operator built from a field does, through the public API only"""
        import nifty.cl as ift
        kind, o = op
        dom = o.domain
        probe = ift.full(dom, 1.) if kind == "diag" else ift.full(dom, 0.)
        return _ints(np.array(o(probe).raw))

    # -- one step -------------------------------------------------------------------------------------------
    def step(self, op):
        import nifty.cl as ift
        from nifty.cl.any_array import AnyArray
        k = op["op"]
        how = op.get("how", 0)
        ret = None
        A, W, F = self.arrs, self.wraps, self.fields
        if k == "newArr":
            A.append(_source_array(op["vals"], how))
            if not _plain(A[-1]):
                self.subclass_seen = True
                self.sub_sources.add(len(A) - 1)
            ret = ["arr", len(A) - 1]
        elif k == "sliceArr":
            a = self._get(A, op["a"])
            lo, hi = op["lo"], op["hi"]
            full = (lo == 0 and hi >= a.shape[0])
            if full and how == 1:
                b = a.view()
            elif full and how == 2:
                b = a.reshape(-1)
            elif full and how == 3:
                b = a.T
            else:
                b = a[lo:hi]
            A.append(b)
            ret = ["arr", len(A) - 1]
        elif k == "writeArr":
            a = self._get(A, op["a"])
            if a.ndim == 0:       # the 0-d array behind a broadcast: one entry, addressed as a[()]
                if not a.flags.writeable:
                    raise ValueError("assignment destination is read-only")
                if op["i"] != 0:
                    raise IndexError("index out of bounds")
                a[()] = float(op["v"])
            else:
                a[op["i"]] = float(op["v"])
        elif k == "asArray":
            a = self._get(A, op["a"])
            b = np.asarray(a)                 # what the library (and callers) do to "make sure it is an array"
            i = self._idx(A, b)
            if i < 0:
                A.append(b)
                i = len(A) - 1
            ret = ["arr", i]
        elif k == "arrBase":
            b = self._get(A, op["a"]).base
            # a non-ndarray base (the mmap object behind a memmap) is a buffer owner, not an array handle
            ret = None if not isinstance(b, np.ndarray) else ["arr", self._idx(A, b)]
            if ret is not None and ret[1] < 0 and self.subclass_seen:
                # NumPy wraps results computed from ndarray subclasses as views of a hidden temporary (`__array_wrap__`);
                # `.base` navigation to such temporaries is outside the model (design.d/C07.md, round 2)
                ret = None
        elif k == "setFlag":
            a = self._get(A, op["a"])
            if op["b"] and self._is_field_buf(a):
                self.guard_ok = False
            a.flags.writeable = bool(op["b"])
        elif k == "wrap":
            W.append(AnyArray(self._get(A, op["a"])))
            ret = ["wrap", len(W) - 1]
        elif k == "wrapLock":
            self._get(W, op["w"]).lock()
        elif k == "wrapVal":
            ret = ["arr", self._idx(A, self._get(W, op["w"]).val)]
        elif k == "wrapAsnumpy":
            ret = ["arr", self._idx(A, self._get(W, op["w"]).asnumpy())]
        elif k == "wrapGetitem":
            w = self._get(W, op["w"])
            lo, hi = op["lo"], op["hi"]
            full = (lo == 0 and hi >= w.shape[0])
            if full and how == 1:
                r = w.view()
            elif full and how == 2:
                r = w.reshape(-1)
            elif full and how == 3:
                r = w.T
            elif full and how == 4:
                r = w[...]
            else:
                r = w[lo:hi]
            A.append(r.val)
            W.append(r)
            ret = ["wrap", len(W) - 1]
        elif k == "wrapSame":
            w = self._get(W, op["w"])
            r = (w.real, w.conj(), w.conjugate())[how % 3]
            if r.val is not w.val:        # the model says: same ndarray object
                A.append(r.val)
            W.append(r)
            ret = ["wrap", len(W) - 1]
        elif k == "wrapSetitem":
            w = self._get(W, op["w"])
            if w.ndim == 0:          # 0-d wrapper: the one entry is addressed as w[()]
                if w.readonly or not w.val.flags.writeable:
                    raise ValueError("assignment destination is read-only")
                if op["i"] != 0:
                    raise IndexError("index out of bounds")
                w[()] = float(op["v"])
            elif how == 1 and op["i"] < w.shape[0]:
                w[op["i"]:op["i"] + 1] = float(op["v"])
            else:
                w[op["i"]] = float(op["v"])
        elif k == "wrapIadd":
            w, w2 = self._get(W, op["w"]), self._get(W, op["w2"])
            w += w2
            W.append(w)
            ret = ["wrap", len(W) - 1]
        elif k == "ufuncOut":
            wx, wy, wo = self._get(W, op["wx"]), self._get(W, op["wy"]), self._get(W, op["wout"])
            if how == 1:
                np.add(wx, wy, out=(wo,))
            else:
                np.add(wx, wy, out=wo)
        elif k == "wrapCopy":
            r = self._get(W, op["w"]).copy()
            A.append(r.val)
            W.append(r)
            ret = ["wrap", len(W) - 1]
        elif k == "fieldFromArr":
            a = self._get(A, op["a"])
            if self._other_writable_alias(a):
                self.guard_ok = False
            d = _dom(op["n"], a.ndim if op["n"] == _sz(a) else 1)
            if how == 1:
                f = ift.Field.from_raw(d, a)
            elif how == 2:
                f = ift.makeField(d, a)
            elif how == 3:
                f = ift.Field(d, AnyArray(a))
            elif how == 4 and a.ndim:
                f = ift.makeField(d[0], a)           # a bare Domain as domain description
            elif how == 5:
                f = ift.makeField(ift.MultiDomain.make({"k": d}), {"k": a})["k"]       # sugar.makeField -> MultiField.from_raw
            elif how == 6:
                f = ift.MultiField.from_raw(ift.MultiDomain.make({"k": d, "l": d}), {"k": a, "l": a.copy()})["k"]
            else:
                f = ift.Field(d, a)
            W.append(f.val)
            ret = self._new_field(f, k)
        elif k == "fieldFromWrap":
            w = self._get(W, op["w"])
            if self._other_writable_alias(w.val):
                self.guard_ok = False
            d = _dom(op["n"], w.ndim if op["n"] == _sz(w) else 1)
            if how == 1:
                f = ift.Field.from_raw(d, w)
            elif how == 2:
                f = ift.makeField(d, w)
            else:
                f = ift.Field(d, w)
            ret = self._new_field(f, k)
        elif k == "fieldFull":
            d = _dom(op["n"])
            v = float(op["v"])
            if how == 1:
                f = ift.full(d, v)
            elif how == 2:
                f = ift.Field.from_raw(d, v)
            elif how == 3:
                f = ift.makeField(d, v)
            else:
                f = ift.Field.full(d, v)
            A.append(f.raw.base)          # the 0-d array behind np.broadcast_to stays reachable as `.base`
            A.append(f.raw)
            W.append(f.val)
            ret = self._new_field(f, k)
        elif k == "fieldCast":
            f0 = self._get(F, op["f"])
            f = f0.cast_domain(f0.domain) if (how != 1 or not f0.shape) else f0.cast_domain(f0.domain[0])
            ret = self._new_field(f, k)
        elif k == "fieldVal":
            ret = ["wrap", self._idx(W, self._get(F, op["f"]).val)]
        elif k == "fieldRaw":
            ret = ["arr", self._idx(A, self._get(F, op["f"]).raw)]
        elif k == "fieldAsnumpy":
            ret = ["arr", self._idx(A, self._get(F, op["f"]).asnumpy())]
        elif k == "fieldValRw":
            r = self._get(F, op["f"]).val_rw()
            A.append(r.val)
            W.append(r)
            ret = ["wrap", len(W) - 1]
        elif k == "fieldAsnumpyRw":
            r = self._get(F, op["f"]).asnumpy_rw()
            A.append(r)
            ret = ["arr", len(A) - 1]
        elif k == "fieldAdd":
            f, g = self._get(F, op["f"]), self._get(F, op["g"])
            r = (f + g) if how != 1 else f.unite(g)
            A.append(r.raw)
            W.append(r.val)
            ret = self._new_field(r, k)
        elif k == "fieldScale":
            f = self._get(F, op["f"])
            c = float(op["c"])
            r = (c * f) if how != 1 else (f * c)
            A.append(r.raw)
            W.append(r.val)
            ret = self._new_field(r, k)
        elif k == "mkDiag":
            o = ift.makeOp(self._get(F, op["f"]))
            self.ops.append(("diag", o))
            self.opbirth.append(self._act(self.ops[-1]))
            ret = ["op", len(self.ops) - 1]
        elif k == "mkAdder":
            o = ift.Adder(self._get(F, op["f"]))
            self.ops.append(("adder", o))
            self.opbirth.append(self._act(self.ops[-1]))
            ret = ["op", len(self.ops) - 1]
        elif k == "applyOp":
            kind, o = self._get(self.ops, op["o"])
            x = self._get(F, op["x"])
            r = o(x)
            A.append(r.raw)
            W.append(r.val)
            ret = self._new_field(r, k)
        else:
            raise BadHandle()
        return ret

    def tracked(self, i):
        """the model knows class and `.base` of ndarray object i: exact ndarrays whose base (if any) is a registered handle.
        Results NumPy derives from subclass objects (empty memmap slices, `__array_wrap__` outputs) hang on hidden temporaries."""
        a = self.arrs[i]
        if not _plain(a):
            return False
        if not self.subclass_seen:
            return True
        b = a.base
        return b is None or (isinstance(b, np.ndarray) and self._idx(self.arrs, b) >= 0)

    def snapshot(self):
        return dict(fields=[_ints(f.raw) for f in self.fields],
                    arrs=[_ints(a) for a in self.arrs],
                    aflags=[bool(a.flags.writeable) for a in self.arrs],
                    wflags=[not w.readonly for w in self.wraps],
                    warr=[self._idx(self.arrs, w.val) for w in self.wraps],
                    fwrap=[self._idx(self.wraps, f.val) for f in self.fields],
                    ops=[self._act(o) for o in self.ops])

    def run_step(self, op):
        """-> record comparable with the model's"""
        na, nw, nf, no = len(self.arrs), len(self.wraps), len(self.fields), len(self.ops)
        try:
            ret = self.step(op)
            out = "ok"
        except BadHandle:
            out, ret = "bad-handle", None
        except Exception as e:  # canonical error kind; objects half-registered by a failing step are dropped
            out, ret = type(e).__name__, None
            del self.arrs[na:], self.wraps[nw:], self.fields[nf:], self.ops[no:]
            del self.birth[nf:], self.created_by[nf:], self.opbirth[no:]
        rexact = None      # class tag of the returned array, for the operations that create or pass on source arrays
        if ret is not None and ret[0] == "arr" and ret[1] >= 0 and op["op"] in ("newArr", "sliceArr", "asArray"):
            rexact = bool(_plain(self.arrs[ret[1]]))
        rec = dict(out=out, ret=ret, rexact=rexact, guards_held=bool(self.guard_ok))
        try:
            rec.update(self.snapshot())
        except Exception as e:
            rec["snapshot_error"] = type(e).__name__
        return rec

    def changed(self):
        """oracle core: which field / operator no longer has the bytes / action it had at construction"""
        for i, f in enumerate(self.fields):
            if np.array(f.raw).tobytes() != self.birth[i]:
                return ("field", i)
        for i, o in enumerate(self.ops):
            try:
                if self._act(o) != self.opbirth[i]:
                    return ("op", i)
            except Exception:
                return ("op", i)
        return None


def oracle(case):
    """the property on the real code only: guarded history => no field (or operator built from one) ever changes"""
    R = Real()
    for t, op in enumerate(case["ops"]):
        try:
            R.step(op)
        except BadHandle:
            return None
        except Exception:
            pass
        if not R.guard_ok:
            return None
        ch = R.changed()
        if ch is not None:
            kind, i = ch
            ctor = R.created_by[i] if kind == "field" else "operator"
            return (f"{kind} {i} (built by {ctor}) changed its value at step {t} ({op['op']}) of a history that respects "
                    f"the guards", {"kind": kind + "-changed", "via": op["op"], "ctor": ctor})
    return None


# ---- history shrinking: drop one operation and renumber the handles it shifts ---------------------------------
_REFS = {"a": "arr", "w": "wrap", "w2": "wrap", "wx": "wrap", "wy": "wrap", "wout": "wrap", "f": "field", "g": "field",
         "x": "field", "o": "op"}


def _creation_profile(ops):
    R = Real()
    prof = []
    for op in ops:
        b = (len(R.arrs), len(R.wraps), len(R.fields), len(R.ops))
        R.run_step(op)
        a = (len(R.arrs), len(R.wraps), len(R.fields), len(R.ops))
        prof.append((b, a))
    return prof


def _drop(ops, k, prof):
    (b, a) = prof[k]
    start = dict(arr=b[0], wrap=b[1], field=b[2], op=b[3])
    made = dict(arr=a[0] - b[0], wrap=a[1] - b[1], field=a[2] - b[2], op=a[3] - b[3])
    out = list(ops[:k])
    for op in ops[k + 1:]:
        op2 = dict(op)
        for key, cls in _REFS.items():
            if key in op2 and isinstance(op2[key], int):
                v = op2[key]
                if v >= start[cls] + made[cls]:
                    op2[key] = v - made[cls]
                elif v >= start[cls]:
                    return None
        out.append(op2)
    return out


def shrink(case):
    ops = case["ops"]
    # 1. cut the tail after the first violating step
    R = Real()
    for t, op in enumerate(ops):
        try:
            R.step(op)
        except Exception:
            pass
        if R.changed() is not None:
            if t + 1 < len(ops):
                yield dict(case, ops=ops[:t + 1])
            break
    prof = _creation_profile(ops)
    for k in range(len(ops) - 1):
        cand = _drop(ops, k, prof)
        if cand is not None:
            yield dict(case, ops=cand)
    for k, op in enumerate(ops):
        if op.get("how"):
            yield dict(case, ops=ops[:k] + [dict(op, how=0)] + ops[k + 1:])


# ---- generators ----------------------------------------------------------------------------------------------
def gen_history(rng, length, p_unguarded=0.12):
    """generate while running the real code so that handles are valid and lengths match most of the time"""
    R = Real()
    ops = []
    unguarded = rng.random() < p_unguarded
    for _ in range(length):
        A, W, F, O = R.arrs, R.wraps, R.fields, R.ops
        choices = [("newArr", 3)]
        if A:
            choices += [("writeArr", 4), ("setFlag", 1)]
        if any(R.tracked(i) for i in range(len(A))):
            choices += [("arrBase", 2)]
        if A:
            choices += [("asArray", 2 if R.subclass_seen else 1)]
        if any(a.ndim == 1 and R.tracked(i) for i, a in enumerate(A)):
            choices += [("sliceArr", 2)]
        if A:
            choices += [("wrap", 3), ("fieldFromArr", 4)]
        if W:
            choices += [("wrapLock", 1), ("wrapVal", 1), ("wrapAsnumpy", 1),
                        ("wrapSetitem", 4), ("wrapIadd", 3), ("ufuncOut", 3), ("wrapCopy", 1), ("fieldFromWrap", 3)]
        if any(w.ndim == 1 for w in W):
            choices += [("wrapGetitem", 3), ("wrapSame", 2)]
        if len(F) < 2:
            choices += [("fieldFull", 2)]
        if F:
            choices += [("fieldCast", 1), ("fieldVal", 3), ("fieldRaw", 3), ("fieldAsnumpy", 2), ("fieldValRw", 1),
                        ("fieldAsnumpyRw", 1), ("fieldAdd", 1), ("fieldScale", 1), ("fieldFull", 1)]
        if any(len(f.shape) == 1 for f in F):
            choices += [("mkDiag", 1), ("mkAdder", 1)]      # makeOp of a scalar-domain field is a ScalingOperator: not in the model
        if O and any(len(f.shape) == 1 for f in F):
            choices += [("applyOp", 1)]
        names = [c for c, _ in choices]
        k = rng.choices(names, weights=[w for _, w in choices])[0]
        op = {"op": k}
        ri = rng.randrange

        def lenA(i):
            return _sz(A[i])

        def lenW(i):
            return _sz(W[i])

        def pick_wrap1d():
            idx = [i for i, w in enumerate(W) if w.ndim == 1]
            hot = [i for i in idx if R._is_field_buf(W[i].val)]
            return rng.choice(hot) if hot and rng.random() < 0.6 else rng.choice(idx)

        F1 = [i for i, f in enumerate(F) if len(f.shape) == 1]

        # handles that alias a field are preferred targets for writes: that is where the property lives
        def pick_arr(any_dim=False, plain=False):
            idx = [i for i, a in enumerate(A) if (any_dim or a.ndim == 1) and (not plain or R.tracked(i))]
            if not idx:
                idx = [i for i, a in enumerate(A) if any_dim or a.ndim == 1]
            hot = [i for i in idx if R._is_field_buf(A[i])]
            return rng.choice(hot) if hot and rng.random() < 0.6 else rng.choice(idx)

        def pick_wrap():
            hot = [i for i, w in enumerate(W) if R._is_field_buf(w.val)]
            return rng.choice(hot) if hot and rng.random() < 0.6 else ri(len(W))

        if k == "newArr":
            op["vals"] = [ri(-9, 10) for _ in range(rng.choice([1, 1, 2, 3, 3, 4]))]
            # 1 (single value): 0-d ndarray; 2: user subclass.  np.memmap sources (how=3) are exercised by the constructor x
            # attack matrix only: memmap slices that share no memory (empty ones) silently change class, outside the model
            op["how"] = rng.choice([0, 0, 1, 2, 2])
        elif k == "sliceArr":
            a = pick_arr(plain=True)       # `.base` of views of ndarray subclasses is not collapsed by NumPy: outside the model
            n = lenA(a)
            if rng.random() < 0.5:
                op.update(a=a, lo=0, hi=n, how=ri(4))
            else:
                lo = ri(n + 1)
                op.update(a=a, lo=lo, hi=ri(lo, n + 2))
        elif k == "arrBase":
            op.update(a=pick_arr(True, plain=True))
        elif k == "asArray":
            # exact ndarrays and the subclass SOURCES (results NumPy computes from subclass values carry classes the model
            # does not track)
            cand = [i for i, a in enumerate(A) if R.tracked(i) or i in R.sub_sources]
            subs = [i for i in cand if i in R.sub_sources]
            op.update(a=rng.choice(subs) if subs and rng.random() < 0.7 else rng.choice(cand) if cand else 0)
        elif k == "writeArr":
            a = pick_arr(True)
            n = lenA(a) if A[a].ndim else 1
            op.update(a=a, i=ri(n + (1 if rng.random() < 0.1 else 0)) if n else 0, v=ri(-99, 100))
        elif k == "setFlag":
            a = pick_arr(True) if unguarded else ri(len(A))
            b = rng.random() < 0.4
            if b and not unguarded and R._is_field_buf(A[a]):
                b = False
            if b and (A[a].ndim == 0 or not R.tracked(a)):
                b = False     # 0-d cells behind broadcasts and subclass views are not re-enabled: outside the model
            if b and A[a].ndim and A[a].strides[0] == 0:
                b = False     # stride-0 broadcast results (one memory cell behind n entries) are not re-enabled: outside the model
            op.update(a=a, b=b)
        elif k == "wrap":
            op.update(a=pick_arr(True))
        elif k in ("wrapLock", "wrapVal", "wrapAsnumpy", "wrapCopy"):
            op.update(w=pick_wrap())
        elif k == "wrapSame":
            op.update(w=pick_wrap1d(), how=ri(4))
        elif k == "wrapGetitem":
            w = pick_wrap1d()
            n = lenW(w)
            if rng.random() < 0.5:
                op.update(w=w, lo=0, hi=n, how=ri(5))
            else:
                lo = ri(n + 1)
                op.update(w=w, lo=lo, hi=ri(lo, n + 2))
        elif k == "wrapSetitem":
            w = pick_wrap()
            n = lenW(w)
            op.update(w=w, i=ri(n) if n else 0, v=ri(-99, 100), how=ri(2))
        elif k == "wrapIadd":
            w = pick_wrap()
            nd_ = [j for j in range(len(W)) if W[j].ndim == W[w].ndim]     # () and (1,) do not mix in NumPy's in-place rules
            same = [j for j in nd_ if lenW(j) in (lenW(w), 1)]
            op.update(w=w, w2=rng.choice(same) if same and rng.random() < 0.9 else rng.choice(nd_))
        elif k == "ufuncOut":
            wo = pick_wrap()
            nd_ = [j for j in range(len(W)) if W[j].ndim == W[wo].ndim]
            same = [j for j in nd_ if lenW(j) in (lenW(wo), 1)] or [wo]
            full = [j for j in same if lenW(j) == lenW(wo)] or [wo]
            op.update(wx=rng.choice(full), wy=rng.choice(same), wout=wo, how=ri(2))
            if rng.random() < 0.07:
                op["wy"] = rng.choice(nd_)
        elif k == "fieldFromArr":
            cands = [i for i, a in enumerate(A) if a.ndim == 1 or (a.ndim == 0 and not R._is_field_buf(a))]
            if not unguarded:
                ok = [i for i in cands if not R._other_writable_alias(A[i])]
                cands = ok or cands
            if not cands:
                op = {"op": "newArr", "vals": [ri(-9, 10), ri(-9, 10)], "how": 0}
            else:
                a = rng.choice(cands)
                n = lenA(a) if rng.random() < 0.93 else lenA(a) + 1
                op.update(a=a, n=n, how=ri(7))
        elif k == "fieldFromWrap":
            cands = list(range(len(W)))
            if not unguarded:
                ok = [i for i in cands if not R._other_writable_alias(W[i].val)]
                cands = ok or cands
            w = rng.choice(cands)
            n = lenW(w) if rng.random() < 0.93 else lenW(w) + 1
            op.update(w=w, n=n, how=ri(3))
        elif k == "fieldFull":
            op.update(n=rng.choice([1, 2, 3, 4]), v=ri(-9, 10), how=ri(4))
        elif k in ("mkDiag", "mkAdder"):
            op.update(f=rng.choice(F1))
        elif k in ("fieldCast", "fieldVal", "fieldRaw", "fieldAsnumpy", "fieldValRw", "fieldAsnumpyRw"):
            op.update(f=ri(len(F)))
            if k == "fieldCast":
                op["how"] = ri(2)
        elif k == "fieldAdd":
            f = ri(len(F))
            same = [j for j in range(len(F)) if F[j].shape == F[f].shape]
            # a scalar-domain field and a length-1 field have different domains but the same length: never mixed
            other = [j for j in range(len(F)) if len(F[j].shape) == len(F[f].shape)]
            op.update(f=f, g=rng.choice(same) if rng.random() < 0.9 else rng.choice(other), how=ri(2))
        elif k == "fieldScale":
            op.update(f=ri(len(F)), c=ri(-3, 4), how=ri(2))
        elif k == "applyOp":
            o = ri(len(O))
            same = [j for j in range(len(F)) if F[j].domain is O[o][1].domain]
            op.update(o=o, x=rng.choice(same) if same and rng.random() < 0.9 else rng.choice(F1))
        ops.append(op)
        R.run_step(op)
    return ops


def attack_matrix():
    """every public constructor path x every write path into the new field (enumerated, not sampled)"""
    ctors = []
    for how in range(7):
        ctors.append(("fromArr%d" % how, [{"op": "newArr", "vals": [0, 1, 2, 3]},
                                          {"op": "fieldFromArr", "a": 0, "n": 4, "how": how}]))
    for how in range(3):
        ctors.append(("fromWrap%d" % how, [{"op": "newArr", "vals": [0, 1, 2, 3]}, {"op": "wrap", "a": 0},
                                           {"op": "fieldFromWrap", "w": 0, "n": 4, "how": how}]))
    for kind in (2, 3):
        for how in range(7):
            ctors.append(("sub%d_%d" % (kind, how), [{"op": "newArr", "vals": [0, 1, 2, 3], "how": kind},
                                                      {"op": "fieldFromArr", "a": 0, "n": 4, "how": how}]))
        for how in range(3):
            ctors.append(("subwrap%d_%d" % (kind, how), [{"op": "newArr", "vals": [0, 1, 2, 3], "how": kind}, {"op": "wrap", "a": 0},
                                                          {"op": "fieldFromWrap", "w": 0, "n": 4, "how": how}]))
    for kind in (0, 2, 3):
        for how in range(7):
            # np.asarray(source) handed to the constructor: for subclass sources another object (unguarded, the field follows
            # the source), for exact ndarrays the same object
            ctors.append(("asarr%d_%d" % (kind, how), [{"op": "newArr", "vals": [0, 1, 2, 3], "how": kind}, {"op": "asArray", "a": 0},
                                                        {"op": "fieldFromArr", "a": 1 if kind else 0, "n": 4, "how": how}]))
    for how in (0, 1, 2, 3, 5, 6):
        # 0-d ndarray / 0-d AnyArray sources on the scalar domain, through every constructor
        ctors.append(("zeroD%d" % how, [{"op": "newArr", "vals": [3], "how": 1}, {"op": "fieldFromArr", "a": 0, "n": 1, "how": how}]))
    for how in range(3):
        ctors.append(("zeroDwrap%d" % how, [{"op": "newArr", "vals": [3], "how": 1}, {"op": "wrap", "a": 0},
                                            {"op": "fieldFromWrap", "w": 0, "n": 1, "how": how}]))
    for how in range(7):
        ctors.append(("size1_%d" % how, [{"op": "newArr", "vals": [3]}, {"op": "fieldFromArr", "a": 0, "n": 1, "how": how}]))
    for how in range(4):
        # the source is a still-writable VIEW whose base was locked before: lock() must protect the view object
        ctors.append(("viewOfLockedBase%d" % how, [{"op": "newArr", "vals": [0, 1, 2, 3]},
                                                   {"op": "sliceArr", "a": 0, "lo": 0, "hi": 4, "how": how},
                                                   {"op": "setFlag", "a": 0, "b": False},
                                                   {"op": "fieldFromArr", "a": 1, "n": 4, "how": how}]))
        ctors.append(("wrappedViewOfLockedBase%d" % how, [{"op": "newArr", "vals": [0, 1, 2, 3]}, {"op": "wrap", "a": 0},
                                                          {"op": "wrapGetitem", "w": 0, "lo": 0, "hi": 4, "how": how},
                                                          {"op": "setFlag", "a": 0, "b": False},
                                                          {"op": "fieldFromWrap", "w": 1, "n": 4, "how": how % 3}]))
    for how in range(4):
        ctors.append(("full%d" % how, [{"op": "fieldFull", "n": 4, "v": 3, "how": how}]))
    base = [{"op": "newArr", "vals": [0, 1, 2, 3]}, {"op": "fieldFromArr", "a": 0, "n": 4, "how": 1}]
    for how in range(2):
        ctors.append(("cast%d" % how, base + [{"op": "fieldCast", "f": 0, "how": how}]))
        ctors.append(("add%d" % how, base + [{"op": "fieldAdd", "f": 0, "g": 0, "how": how}]))
        ctors.append(("scale%d" % how, base + [{"op": "fieldScale", "f": 0, "c": 2, "how": how}]))
    ctors.append(("diagapply", base + [{"op": "mkDiag", "f": 0}, {"op": "applyOp", "o": 0, "x": 0}]))
    ctors.append(("adderapply", base + [{"op": "mkAdder", "f": 0}, {"op": "applyOp", "o": 0, "x": 0}]))
    out = []
    for name, pre in ctors:
        R = Real()
        for op in pre:
            R.run_step(op)
        if not R.fields:
            continue
        f = len(R.fields) - 1
        na, nw = len(R.arrs), len(R.wraps)
        fw = R._idx(R.wraps, R.fields[f].val)
        fa = R._idx(R.arrs, R.fields[f].raw)
        srcs = [i for i, a in enumerate(R.arrs) if R._is_field_buf(a)]
        attacks = []
        for a in srcs:
            attacks.append([{"op": "writeArr", "a": a, "i": 0, "v": 99}])
        attacks.append([{"op": "fieldRaw", "f": f}] + ([{"op": "writeArr", "a": fa, "i": 1, "v": 98}] if fa >= 0 else []))
        for a in srcs:
            if R.tracked(a) or a in R.sub_sources:
                # np.asarray of every alias after the construction, write through whatever comes back
                attacks.append([{"op": "asArray", "a": a}] + [{"op": "writeArr", "a": b, "i": 1, "v": 82} for b in range(na + 1)])
        if fa >= 0:
            # navigate to `.base` of the raw handle and of every alias, write through whatever comes back
            attacks.append([{"op": "arrBase", "a": fa}] + [{"op": "writeArr", "a": a, "i": 0, "v": 83} for a in range(na)])
        attacks.append([{"op": "fieldAsnumpyRw", "f": f}, {"op": "writeArr", "a": na, "i": 1, "v": 97}] +
                       ([{"op": "writeArr", "a": fa, "i": 1, "v": 96}] if fa >= 0 else []))
        if fw >= 0:
            attacks.append([{"op": "fieldVal", "f": f}, {"op": "wrapSetitem", "w": fw, "i": 0, "v": 95}])
            attacks.append([{"op": "wrapSetitem", "w": fw, "i": 0, "v": 95, "how": 1}])
            for how in range(5):
                attacks.append([{"op": "wrapGetitem", "w": fw, "lo": 0, "hi": 4, "how": how},
                                {"op": "wrapSetitem", "w": nw, "i": 2, "v": 94},
                                {"op": "writeArr", "a": na, "i": 2, "v": 93}])
            attacks.append([{"op": "wrapGetitem", "w": fw, "lo": 1, "hi": 3},
                            {"op": "wrapSetitem", "w": nw, "i": 0, "v": 92},
                            {"op": "wrapIadd", "w": nw, "w2": nw}])
            for how in range(4):
                attacks.append([{"op": "wrapSame", "w": fw, "how": how},
                                {"op": "wrapSetitem", "w": nw, "i": 3, "v": 91},
                                {"op": "wrapIadd", "w": nw, "w2": fw},
                                {"op": "ufuncOut", "wx": fw, "wy": fw, "wout": nw}])
            attacks.append([{"op": "wrapIadd", "w": fw, "w2": fw}])
            for how in range(2):
                attacks.append([{"op": "ufuncOut", "wx": fw, "wy": fw, "wout": fw, "how": how}])
            attacks.append([{"op": "wrapVal", "w": fw}] + ([{"op": "writeArr", "a": fa, "i": 3, "v": 90}] if fa >= 0 else []))
            attacks.append([{"op": "fieldValRw", "f": f}, {"op": "wrapSetitem", "w": nw, "i": 0, "v": 89},
                            {"op": "wrapIadd", "w": nw, "w2": fw}] +
                           ([{"op": "writeArr", "a": fa, "i": 0, "v": 88}] if fa >= 0 else []))
            attacks.append([{"op": "mkDiag", "f": f}, {"op": "wrapSetitem", "w": fw, "i": 0, "v": 87}] +
                           ([{"op": "writeArr", "a": fa, "i": 0, "v": 86}] if fa >= 0 else []))
            attacks.append([{"op": "mkAdder", "f": f}] +
                           [{"op": "writeArr", "a": a, "i": 2, "v": 85} for a in srcs])
            attacks.append([{"op": "fieldAsnumpy", "f": f}] + [{"op": "writeArr", "a": a, "i": 2, "v": 84} for a in srcs])
        if len(R.fields[f].shape) == 0:
            # scalar-domain fields: no slicing / re-wrapping / operators (0-d wrappers return scalars, makeOp a ScalingOperator)
            attacks = [att for att in attacks if not any(o["op"] in ("wrapGetitem", "wrapSame", "mkDiag", "mkAdder", "applyOp")
                                                         or (o["op"] == "wrapSetitem" and o.get("how")) for o in att)]
        for j, att in enumerate(attacks):
            out.append(dict(name=f"{name}/att{j}", ops=pre + att))
    return out


def _nontrivial(ops):
    seen_field = False
    for op in ops:
        if op["op"].startswith("field") and op["op"] not in ("fieldVal", "fieldRaw", "fieldAsnumpy"):
            seen_field = True
        elif seen_field and op["op"] in WRITE_OPS:
            return True
    return False


def _strip(ops):
    return [{k: v for k, v in op.items()} for op in ops]


def _run_real(ops):
    R = Real()
    return [R.run_step(op) for op in ops]


def _corpus():
    out = []
    for p in sorted(glob.glob(os.path.join(VERIF, "corpus", ID, "*.json"))):
        try:
            d = json.load(open(p))
            out.append(dict(name="corpus/" + os.path.basename(p), ops=d.get("case", d)["ops"]))
        except Exception:
            pass
    return out


def run(ctx):
    cases = _corpus() + attack_matrix()
    ctx.stat("matrix+corpus", len(cases))
    nh = ctx.n(700, 4000)
    maxlen = ctx.n(12, 40)
    for i in range(nh):
        L = ctx.rng.randrange(4, maxlen + 1)
        cases.append(dict(name=f"gen{i}", ops=gen_history(ctx.rng, L)))
    model_in = [dict(cfg="fixed", ops=c["ops"]) for c in cases]
    outs = ctx.model(DRIVER, model_in)
    ndiff_fixed = []
    for c, m in zip(cases, outs):
        ops = c["ops"]
        impl = _run_real(ops)
        steps = m.get("steps")
        guard_ok = True
        if steps is None or len(steps) != len(impl):
            ctx.compare(dict(ops=ops), impl, m, note="C07 model driver rejected the history")
            continue
        mm = []
        for st in steps:
            st = dict(st)
            g = st.pop("guard")
            guard_ok = guard_ok and g
            st["guards_held"] = guard_ok          # the model's Heap.guard vs the oracle's guard on the real objects
            mm.append(st)
        for op, r in zip(ops, impl):
            ctx.stat("op:" + op["op"])
            ctx.stat("out:" + r["out"])
        ctx.stat("guarded" if guard_ok else "unguarded-history")
        ctx.stat("len<=%d" % (4 * ((len(ops) + 3) // 4)))
        nf = len(impl[-1].get("fields", [])) if impl else 0
        ctx.stat("fields=%d" % min(nf, 4))
        # first differing step only (everything after it is noise)
        first = next((t for t, (a, b) in enumerate(zip(impl, mm)) if json.dumps(a, sort_keys=True) != json.dumps(b, sort_keys=True)), None)
        if first is None:
            ctx.compare(dict(ops=ops), 0, 0, nontrivial=_nontrivial(ops))
        else:
            ctx.compare(dict(ops=ops[:first + 1]), impl[first], mm[first],
                        note=f"C07 step {first} ({ops[first]['op']}): real nifty.cl objects vs Heap model (repaired lock)",
                        nontrivial=True)
            ndiff_fixed.append(c)
        r = oracle(dict(ops=ops))
        if r:
            ctx.counterexample(dict(ops=ops), *r)
    if ndiff_fixed:
        # diagnosis only: does the real code behave like the un-repaired lock()?
        sub = ndiff_fixed[:50]
        outs2 = ctx.model(DRIVER, [dict(cfg="asFound", ops=c["ops"]) for c in sub])
        same = 0
        for c, m in zip(sub, outs2):
            impl = _run_real(c["ops"])
            mm = [{k: v for k, v in st.items() if k != "guard"} for st in m.get("steps", [])]
            impl = [{k: v for k, v in r.items() if k != "guards_held"} for r in impl]
            same += json.dumps(impl, sort_keys=True) == json.dumps(mm, sort_keys=True)
        ctx.notes.append(f"{same}/{len(sub)} of the disagreeing histories match the model of the un-repaired "
                         f"AnyArray.lock (isinstance(self, np.ndarray)) exactly")


def search(ctx):
    for c in attack_matrix():
        r = oracle(dict(ops=c["ops"]))
        if r:
            ctx.counterexample(dict(ops=c["ops"]), *r)
            return
    for i in range(3000):
        ops = gen_history(ctx.rng, ctx.rng.randrange(4, 30), p_unguarded=0.0)
        r = oracle(dict(ops=ops))
        if r:
            ctx.counterexample(dict(ops=ops), *r)
            return
