"""Exact Gaussian-rational scalars and small dense matrices (harness side of C01/C13).
A scalar is a pair (Fraction re, Fraction im); a matrix is a list of rows."""
from fractions import Fraction as Fr


class Singular(Exception):
    pass


def g(x):
    """Gaussian rational from int/float/complex/pair/'p/q'-pair"""
    if isinstance(x, tuple) and len(x) == 2 and isinstance(x[0], Fr):
        return x
    if isinstance(x, (list, tuple)):
        return (Fr(x[0]), Fr(x[1]))
    if isinstance(x, complex):
        return (Fr(x.real), Fr(x.imag))
    return (Fr(x), Fr(0))


ZERO = (Fr(0), Fr(0))
ONE = (Fr(1), Fr(0))


def gadd(a, b):
    return (a[0] + b[0], a[1] + b[1])


def gneg(a):
    return (-a[0], -a[1])


def gmul(a, b):
    return (a[0] * b[0] - a[1] * b[1], a[0] * b[1] + a[1] * b[0])


def gconj(a):
    return (a[0], -a[1])


def ginv(a):
    n = a[0] * a[0] + a[1] * a[1]
    if n == 0:
        raise Singular()
    return (a[0] / n, -a[1] / n)


def gjson(a):
    return [str(a[0]), str(a[1])]


def gcomplex(a):
    return complex(float(a[0]), float(a[1]))


def zeros(r, c):
    return [[ZERO] * c for _ in range(r)]


def eye(n):
    return [[ONE if i == j else ZERO for j in range(n)] for i in range(n)]


def shape(m, default_cols=0):
    return (len(m), len(m[0]) if m else default_cols)


def madd(a, b):
    return [[gadd(x, y) for x, y in zip(ra, rb)] for ra, rb in zip(a, b)]


def mneg(a):
    return [[gneg(x) for x in r] for r in a]


def msmul(k, a):
    return [[gmul(k, x) for x in r] for r in a]


def mmul(a, b):
    n, k = len(a), len(b)
    c = len(b[0]) if b else 0
    out = []
    for i in range(n):
        row = []
        for j in range(c):
            s = ZERO
            for l in range(k):
                x, y = a[i][l], b[l][j]
                if (x[0] or x[1]) and (y[0] or y[1]):
                    s = gadd(s, gmul(x, y))
            row.append(s)
        out.append(row)
    return out


def mconjT(a):
    r, c = shape(a)
    return [[gconj(a[i][j]) for i in range(r)] for j in range(c)]


def mdiag(v):
    n = len(v)
    return [[v[i] if i == j else ZERO for j in range(n)] for i in range(n)]


def mblocks(ms):
    n = sum(len(m) for m in ms)
    out = zeros(n, n)
    o = 0
    for m in ms:
        for i, r in enumerate(m):
            for j, x in enumerate(r):
                out[o + i][o + j] = x
        o += len(m)
    return out


def minv(a):
    n = len(a)
    if any(len(r) != n for r in a):
        raise Singular()
    rows = [list(r) + [ONE if i == j else ZERO for j in range(n)] for i, r in enumerate(a)]
    for col in range(n):
        piv = next((r for r in range(col, n) if rows[r][col] != ZERO), None)
        if piv is None:
            raise Singular()
        rows[col], rows[piv] = rows[piv], rows[col]
        p = ginv(rows[col][col])
        rows[col] = [gmul(p, x) for x in rows[col]]
        for r in range(n):
            if r != col and rows[r][col] != ZERO:
                f = rows[r][col]
                rows[r] = [gadd(x, gneg(gmul(f, y))) for x, y in zip(rows[r], rows[col])]
    return [r[n:] for r in rows]


def mjson(a):
    return [[gjson(x) for x in r] for r in a]


def mfromjson(j):
    return [[g(x) for x in r] for r in j]


def mnumpy(a, r=None, c=None):
    import numpy as np
    if not a:
        return np.zeros((r or 0, c or 0), dtype=complex)
    return np.array([[gcomplex(x) for x in row] for row in a], dtype=complex).reshape(len(a), len(a[0]))
