"""C03 auxiliary stream, round 2b (oracle on the real code only, NumPy references):
  * `spaces` — two-axis domains (RGSpace with a non-unit pixel volume x UnstructuredDomain / RGSpace): PARTIAL contractions
               (`sum(spaces)`, `integrate(spaces)`, `ContractionOperator(dom, spaces, power)` and its adjoint = broadcast back),
               `DiagonalOperator(diag, domain, spaces)` acting on one axis, `OuterProduct`, arithmetic with constant Linearizations
               (`make_const`, `make_const_empty_input`, `__rsub__`, `__rtruediv__`), `add_metric`/`with_want_metric`; on operators and on
               Linearization objects: value, dense Jacobian vs finite differences, adjoint = transpose, metric bookkeeping."""
import numpy as np

FN = {"id": lambda z: z, "exp": np.exp, "sin": np.sin, "tanh": np.tanh, "sq": lambda z: z * z}
OPS = ["sum", "integrate", "contr_w", "bcast_mul", "diag_sub", "outerprod", "const_arith", "rdiv_const", "sum_then_ptw", "vdot_partial",
       "metric_book"]


def gen_spaces(rng, n):
    out = []
    dy = lambda: rng.randint(-8, 8) / 8
    for _ in range(n):
        n1, n2 = rng.choice([1, 2, 3]), rng.choice([1, 2, 3])
        out.append(dict(aux="spaces", n1=n1, n2=n2, d1=rng.choice([0.5, 0.25, 2.0, 1.0]), d2=rng.choice([0.5, 4.0, 1.0]),
                        t2=rng.choice(["U", "RG"]), x=[[dy() for _ in range(n2)] for _ in range(n1)],
                        c=[[dy() for _ in range(n2)] for _ in range(n1)], v1=[dy() for _ in range(n1)], v2=[dy() for _ in range(n2)],
                        f=rng.choice(sorted(FN)), g=rng.choice(sorted(FN)), op=rng.choice(OPS), sp=rng.choice([0, 1, None, (0, 1)]),
                        mode=rng.choice(["operator", "linearization"]), post=rng.choice(["id", "exp", "tanh"])))
    for i, c in enumerate(out):
        # stratified: every (op, mode, spaces) combination once per 88 cases
        c.update(op=OPS[i % len(OPS)], mode=["operator", "linearization"][(i // len(OPS)) % 2], sp=[0, 1, None, (0, 1)][(i // (2 * len(OPS))) % 4])
    for c in out:
        # volume weights need a structured space (UnstructuredDomain has no pixel volume)
        if c["op"] in ("integrate", "contr_w", "sum_then_ptw", "vdot_partial"):
            c["t2"] = "RG"
    return out


def _arr(f):
    v = f.val
    return np.asarray(v.asnumpy() if hasattr(v, "asnumpy") else v)


def _close(a, b, tol):
    a, b = np.asarray(a, dtype=float), np.asarray(b, dtype=float)
    return a.shape == b.shape and bool(np.all(np.abs(a - b) <= tol * max(1.0, float(np.max(np.abs(b), initial=0)))))


def oracle(case):
    from .c03 import quiet, err_site
    try:
        with quiet():
            import nifty.cl as ift
            return _spaces(case, ift)
    except Exception as e:
        return (f"spaces[{case.get('op')}]: raised {type(e).__name__} in {err_site(e)}: {str(e)[:140]}",
                {"site": "aux:spaces", "kind": "error:" + type(e).__name__, "where": err_site(e)})


def _fd(ref, x0):
    cols = []
    for j in range(x0.size):
        h = np.zeros(x0.size)
        h[j] = 1
        h = h.reshape(x0.shape)
        t = 1e-3
        d1 = (ref(x0 + t * h) - ref(x0 - t * h)) / (2 * t)
        d2 = (ref(x0 + t / 2 * h) - ref(x0 - t / 2 * h)) / t
        cols.append(((4 * d2 - d1) / 3).ravel())
    return np.array(cols).T


def _spaces(case, ift):
    n1, n2 = case["n1"], case["n2"]
    s1 = ift.RGSpace(n1, distances=case["d1"])
    s2 = ift.RGSpace(n2, distances=case["d2"]) if case["t2"] == "RG" else ift.UnstructuredDomain(n2)
    dom = ift.DomainTuple.make((s1, s2))
    vol = (case["d1"], case["d2"] if case["t2"] == "RG" else 1.0)
    x0 = np.array(case["x"], dtype=float)
    c0 = np.array(case["c"], dtype=float)
    v1, v2 = np.array(case["v1"], dtype=float), np.array(case["v2"], dtype=float)
    f, g = FN[case["f"]], FN[case["g"]]
    op, sp, mode = case["op"], case["sp"], case["mode"]
    sp = tuple(sp) if isinstance(sp, list) else sp
    axes = (0, 1) if sp is None else ((sp,) if isinstance(sp, int) else tuple(sp))
    volf = float(np.prod([vol[a] for a in axes]))
    post = {"id": lambda v: v, "exp": np.exp, "tanh": np.tanh}[case["post"]]
    sig = {"site": "aux:spaces", "op": op, "mode": mode}

    def fn(o, name):
        return o if name == "id" else (o * o if name == "sq" else o.ptw(name))
    if mode == "operator":
        start = ift.ScalingOperator(dom, 1.)
    else:
        start = ift.Linearization.make_var(ift.makeField(dom, x0), want_metric=(op == "metric_book"))
    A, B = fn(start, case["f"]), fn(start, case["g"])
    bshape = lambda r: np.expand_dims(r, axes) if len(axes) < 2 else np.reshape(r, (1, 1))
    if op == "sum":
        r = A.sum(sp)
        ref = lambda x: np.sum(f(x), axis=axes)
    elif op == "integrate":
        r = A.integrate(sp)
        ref = lambda x: np.sum(f(x), axis=axes) * volf
    elif op == "contr_w":
        r = ift.ContractionOperator(dom, sp, power=1)(A)
        ref = lambda x: np.sum(f(x), axis=axes) * volf
    elif op == "bcast_mul":
        r = ift.ContractionOperator(dom, sp).adjoint(B.sum(sp)) * A
        ref = lambda x: np.broadcast_to(bshape(np.sum(g(x), axis=axes)), x.shape) * f(x)
    elif op == "diag_sub":
        a = 0 if sp in (0, None, (0, 1)) else 1
        dv = v1 if a == 0 else v2
        D = ift.DiagonalOperator(ift.makeField(ift.DomainTuple.make(dom[a]), dv), domain=dom, spaces=a)
        r = D(A) + D.adjoint(B)
        ref = lambda x: (f(x) + g(x)) * (dv[:, None] if a == 0 else dv[None, :])
    elif op == "outerprod":
        O = ift.OuterProduct(ift.DomainTuple.make(s2), ift.makeField(ift.DomainTuple.make(s1), v1))
        r = O(A.sum(0)) * B
        ref = lambda x: np.multiply.outer(v1, np.sum(f(x), axis=0)) * g(x)
    elif op == "const_arith":
        cf = ift.makeField(dom, c0)
        if mode == "linearization":
            cl = ift.Linearization.make_const(cf)
            r = (cl - A) * B + (cf - B) + cl
        else:
            r = (ift.Adder(cf) @ A.scale(-1.)) * B + ift.Adder(cf) @ B.scale(-1.) + ift.Adder(cf) @ A.scale(0.)
        ref = lambda x: (c0 - f(x)) * g(x) + (c0 - g(x)) + c0
    elif op == "rdiv_const":
        cf = ift.makeField(dom, c0)
        den = (A * A).scale(1.) + ift.Adder(ift.full(dom, 1.))(A.scale(0.)) if mode == "operator" else A * A + 1.
        r = (cf / den) if mode == "linearization" else ift.makeOp(cf)(den.ptw("reciprocal"))
        ref = lambda x: c0 / (f(x) ** 2 + 1.)
    elif op == "sum_then_ptw":
        r = fn(A.sum(sp), case["g"]).integrate() if len(axes) < 2 else fn(A.sum(sp), case["g"])
        if len(axes) < 2:
            rest = [a for a in (0, 1) if a not in axes]
            volr = vol[rest[0]]
            ref = lambda x: np.sum(g(np.sum(f(x), axis=axes))) * volr
        else:
            ref = lambda x: g(np.sum(f(x), axis=axes))
    elif op == "vdot_partial":
        r = A.sum(sp).vdot(B.integrate(sp))
        ref = lambda x: np.vdot(np.sum(f(x), axis=axes), np.sum(g(x), axis=axes) * volf)
    else:   # metric_book: Gaussian energy above a partial contraction; add_metric / with_want_metric bookkeeping
        tg = ift.ContractionOperator(dom, sp).target
        data = np.sum(c0, axis=axes)
        icov = 1.5
        en = ift.GaussianEnergy(data=ift.makeField(tg, data), inverse_covariance=ift.ScalingOperator(tg, icov))
        r = en(A.sum(sp))
        ref = lambda x: 0.5 * icov * np.sum((np.sum(f(x), axis=axes) - data) ** 2)
    if case["post"] != "id" and op not in ("metric_book",):
        r = r.ptw(case["post"])
        ref0 = ref
        ref = lambda x: post(ref0(x))
    if mode == "operator":
        xf = ift.makeField(dom, x0)
        lin = r(ift.Linearization.make_var(xf, want_metric=(op == "metric_book")))
        pval = _arr(r(xf))
    else:
        lin, pval = r, None
    want = np.asarray(ref(x0), dtype=float)
    if not np.all(np.isfinite(want)) or np.max(np.abs(want), initial=0) > 1e4:
        return None
    val = _arr(lin.val)
    if not _close(val.ravel(), want.ravel(), 1e-11) or (pval is not None and not _close(pval.ravel(), want.ravel(), 1e-11)):
        return (f"spaces[{op}/{mode}]: value differs from the NumPy reference", dict(sig, kind="value"))
    if tuple(val.shape) != tuple(np.shape(want)):
        return (f"spaces[{op}/{mode}]: value has shape {val.shape}, reference {np.shape(want)}", dict(sig, kind="shape"))
    J = []
    for j in range(x0.size):
        h = np.zeros(x0.size)
        h[j] = 1
        J.append(_arr(lin.jac(ift.makeField(dom, h.reshape(x0.shape)))).ravel())
    J = np.array(J).T
    FD = _fd(lambda x: np.asarray(ref(x), dtype=float), x0)
    if not _close(J, FD, 2e-6):
        return (f"spaces[{op}/{mode}]: Jacobian differs from finite differences (max dev {np.max(np.abs(J - FD)):.3g})",
                dict(sig, kind="jacobian"))
    tgt = lin.jac.target
    m = J.shape[0]
    At = []
    for i in range(m):
        e = np.zeros(m)
        e[i] = 1
        At.append(_arr(lin.jac.adjoint_times(ift.makeField(tgt, e.reshape(tgt.shape) if len(tgt.shape) else e[0]))).ravel())
    At = np.array(At).T
    if not _close(At, J.T, 1e-11):
        return (f"spaces[{op}/{mode}]: adjoint Jacobian is not the transpose", dict(sig, kind="adjoint"))
    if op == "metric_book":
        if lin.metric is None:
            return (f"spaces[{op}/{mode}]: Gaussian energy with want_metric carries no metric", dict(sig, kind="metric-missing"))
        Jr = _fd(lambda x: np.sum(f(x), axis=axes).astype(float), x0)
        wantm = icov * Jr.T @ Jr
        eye = np.eye(x0.size)
        M = np.array([_arr(lin.metric(ift.makeField(dom, e.reshape(x0.shape)))).ravel() for e in eye]).T
        if not _close(M, wantm, 2e-5):
            return (f"spaces[{op}/{mode}]: carried metric differs from J^T N^-1 J", dict(sig, kind="metric"))
        # add_metric ATTACHES the given metric (value/Jacobian kept), with_want_metric keeps value/Jacobian and switches the flag on
        l2 = lin.add_metric(ift.ScalingOperator(dom, 2.))
        M2 = np.array([_arr(l2.metric(ift.makeField(dom, e.reshape(x0.shape)))).ravel() for e in eye]).T
        if not _close(M2, 2 * eye, 1e-12) or not _close(_arr(l2.val), _arr(lin.val), 0):
            return (f"spaces[{op}/{mode}]: add_metric does not attach the given metric", dict(sig, kind="add_metric"))
        l0 = ift.Linearization.make_var(ift.makeField(dom, x0))
        l1 = l0.with_want_metric()
        if l0.want_metric or not l1.want_metric or not _close(_arr(l1.val), x0, 0):
            return (f"spaces[{op}/{mode}]: with_want_metric bookkeeping wrong", dict(sig, kind="with_want_metric"))
        # make_const_empty_input: constant value, zero Jacobian on the empty domain
        le = ift.Linearization.make_const_empty_input(ift.makeField(dom, c0))
        if not _close(_arr(le.val), c0, 0) or len(le.jac.domain.keys()) != 0:
            return (f"spaces[{op}/{mode}]: make_const_empty_input wrong", dict(sig, kind="const_empty"))
        g0 = _arr(lin.gradient).ravel()
        if not _close(g0, J[0], 1e-11):
            return (f"spaces[{op}/{mode}]: gradient is not the adjoint Jacobian applied to 1", dict(sig, kind="gradient"))
    return None
