"""C28 — Correlated-field models: implementations agree and scale correctly (DESIGN.md §5 C28, design.d/C28.md)."""
import json
import os
import warnings
from fractions import Fraction

import numpy as np

from core.ctx import VERIF

ID = "C28"
LEAN_MODULES = ["NiftyVerif.Props.C28", "NiftyVerif.Model.CorrFieldDriver", "NiftyVerif.Core.Proto"]
DRIVER = "Driver/C28.lean"
OBLIGATIONS = ["NiftyVerif.C28." + t for t in (
    "wsum_map_mul_div", "amp_normalised_power", "amp_normalised_amplitude", "spatialVar_normalised",
    "expected_spatial_variance", "zero_mode_only_mean", "product_mode_sum", "product_total_fluct", "single_space_fluct",
    "matern_reported_partial", "hartley_columns", "hartley_variance_both_conventions", "binned_mode_sum",
    "matern_realised_variance", "prodSel_false", "total2_general", "product_slice_sum", "slice_modes_general",
    "total_modes_general", "total2_ofFn")]
RULE = ("generated configurations: 1-D and 2-D regular grids of several shapes and distances, one or two sub-spaces, "
        "non-parametric (with/without flexibility and asperity) and Matern amplitudes, JAX kinds amplitude/power and "
        "renormalisation, both Hartley conventions, random hyper-parameter priors and latent inputs; (1) classic vs JAX "
        "field for identical latent parameters, (2) exact covariance through the Jacobian with respect to the excitations; "
        "non-trivial = the configuration built in the implementation(s) it applies to; distinct by configuration")
TRUSTED_BASE = [
    "Lean 4.33 kernel; axioms propext/Classical.choice/Quot.sound only (audited every run)",
    "the excitations are independent standard normal (so that the covariance is A Aᵀ with A = ∂s/∂ξ); jax.jacobian / basis probing",
    "FFT kernels (numpy/ducc0/jax): executed; their column properties (constant zero-mode column, zero column sums, squared norm N) "
    "are hypotheses of `expected_spatial_variance` and are what the realised variance measures",
    "harness: extraction of amplitudes, multiplicities and hyper-parameter values from the makers' internals",
]
ASSUMPTIONS = [
    "class T: fields agree to 1e-10, variances to 1e-9 (relative); float rounding is outside the model",
    "classic and JAX are compared on the parametrisations both offer (classic non-parametric = JAX kind 'power'; classic Matern = "
    "JAX kind 'amplitude' without renormalisation); JAX-only kinds are checked for their normalisation",
    "the JAX maker does not report fluctuation statistics: its fluctuation parameters and the documented product formulas are used",
]

_ENV = {}


def env():
    if not _ENV:
        import jax
        jax.config.update("jax_enable_x64", True)
        import nifty.cl as ift
        import nifty.re as jft
        ift.logger.setLevel("CRITICAL")
        _ENV.update(jax=jax, ift=ift, jft=jft)
    return _ENV


# ------------------------------------------------------------------------------------------------------------
# configurations
# ------------------------------------------------------------------------------------------------------------
SHAPES_1D = [[4], [5], [6], [8], [7]]   # at least two non-zero |k| bins (the slope remover divides by log k_max/k_min)
SHAPES_2D = [[3, 4], [4, 4], [2, 5], [3, 3]]
DIST = [0.1, 0.25, 0.5, 1.0, 2.0, 5.0]


def r2(rng, lo, hi):
    return round(rng.uniform(lo, hi), 3)


def gen_space(rng, kind, allow2d=True):
    shape = rng.choice(SHAPES_1D + (SHAPES_2D if allow2d else []))
    dist = [rng.choice(DIST) for _ in shape]
    sp = dict(shape=shape, distances=dist)
    if kind == "nonparam":
        sp.update(fluctuations=[r2(rng, 0.3, 3.0), r2(rng, 0.05, 1.0)], loglogavgslope=[r2(rng, -4.0, 1.0), r2(rng, 0.05, 1.0)])
        if rng.random() < 0.7:
            sp["flexibility"] = [r2(rng, 0.2, 3.0), r2(rng, 0.05, 1.0)]
            sp["asperity"] = [r2(rng, 0.1, 1.0), r2(rng, 0.02, 0.5)] if rng.random() < 0.5 else None
        else:
            sp["flexibility"] = sp["asperity"] = None
    else:
        sp.update(scale=[r2(rng, 0.3, 3.0), r2(rng, 0.05, 1.0)], cutoff=[r2(rng, 0.2, 4.0), r2(rng, 0.05, 1.0)],
                  loglogslope=[r2(rng, -5.0, -0.5), r2(rng, 0.05, 1.0)])
    return sp


# the amplitude code paths: (model, JAX kind, JAX renormalisation); every run covers all of them (round-robin), the rest is random
STRATA = [("nonparam", "power", False), ("nonparam", "amplitude", True), ("matern", "power", True), ("matern", "amplitude", True),
          ("matern", "power", False), ("matern", "amplitude", False), ("nonparam", "power", True), ("nonparam", "amplitude", False)]


def gen_case(rng, stratum=None):
    if stratum is not None:
        c = gen_case(rng)
        while c["kind"] != stratum[0]:
            c = gen_case(rng)
        c["re_kind"], c["renorm"] = stratum[1], stratum[2]
        return c
    kind = "nonparam" if rng.random() < 0.65 else "matern"
    u = rng.random()
    nsp = 1 if u < 0.5 else (2 if u < 0.85 else 3)     # three sub-spaces: the product formulas beyond the documented pair
    spaces = [gen_space(rng, kind, allow2d=(nsp == 1 or (nsp == 2 and i == 0))) for i in range(nsp)]
    if nsp == 3:
        for sp in spaces:
            if sp["shape"][0] > 5:
                sp["shape"] = [rng.choice([4, 5])]
    return dict(kind=kind, spaces=spaces, offset_mean=r2(rng, -1.0, 1.0), offset_std=[r2(rng, 0.1, 2.0), r2(rng, 0.05, 0.5)],
                hartley=rng.choice(["non_canonical_hartley", "canonical_hartley"]),
                re_kind=rng.choice(["power", "amplitude"]), renorm=rng.random() < 0.5, seed=rng.randrange(10 ** 6))


# ------------------------------------------------------------------------------------------------------------
# the real code
# ------------------------------------------------------------------------------------------------------------
def tup(x):
    return None if x is None else tuple(x)


def build_cl(case):
    ift = env()["ift"]
    cfm = ift.CorrelatedFieldMaker("")
    cfm.set_amplitude_total_offset(case["offset_mean"], tup(case["offset_std"]))
    for i, sp in enumerate(case["spaces"]):
        dom = ift.RGSpace(tuple(sp["shape"]), tuple(sp["distances"]))
        if case["kind"] == "nonparam":
            cfm.add_fluctuations(dom, tup(sp["fluctuations"]), tup(sp["flexibility"]), tup(sp["asperity"]),
                                 tup(sp["loglogavgslope"]), prefix=f"s{i}")
        else:
            cfm.add_fluctuations_matern(dom, tup(sp["scale"]), tup(sp["cutoff"]), tup(sp["loglogslope"]), prefix=f"s{i}")
    with warnings.catch_warnings():
        warnings.simplefilter("ignore")
        return cfm, cfm.finalize()


def build_re(case, re_kind, renorm):
    jft = env()["jft"]
    cfm = jft.CorrelatedFieldMaker("")
    cfm.set_amplitude_total_offset(offset_mean=case["offset_mean"], offset_std=tup(case["offset_std"]))
    for i, sp in enumerate(case["spaces"]):
        if case["kind"] == "nonparam":
            cfm.add_fluctuations(tuple(sp["shape"]), distances=tuple(sp["distances"]), fluctuations=tup(sp["fluctuations"]),
                                 loglogavgslope=tup(sp["loglogavgslope"]), flexibility=tup(sp["flexibility"]),
                                 asperity=tup(sp["asperity"]), prefix=f"s{i}", non_parametric_kind=re_kind)
        else:
            cfm.add_fluctuations_matern(tuple(sp["shape"]), distances=tuple(sp["distances"]), scale=tup(sp["scale"]),
                                        cutoff=tup(sp["cutoff"]), loglogslope=tup(sp["loglogslope"]),
                                        renormalize_amplitude=renorm, prefix=f"s{i}", non_parametric_kind=re_kind)
    return cfm, cfm.finalize()


def latent(case, jcf):
    E = env()
    key = E["jax"].random.PRNGKey(case["seed"])
    return E["jft"].random_like(key, jcf.domain)


def to_cl(cf, pos):
    ift = env()["ift"]
    d = {}
    for k, v in pos.items():
        a = np.array(v)
        if k.endswith("spectrum"):
            a = a.T
        d[k] = ift.makeField(cf.domain[k], a.reshape(cf.domain[k].shape))
    return ift.MultiField.from_dict(d, cf.domain)


def proj_var(A, shape, axes_mean, axes_avg=()):
    """(1/N') tr(P A Aᵀ P): average over `axes_avg` first (field averaged over those axes), then remove the mean over `axes_mean`"""
    M = A.shape[1]
    F = A.reshape(tuple(shape) + (M,))
    if axes_avg:
        F = F.mean(axis=tuple(axes_avg), keepdims=True)
    F = F - F.mean(axis=tuple(axes_mean), keepdims=True)
    n = F.size // M
    return float(np.sum(F * F) / n)


def space_axes(case):
    axes, o = [], 0
    for sp in case["spaces"]:
        axes.append(tuple(range(o, o + len(sp["shape"]))))
        o += len(sp["shape"])
    return axes


def realised(case, A):
    shape = [n for sp in case["spaces"] for n in sp["shape"]]
    ax = space_axes(case)
    allax = tuple(a for t in ax for a in t)
    out = dict(total=proj_var(A, shape, allax))
    if len(ax) > 1:
        out["slice"] = [proj_var(A, shape, ax[j]) for j in range(len(ax))]
        out["avg"] = [proj_var(A, shape, ax[j], tuple(a for i, t in enumerate(ax) if i != j for a in t)) for j in range(len(ax))]
    return out


def jac_cl(cf, mf):
    """A = ∂s/∂ξ by basis probing (the field is affine in ξ for fixed hyper-parameters); also checks affinity"""
    ift = env()["ift"]
    dom = cf.domain
    xi_dom = dom["xi"]
    base = {k: mf[k] for k in dom.keys()}
    n = xi_dom.size

    def at(v):
        b = dict(base)
        b["xi"] = ift.makeField(xi_dom, v.reshape(xi_dom.shape))
        return cf(ift.MultiField.from_dict(b, dom)).asnumpy().reshape(-1)
    zero = at(np.zeros(n))
    cols = []
    for j in range(n):
        v = np.zeros(n)
        v[j] = 1.0
        cols.append(at(v) - zero)
    return np.array(cols).T, zero


def jac_re(jcf, pos):
    E = env()
    jax = E["jax"]

    def f(xi):
        p = dict(pos)
        p["xi"] = xi
        return jcf(p).reshape(-1)
    # one compiled forward-mode Jacobian (eager JAX would compile every primitive separately)
    J = jax.jit(jax.jacfwd(f))(pos["xi"])
    J = np.array(J)
    return J.reshape(J.shape[0], -1)


def jcall(fn, *a):
    """call a JAX function compiled as a whole"""
    return env()["jax"].jit(fn)(*a)


def rel_close(a, b, tol):
    a, b = float(a), float(b)
    return abs(a - b) <= tol * max(abs(a), abs(b), 1e-300)


def analyse(case):
    """everything observed on the real code for one configuration"""
    E = env()
    jft = E["jft"]
    out = dict()
    jft.config.update("hartley_convention", case["hartley"])
    try:
        # ---- classic -------------------------------------------------------------------------------------
        cfm, cf = build_cl(case)
        jcfm0, jcf0 = build_re(case, "power" if case["kind"] == "nonparam" else "amplitude", False)
        pos = latent(case, jcf0)
        mf = to_cl(cf, pos)
        f_cl = cf(mf).asnumpy()
        f_re = np.array(jcall(jcf0, pos))
        out["agree"] = dict(maxdiff=float(np.max(np.abs(f_cl - f_re))), scale=float(max(1.0, np.max(np.abs(f_cl)))))
        A, _ = jac_cl(cf, mf)
        out["cl"] = dict(realised=realised(case, A))
        rep = dict(total=float(cfm.total_fluctuation.force(mf).asnumpy()) ** 2)
        if len(case["spaces"]) > 1:
            rep["slice"] = [float(cfm.slice_fluctuation(j).force(mf).asnumpy()) ** 2 for j in range(len(case["spaces"]))]
            rep["avg"] = [float(cfm.average_fluctuation(j).force(mf).asnumpy()) ** 2 for j in range(len(case["spaces"]))]
        out["cl"]["reported"] = rep
        azm = cfm.azm.force(mf).asnumpy()
        out["cl"]["azm2"] = float(azm) ** 2
        sps = []
        for i, a in enumerate(cfm._a):
            amp = np.array(a.force(mf).asnumpy(), dtype=float).reshape(-1)
            pspace = a.target[0]
            hp = pspace.harmonic_partner
            from nifty.cl.operators.distributors import PowerDistributor
            pd = PowerDistributor(hp, pspace)
            mult = pd.adjoint(E["ift"].full(pd.target, 1.)).asnumpy().reshape(-1)
            V = float(cfm._target_subdomains[i][-1].total_volume)
            flu2 = float(a.fluctuation_amplitude.force(mf).asnumpy()) ** 2
            sps.append(dict(V=V, flu2=flu2, mult=[float(x) for x in mult[1:]], amp2=[float(x) ** 2 for x in amp[1:]],
                            zero=float(amp[0]), dvol=[float(x) for x in pspace.dvol], spec=None, kind="power"))
        out["cl"]["spaces"] = sps
        # ---- JAX (all kinds) ------------------------------------------------------------------------------
        re_kind, renorm = case["re_kind"], bool(case["renorm"])
        jcfm, jcf = build_re(case, re_kind, renorm)
        pos2 = latent(case, jcf)
        # one compiled call: Jacobian with respect to the excitations and every internal quantity that is compared
        jax = E["jax"]
        nonparam = case["kind"] == "nonparam"

        def everything(p):
            def f(xi):
                q = dict(p)
                q["xi"] = xi
                return jcf(q).reshape(-1)
            per = []
            for amp in jcfm._fluctuations:
                d = dict(amp=amp(p))
                if nonparam:
                    d["flu"] = amp.fluctuations(p)
                    d["slope"] = amp._loglogavgslope(p)
                    if amp._deviations is not None:
                        d["dev"] = amp._deviations(p)
                else:
                    d["flu"] = amp.scale(p)
                per.append(d)
            return jax.jacfwd(f)(p["xi"]), jcfm.azm(p), per
        Jx, azm, per = jax.jit(everything)(pos2)
        J = np.array(Jx)
        J = J.reshape(J.shape[0], -1)
        out["re"] = dict(realised=realised(case, J), kind=re_kind, renorm=renorm)
        azm2 = float(azm) ** 2
        out["re"]["azm2"] = azm2
        sps = []
        for i, (d, grid) in enumerate(zip(per, jcfm._target_grids)):
            a = np.array(d["amp"], dtype=float).reshape(-1)
            hg = grid.harmonic_grid
            mult = np.array(hg.mode_multiplicity, dtype=float)
            V = float(grid.total_volume)
            spec = None
            flu2 = float(d["flu"]) ** 2
            if nonparam:
                rel = np.array(hg.relative_log_mode_lengths)
                ln = np.array(d["slope"]) * rel
                if "dev" in d:
                    tw = np.array(d["dev"])
                    tw = np.concatenate((np.zeros(1), tw[:, 0]))
                    ln = ln + (tw - tw[-1] * rel / rel[-1])
                spec = [float(x) for x in np.exp(ln)[1:]]
            sps.append(dict(V=V, flu2=flu2, mult=[float(x) for x in mult[1:]], amp2=[float(x) ** 2 for x in a[1:]], zero=float(a[0]),
                            spec=spec, kind=re_kind))
        out["re"]["spaces"] = sps
    finally:
        jft.config.update("hartley_convention", "non_canonical_hartley")
    return out


def product_total(azm2, f2):
    if len(f2) == 1:
        return f2[0]
    q = 1.0
    for f in f2:
        q *= 1.0 + f / azm2
    return azm2 * (q - 1.0)


def product_slice(azm2, f2, j):
    q = 1.0
    for i, f in enumerate(f2):
        q *= (f / azm2) if i == j else (1.0 + f / azm2)
    return azm2 * q


def oracle(case, o=None):
    """the property on the real code only"""
    try:
        o = analyse(case) if o is None else o
        if isinstance(o, Exception):
            raise o
    except Exception as e:  # noqa: BLE001
        import traceback
        fr = [f for f in traceback.extract_tb(e.__traceback__) if "/nifty/" in f.filename]
        site = (fr[-1].filename.split("/")[-1] + ":" + fr[-1].name) if fr else ""
        return (f"correlated-field model cannot be built/evaluated: {type(e).__name__} at {site}",
                dict(kind="crash", error=type(e).__name__, site=site))
    ag = o["agree"]
    if not ag["maxdiff"] <= 1e-10 * ag["scale"]:
        return (f"classic and JAX fields differ for identical latent parameters (max abs diff {ag['maxdiff']:.3g})",
                dict(kind="cl-vs-re", model=case["kind"], nspaces=len(case["spaces"]), hartley=case["hartley"]))
    cl = o["cl"]
    names = [("total", None)] + ([("slice", j) for j in range(len(case["spaces"]))] + [("avg", j) for j in range(len(case["spaces"]))]
                                  if len(case["spaces"]) > 1 else [])
    for nm, j in names:
        r = cl["realised"][nm] if j is None else cl["realised"][nm][j]
        p = cl["reported"][nm] if j is None else cl["reported"][nm][j]
        if not rel_close(r, p, 1e-9):
            sig = dict(kind="variance", impl="cl", model=case["kind"], stat=nm)
            if case["kind"] == "matern":
                # known finding: `_AmplitudeMatern.fluctuation_amplitude` is sqrt(sum_k dvol_k op_k^2) over ALL bins (zero mode
                # included, dvol_k = mult_k / V).  Is the reported value exactly that (as coded)?  Anything else is a new violation.
                F = [s["dvol"][0] * s["zero"] ** 2 + sum(d * a for d, a in zip(s["dvol"][1:], s["amp2"])) for s in cl["spaces"]]
                coded = product_total(cl["azm2"], F) if nm == "total" else (
                    product_slice(cl["azm2"], F, j) if nm == "slice" else F[j])
                sig = dict(kind="variance", impl="cl", model="matern", as_coded=bool(rel_close(coded, p, 1e-9)))
            return (f"classic {case['kind']} model: expected spatial variance ({nm}{'' if j is None else j}) {r:.6g} differs from the "
                    f"square of the reported fluctuation {p:.6g}", sig)
    re_ = o["re"]
    normalised = case["kind"] == "nonparam" or re_["renorm"]
    if normalised:
        f2 = [s["flu2"] for s in re_["spaces"]]
        exp_total = product_total(re_["azm2"], f2)
        if not rel_close(re_["realised"]["total"], exp_total, 1e-9):
            return (f"JAX {case['kind']} model (kind {re_['kind']}): expected spatial variance {re_['realised']['total']:.6g} differs "
                    f"from the documented total fluctuation squared {exp_total:.6g}",
                    dict(kind="variance", impl="re", model=case["kind"], re_kind=re_["kind"], stat="total"))
        if len(f2) > 1:
            for j in range(len(f2)):
                if not rel_close(re_["realised"]["slice"][j], product_slice(re_["azm2"], f2, j), 1e-9):
                    return ("JAX model: slice fluctuation differs from the documented product formula",
                            dict(kind="variance", impl="re", model=case["kind"], re_kind=re_["kind"], stat="slice"))
                if not rel_close(re_["realised"]["avg"][j], f2[j], 1e-9):
                    return ("JAX model: average fluctuation differs from the fluctuation parameter",
                            dict(kind="variance", impl="re", model=case["kind"], re_kind=re_["kind"], stat="avg"))
    return None


def shrink(case):
    if len(case["spaces"]) > 1:
        for i in range(len(case["spaces"])):
            yield dict(case, spaces=[case["spaces"][i]])
    for i, sp in enumerate(case["spaces"]):
        if sp.get("flexibility") is not None:
            sps = list(case["spaces"])
            sps[i] = dict(sp, flexibility=None, asperity=None)
            yield dict(case, spaces=sps)
        if len(sp["shape"]) > 1:
            sps = list(case["spaces"])
            sps[i] = dict(sp, shape=sp["shape"][:1], distances=sp["distances"][:1])
            yield dict(case, spaces=sps)
        if sp["shape"][0] > 3:
            sps = list(case["spaces"])
            sps[i] = dict(sp, shape=[3] + sp["shape"][1:])
            yield dict(case, spaces=sps)
    if case["hartley"] != "non_canonical_hartley":
        yield dict(case, hartley="non_canonical_hartley")


# ------------------------------------------------------------------------------------------------------------
def q(x):
    return str(Fraction(float(x)))


def model_request(side):
    return dict(azm2=q(side["azm2"]),
                spaces=[dict(V=q(s["V"]), flu2=q(s["flu2"]), mult=[q(x) for x in s["mult"]], amp2=[q(x) for x in s["amp2"]],
                             spec=None if s["spec"] is None else [q(x) for x in s["spec"]], kind=s["kind"]) for s in side["spaces"]])


def fl(s):
    return float(Fraction(s))


def compare_side(ctx, case, impl, side, m, normalised):
    """model (exact rationals on the code's own amplitudes / multiplicities / fluctuations) vs what the real field does"""
    n = len(side["spaces"])
    ok = dict(norm=["ok"] * n, var=["ok"] * n, amp=["ok"] * n, total="ok", slice=["ok"] * n, avg=["ok"] * n, zero=["ok"] * n)
    got = json.loads(json.dumps(ok))
    for i, (s, ms) in enumerate(zip(side["spaces"], m["spaces"])):
        if normalised and not rel_close(fl(ms["norm_sum"]), fl(ms["flu2V2"]), 1e-10):
            got["norm"][i] = f"sum mult*amp^2 = {fl(ms['norm_sum'])} vs flu^2 V^2 = {fl(ms['flu2V2'])}"
        if not rel_close(s["zero"], s["V"], 1e-12):
            got["zero"][i] = f"zero-mode amplitude {s['zero']} vs volume {s['V']}"
        if "model_amp2" in ms:
            a = [fl(x) for x in ms["model_amp2"]]
            if len(a) != len(s["amp2"]) or any(not rel_close(x, y, 1e-9) for x, y in zip(a, s["amp2"])):
                got["amp"][i] = "normalised amplitudes differ from the model's"
        if n == 1 and not rel_close(fl(ms["var"]), side["realised"]["total"], 1e-9):
            got["var"][i] = f"model variance {fl(ms['var'])} vs realised {side['realised']['total']}"
    if normalised:
        if not rel_close(fl(m["total2"]), side["realised"]["total"], 1e-9):
            got["total"] = f"model {fl(m['total2'])} vs realised {side['realised']['total']}"
        if n > 1:
            for j in range(n):
                if not rel_close(fl(m["slice2"][j]), side["realised"]["slice"][j], 1e-9):
                    got["slice"][j] = "differs"
                if not rel_close(fl(m["avg2"][j]), side["realised"]["avg"][j], 1e-9):
                    got["avg"][j] = "differs"
    ctx.compare(dict(case, impl=impl), ok, got, note=f"{impl}: normalisation / variance formulas of the model vs the real field",
                nontrivial=True)


def load_corpus():
    d = os.path.join(VERIF, "corpus", ID)
    out = []
    if os.path.isdir(d):
        for fn in sorted(os.listdir(d)):
            if fn.endswith(".json"):
                rec = json.load(open(os.path.join(d, fn)))
                out.append(rec.get("case", rec))
    return out


def hartley_kernel_check(ctx):
    """the conclusions of `hartley_columns` (= hypotheses of `expected_spatial_variance`) on the REAL kernels, both conventions:
    zero-mode column constant one, every other column sums to zero, every column has squared norm N; classic HartleyOperator too"""
    E = env()
    jft, ift = E["jft"], E["ift"]
    from nifty.re.correlated_field import hartley
    shapes = [(2,), (5,), (8,), (3, 4), (4, 4), (2, 3, 2)] if ctx.quick else [(2,), (3,), (5,), (8,), (9,), (3, 4), (4, 4), (5, 2), (2, 3, 2)]
    for shape in shapes:
        n = int(np.prod(shape))
        kernels = {}
        for conv in ("non_canonical_hartley", "canonical_hartley"):
            jft.config.update("hartley_convention", conv)
            kernels["re:" + conv] = np.stack([np.array(hartley(np.eye(n)[k].reshape(shape))).reshape(-1) for k in range(n)], axis=1)
        jft.config.update("hartley_convention", "non_canonical_hartley")
        sp = ift.RGSpace(shape)
        ht = ift.HartleyOperator(sp.get_default_codomain(), sp)
        kernels["cl"] = np.stack([ht(ift.makeField(ht.domain, np.eye(n)[k].reshape(shape))).asnumpy().reshape(-1)
                                  for k in range(n)], axis=1) * sp.total_volume
        for name, H in kernels.items():
            impl = dict(zero_column_is_one=bool(np.allclose(H[:, 0], 1., atol=1e-12)),
                        other_columns_sum_to_zero=bool(np.allclose(H[:, 1:].sum(axis=0), 0., atol=1e-10)),
                        column_norm2_is_N=bool(np.allclose((H * H).sum(axis=0), n, rtol=1e-12)))
            ctx.compare(dict(what="hartley kernel", shape=list(shape), kernel=name), impl,
                        dict(zero_column_is_one=True, other_columns_sum_to_zero=True, column_norm2_is_N=True),
                        note="hypotheses of expected_spatial_variance / conclusions of hartley_columns on the real transform",
                        nontrivial=n > 2)
        ctx.stat("hartley-kernels-checked")


def run(ctx):
    cases = load_corpus()
    hartley_kernel_check(ctx)
    off = ctx.rng.randrange(len(STRATA))
    for i in range(ctx.n(9, 160)):
        cases.append(gen_case(ctx.rng, STRATA[(i + off) % len(STRATA)] if i % 4 != 3 else None))
    reqs, metas = [], []
    for c in cases:
        ctx.stat("model:" + c["kind"])
        ctx.stat("spaces=%d" % len(c["spaces"]))
        ctx.stat("hartley:" + c["hartley"])
        ctx.stat("dims:" + "x".join(str(len(s["shape"])) for s in c["spaces"]))
        try:
            o = analyse(c)
        except Exception as e:  # noqa: BLE001
            o = e
        res = oracle(c, o)
        if res:
            ctx.counterexample(c, *res)
        if isinstance(o, Exception):
            ctx.stat("impl-error:" + type(o).__name__)
            ctx.case(c, nontrivial=False)
            continue
        ctx.stat("re:" + o["re"]["kind"] + ("+renorm" if o["re"]["renorm"] else ""))
        reqs += [model_request(o["cl"]), model_request(o["re"])]
        metas.append((c, o))
    outs = ctx.model(DRIVER, reqs) if reqs else []
    for i, (c, o) in enumerate(metas):
        # classic Matern reports `sqrt(∫ op²)` (known finding): only its amplitudes/variance are compared, not the reported value
        compare_side(ctx, c, "cl", o["cl"], outs[2 * i], normalised=(c["kind"] == "nonparam"))
        compare_side(ctx, c, "re", o["re"], outs[2 * i + 1], normalised=(c["kind"] == "nonparam" or o["re"]["renorm"]))


def search(ctx):
    for _ in range(200):
        c = gen_case(ctx.rng)
        r = oracle(c)
        if r:
            ctx.counterexample(c, *r)
            return
