"""C16 adapters to the real code: polynomial energies (harness-side `Energy` subclass), the line-energy tracer,
runners for LineSearch / DescentMinimizer / the two L-BFGS direction rules. Everything imports nifty lazily
(vcheck.py has put NIFTY_REPO on sys.path by then)."""
from fractions import Fraction
import math

import numpy as np

_N = {}


def nifty():
    """lazy import; returns a small namespace"""
    if not _N:
        import nifty.cl as ift
        import nifty.cl.minimization.line_search as lsmod
        import nifty.cl.minimization.descent_minimizers as dm
        import logging
        ift.logger.setLevel(logging.CRITICAL + 1)      # the searches are *meant* to hit the warning branches
        _N.update(ift=ift, lsmod=lsmod, dm=dm)
    return _N


def frac(x):
    """exact rational of a float as the "p/q" string the Lean driver reads (normalised like Lean's Rat)"""
    f = Fraction(float(x))
    return str(f.numerator) if f.denominator == 1 else f"{f.numerator}/{f.denominator}"


def fracs(a):
    return [frac(v) for v in np.asarray(a, dtype=np.float64).ravel()]


# ------------------------------------------------------------------------------------------------------
# polynomial energies
# spec = {"n": n, "terms": [[coef, [e_0..e_{n-1}]], ...], "box": None | [radius, mode]}   mode: nan|fpe|huge|inf
# E(x) = sum coef * prod x_i^e_i   inside the box max|x_i| < radius (everywhere if box is None)
# ------------------------------------------------------------------------------------------------------

def poly_value(terms, x):
    v = 0
    for c, e in terms:
        t = c
        for xi, ei in zip(x, e):
            if ei:
                t = t * xi ** ei
        v = v + t
    return v


def poly_grad(terms, x):
    n = len(x)
    g = [x[0] * 0] * n
    for c, e in terms:
        for k in range(n):
            if e[k] == 0:
                continue
            t = c * e[k]
            for i, (xi, ei) in enumerate(zip(x, e)):
                p = ei - 1 if i == k else ei
                if p:
                    t = t * xi ** p
            g[k] = g[k] + t
    return g


def wells_value(wells, x):
    """sum of -A/(1+q), q = sum w_i (x_i-m_i)^2  (rational 'Gaussian-well' shape: concave flanks, convex core)"""
    v = 0
    for w in wells:
        q = 0
        for xi, wi, mi in zip(x, w["w"], w["m"]):
            q = q + wi * (xi - mi) * (xi - mi)
        v = v - w["A"] / (1 + q)
    return v


def wells_grad(wells, x):
    g = [x[0] * 0] * len(x)
    for w in wells:
        q = 0
        for xi, wi, mi in zip(x, w["w"], w["m"]):
            q = q + wi * (xi - mi) * (xi - mi)
        for k, (xi, wi, mi) in enumerate(zip(x, w["w"], w["m"])):
            g[k] = g[k] + w["A"] * 2 * wi * (xi - mi) / ((1 + q) * (1 + q))
    return g


def frac_wells(wells):
    return [dict(A=Fraction(float(w["A"])), w=[Fraction(float(v)) for v in w["w"]],
                 m=[Fraction(float(v)) for v in w["m"]]) for w in (wells or [])]


def spec_value(terms, wells, x):
    return poly_value(terms, x) + wells_value(wells, x) if wells else poly_value(terms, x)


def spec_grad(terms, wells, x):
    g = poly_grad(terms, x)
    if wells:
        g = [a + b for a, b in zip(g, wells_grad(wells, x))]
    return g


def poly_scale(terms, x):
    """sum of |monomial| : the natural scale of rounding errors of the float evaluation"""
    s = Fraction(0)
    for c, e in terms:
        t = abs(Fraction(c))
        for xi, ei in zip(x, e):
            if ei:
                t = t * abs(xi) ** ei
        s += t
    return s


def poly_diag_hess(terms, x):
    n = len(x)
    h = [0.0] * n
    for c, e in terms:
        for k in range(n):
            if e[k] < 2:
                continue
            t = c * e[k] * (e[k] - 1)
            for i, (xi, ei) in enumerate(zip(x, e)):
                p = ei - 2 if i == k else ei
                if p:
                    t = t * xi ** p
            h[k] += t
    return h


def make_energy_class():
    ift = nifty()["ift"]

    class PolyEnergy(ift.Energy):
        """E(x) = polynomial inside an optional box; outside: NaN / FloatingPointError / 1e200 / inf"""

        def __init__(self, position, spec, longest=None):
            super().__init__(position)
            self._spec = spec
            self._longest = longest
            x = position.asnumpy().astype(np.float64)
            box = spec.get("box")
            self._out = bool(box) and bool(np.max(np.abs(x)) >= box[0])
            if self._out and box[1] == "fpe":
                raise FloatingPointError("outside the domain of the energy")
            if self._out:
                bad = {"nan": np.nan, "huge": 1e200, "inf": np.inf}[box[1]]
                self._value = np.float64(bad)
                self._grad = ift.makeField(position.domain, np.full(x.shape, np.nan if box[1] != "huge" else 0.0))
            else:
                xs = [np.float64(v) for v in x]
                wells = spec.get("wells")
                self._value = np.float64(spec_value(spec["terms"], wells, xs))
                self._grad = ift.makeField(position.domain,
                                           np.array(spec_grad(spec["terms"], wells, xs), dtype=np.float64))

        def at(self, position):
            return PolyEnergy(position, self._spec, self._longest)

        @property
        def value(self):
            return self._value

        @property
        def gradient(self):
            return self._grad

        @property
        def metric(self):
            x = [float(v) for v in self._position.asnumpy()]
            h = np.array(poly_diag_hess(self._spec["terms"], x))
            return ift.makeOp(ift.makeField(self._position.domain, np.abs(h) + 0.5), sampling_dtype=np.float64)

        def apply_metric(self, x):
            return self.metric(x)

        def longest_step(self, direction):
            return self._longest

    return PolyEnergy


def make_script_energy_class():
    ift = nifty()["ift"]

    class ScriptEnergy(ift.Energy):
        """1-D energy whose value/slope at the i-th point the line search constructs are the i-th script entry,
        whatever the position: an arbitrary oracle (ties, NaN, inf, FloatingPointError, non-smooth data)"""

        def __init__(self, position, state, entry):
            super().__init__(position)
            self._state = state
            self._value = np.float64(entry[0])
            self._grad = ift.makeField(position.domain, np.array([float(entry[1])]))

        def at(self, position):
            st = self._state
            i = st["n"]
            st["n"] += 1
            entry = st["script"][i] if i < len(st["script"]) else st["default"]
            if entry[0] == "fpe":
                raise FloatingPointError("scripted")
            return ScriptEnergy(position, st, entry)

        @property
        def value(self):
            return self._value

        @property
        def gradient(self):
            return self._grad

        def longest_step(self, direction):
            return self._state.get("longest")

    return ScriptEnergy


def script_energy(case):
    ift = nifty()["ift"]
    if "ScriptEnergy" not in _N:
        _N["ScriptEnergy"] = make_script_energy_class()
    dom = ift.UnstructuredDomain(1)
    st = dict(n=0, script=case["script"], default=case["default"], longest=case.get("longest"))
    return _N["ScriptEnergy"](ift.makeField(dom, np.array([0.0])), st, [case["phi0"], case["dphi0"]])


def energy_at(spec, x0, longest=None):
    ift = nifty()["ift"]
    if "PolyEnergy" not in _N:
        _N["PolyEnergy"] = make_energy_class()
    dom = ift.UnstructuredDomain(spec["n"])
    return _N["PolyEnergy"](ift.makeField(dom, np.array(x0, dtype=np.float64)), spec, longest)


def field(n, a):
    ift = nifty()["ift"]
    return ift.makeField(ift.UnstructuredDomain(n), np.array(a, dtype=np.float64))


# ------------------------------------------------------------------------------------------------------
# line-energy tracer (monkey-patches line_search.LineEnergy inside the harness process only)
# ------------------------------------------------------------------------------------------------------

class Recorder:
    def __init__(self):
        self.reset()

    def reset(self):
        self.le0 = None
        self.ev0 = None
        self.zoom_at = None  # number of events recorded when _zoom was entered
        self.events = []   # [alpha, value | "fpe" | None, derivative | None]
        self.objs = []     # LineEnergy objects of the non-fpe events (kept alive: identity lookups)


class tracing:
    """context manager: every LineEnergy built by the line search is recorded into `rec`"""

    def __init__(self, rec):
        self.rec = rec

    def __enter__(self):
        lsmod = nifty()["lsmod"]
        rec = self.rec
        orig = self.orig = lsmod.LineEnergy

        class TracingLineEnergy(orig):
            def __init__(self, line_position, energy, line_direction, offset=0.):
                a = float(line_position)
                first = rec.le0 is None
                try:
                    orig.__init__(self, line_position, energy, line_direction, offset)
                except FloatingPointError:
                    rec.events.append([a, "fpe", None])
                    raise
                if first:
                    rec.le0 = self
                    self._ev = rec.ev0 = [a, None, None]
                else:
                    self._ev = [a, None, None]
                    rec.events.append(self._ev)
                    rec.objs.append(self)

            @property
            def value(self):
                v = orig.value.fget(self)
                self._ev[1] = v
                return v

            @property
            def directional_derivative(self):
                d = orig.directional_derivative.fget(self)
                self._ev[2] = d
                return d

        lsmod.LineEnergy = TracingLineEnergy
        return rec

    def __exit__(self, *a):
        nifty()["lsmod"].LineEnergy = self.orig
        return False


def trace_shape(rec):
    """(number of stage-1 doublings, number of _zoom interpolations) of a recorded run"""
    zi = rec.zoom_at if rec.zoom_at is not None else len(rec.events)
    stage1 = rec.events[:zi]
    der = [e for e in stage1 if e[2] is not None]
    if rec.zoom_at is not None and stage1 and stage1[-1][2] is None:
        doublings = len(der)
    else:
        doublings = max(0, len(der) - 1)
    return doublings, len(rec.events) - zi


def returned_alpha(rec, start_energy, ret_energy):
    """which evaluation does the returned energy object belong to? 0 = the start energy; None = none of them"""
    if ret_energy is start_energy:
        return 0.0
    for o in rec.objs:
        if o.energy is ret_energy:
            return o._ev[0]
    return None


def run_line_search(case):
    """run the real LineSearch on the case; returns dict(outcome, rec data, energies)"""
    ift = nifty()["ift"]
    if case.get("kind") == "lsscript":
        e0 = script_energy(case)
        pk = field(1, [1.0])
    else:
        spec = case["energy"]
        e0 = energy_at(spec, case["x0"], case.get("longest"))
        pk = field(spec["n"], case["d"])
    kw = dict(case["ls"])
    rec = Recorder()
    if "ZLS" not in _N:
        class ZLS(ift.LineSearch):
            """only notes where `_zoom` is entered (coverage statistics); all logic is the library's"""
            _rec = None

            def _zoom(self, *a):
                if self._rec is not None and self._rec.zoom_at is None:
                    self._rec.zoom_at = len(self._rec.events)
                return super()._zoom(*a)
        _N["ZLS"] = ZLS
    ls = _N["ZLS"](**kw)
    ls._rec = rec
    out = dict(e0=e0, pk=pk, rec=rec, ret=None)
    with np.errstate(all="ignore"), tracing(rec):
        try:
            ret, success = ls.perform_line_search(e0, pk, case.get("fkm1"))
        except Exception as ex:  # noqa: BLE001 - canonical error kind
            out["outcome"] = {"raised": type(ex).__name__}
            return out
    a = returned_alpha(rec, e0, ret)
    out["ret"] = ret
    out["success"] = bool(success)
    out["alpha"] = a
    out["outcome"] = {"ret": {"success": bool(success), "alpha": frac(a) if a is not None else "unknown-object"}}
    return out


def ls_model_line(case, rec, pk):
    """the JSON object for the Lean trace checker, from what the real run recorded"""
    ls = case["ls"]
    ev0 = rec.ev0
    if ev0 is None or ev0[1] is None or ev0[2] is None:
        return None
    vals = [ev0[1], ev0[2]]
    tr = []
    for a, f, d in rec.events:
        if isinstance(f, str):
            tr.append([frac(a), f, None])
            continue
        if f is None:
            return None      # constructed but never evaluated: not a pattern of this code
        if d is not None and not math.isfinite(d):
            return None
        fj = frac(f) if math.isfinite(f) else "nan"
        tr.append([frac(a), fj, None if d is None else frac(d)])
    if not all(math.isfinite(v) for v in vals):
        return None
    pref = ls.get("preferred_initial_step_size")
    fk = case.get("fkm1")
    lg = case.get("longest")
    nrm = float(pk.norm())
    return dict(op="ls", c1=frac(ls.get("c1", 1e-4)), c2=frac(ls.get("c2", 0.9)),
                max_step_size=frac(ls.get("max_step_size", 1e30)), longest=None if lg is None else frac(lg),
                max_iter=int(ls.get("max_iterations", 100)), max_zoom=int(ls.get("max_zoom_iterations", 100)),
                preferred=None if pref is None else frac(pref), old_phi=None if fk is None else frac(fk),
                inv_norm=frac(1.0 / nrm) if nrm != 0 else "0", phi0=frac(ev0[1]), dphi0=frac(ev0[2]), trace=tr)


def ls_margin(case, rec):
    """smallest relative margin of the float comparisons that involve *rounded* arithmetic (Armijo, curvature);
    a comparison whose float right-hand side is exact (dyadic data) is decided exactly and has no margin issue"""
    ls = case["ls"]
    c1f, c2f = float(ls.get("c1", 1e-4)), float(ls.get("c2", 0.9))
    c1, c2 = Fraction(c1f), Fraction(c2f)
    p0f, d0f = float(rec.ev0[1]), float(rec.ev0[2])
    phi0, dphi0 = Fraction(p0f), Fraction(d0f)
    m = Fraction(1)
    for a, f, d in rec.events:
        if isinstance(f, str) or f is None or not math.isfinite(f):
            continue
        af = float(a)
        a, f = Fraction(af), Fraction(float(f))
        rhs = phi0 + c1 * a * dphi0
        with np.errstate(all="ignore"):
            rhs_f = p0f + c1f * af * d0f           # the code's expression, same association
        sc = abs(f) + abs(phi0) + abs(c1 * a * dphi0)
        if sc and not (math.isfinite(rhs_f) and Fraction(rhs_f) == rhs):
            m = min(m, abs(f - rhs) / sc)
        if d is not None and math.isfinite(d) and dphi0 and c2:
            d = Fraction(float(d))
            if Fraction(-c2f * d0f) != -c2 * dphi0:
                m = min(m, abs(abs(d) + c2 * dphi0) / abs(c2 * dphi0))
    return m


# ------------------------------------------------------------------------------------------------------
# exact strong-Wolfe oracle for polynomial energies
# ------------------------------------------------------------------------------------------------------

def exact_wolfe(case, run):
    """None if the strong Wolfe conditions hold at the returned point (exact rationals, tolerance = 1e-9 x scale of the
    float evaluation), else (what, signature)"""
    spec = case["energy"]
    terms = [(Fraction(float(c)), e) for c, e in spec["terms"]]
    x0 = [Fraction(float(v)) for v in case["x0"]]
    d = [Fraction(float(v)) for v in case["d"]]
    xs = [Fraction(float(v)) for v in run["ret"].position.asnumpy()]
    ls = case["ls"]
    c1, c2 = Fraction(float(ls.get("c1", 1e-4))), Fraction(float(ls.get("c2", 0.9)))
    box = spec.get("box")
    if box and max(abs(v) for v in xs) >= Fraction(float(box[0])):
        return ("line search reported success at a point outside the domain of the energy",
                {"site": "LineSearch", "kind": "success-outside-domain"})
    dd = sum(v * v for v in d)
    if dd == 0:
        return ("success with a zero direction", {"site": "LineSearch", "kind": "zero-direction"})
    # step length: the one the code used (trace) must describe the returned position
    alpha = Fraction(run["alpha"]) if run["alpha"] is not None else None
    proj = sum((a - b) * c for a, b, c in zip(xs, x0, d)) / dd
    if alpha is None:
        alpha = proj
    psc = max([abs(v) for v in xs] + [abs(v) for v in x0] + [abs(alpha) * abs(v) for v in d])
    dev = max(abs(a - (b + alpha * c)) for a, b, c in zip(xs, x0, d))
    if dev > Fraction(1, 10 ** 9) * psc:
        return (f"returned position is not x0 + alpha*d for the evaluated alpha={float(alpha)!r} (dev {float(dev):.3e})",
                {"site": "LineSearch", "kind": "position"})
    wells = frac_wells(spec.get("wells"))
    wsc = sum(abs(w["A"]) for w in wells)
    wgsc = sum(abs(w["A"]) * 2 * max([abs(v) for v in w["w"]] + [0]) *
               (max(abs(a - b) for a, b in zip(xs, w["m"])) + 1) for w in wells) * sum(abs(v) for v in d)
    f0 = spec_value(terms, wells, x0)
    fs = spec_value(terms, wells, xs)
    g0 = sum(a * b for a, b in zip(spec_grad(terms, wells, x0), d))
    gs = sum(a * b for a, b in zip(spec_grad(terms, wells, xs), d))
    sc = poly_scale(terms, x0) + poly_scale(terms, xs) + abs(c1 * alpha * g0) + 2 * wsc
    tol = Fraction(1, 10 ** 9)
    if not g0 < 0:
        return (f"success although phi'(0) = {float(g0)!r} is not negative", {"site": "LineSearch", "kind": "not-descent"})
    if fs > f0 + c1 * alpha * g0 + tol * sc:
        return (f"sufficient decrease violated at the returned point: phi(a)={float(fs)!r} > phi(0)+c1*a*phi'(0)="
                f"{float(f0 + c1 * alpha * g0)!r} (alpha={float(alpha)!r})", {"site": "LineSearch", "kind": "wolfe1"})
    gsc = sum(abs(a * b) for a, b in zip(poly_grad([(abs(c), e) for c, e in terms], [abs(v) for v in xs]), d))
    if abs(gs) > c2 * abs(g0) + tol * (gsc + abs(g0) + wgsc):
        return (f"curvature condition violated at the returned point: |phi'(a)|={float(abs(gs))!r} > c2*|phi'(0)|="
                f"{float(c2 * abs(g0))!r} (alpha={float(alpha)!r})", {"site": "LineSearch", "kind": "wolfe2"})
    return None


# ------------------------------------------------------------------------------------------------------
# minimiser runs
# ------------------------------------------------------------------------------------------------------

def make_recorders():
    ift = nifty()["ift"]

    class RecController(ift.IterationController):
        def __init__(self, inner, log):
            self._inner = inner
            self._log = log

        def start(self, energy):
            s = self._inner.start(energy)
            self._log["start"] = int(s)
            self._log["start_value"] = float(energy.value)
            return s

        def check(self, energy):
            s = self._inner.check(energy)
            self._log["checks"].append((int(s), float(energy.value)))
            return s

    class RecLineSearch(ift.LineSearch):
        def __init__(self, log, **kw):
            super().__init__(**kw)
            self._log = log
            self._kw = kw

        def _zoom(self, *a):
            if getattr(self, "_cur", None) is not None and self._cur.zoom_at is None:
                self._cur.zoom_at = len(self._cur.events)
            return super()._zoom(*a)

        def perform_line_search(self, energy, pk, f_k_minus_1=None):
            rec = Recorder()
            self._cur = rec
            entry = dict(x=energy.position.asnumpy().copy(), d=pk.asnumpy().copy(), fkm1=f_k_minus_1)
            self._log["searches"].append(entry)
            with tracing(rec):
                try:
                    new, ok = super().perform_line_search(energy, pk, f_k_minus_1)
                except Exception as ex:  # noqa: BLE001
                    entry["raised"] = type(ex).__name__
                    entry["rec"] = rec
                    raise
            self._cur = None
            entry.update(value_in=float(energy.value), value_out=float(new.value), success=bool(ok), rec=rec,
                         gz_out=bool(new.gradient_norm == 0), alpha=returned_alpha(rec, energy, new), pk=pk)
            return new, ok

    return RecController, RecLineSearch


MINIMIZERS = ("SteepestDescent", "RelaxedNewton", "NewtonCG", "L_BFGS", "VL_BFGS")


def run_minimizer(case):
    """real minimiser run with recording controller / line searcher / reset counter / direction log"""
    ift = nifty()["ift"]
    if "rec" not in _N:
        _N["rec"] = make_recorders()
    RecController, RecLineSearch = _N["rec"]
    log = dict(checks=[], searches=[], resets=[], dirs=[])
    inner = ift.GradientNormController(tol_abs_gradnorm=case["tol"], iteration_limit=case["limit"],
                                       convergence_level=case.get("clvl", 1))
    ctrl = RecController(inner, log)
    ls = RecLineSearch(log, **case["ls"])
    cls = getattr(ift, case["minimizer"])
    kw = {}
    if case["minimizer"] in ("L_BFGS", "VL_BFGS"):
        kw["max_history_length"] = case["maxhist"]
    mini = cls(ctrl, line_searcher=ls, **kw)
    orig_reset = mini.reset
    orig_dir = mini.get_descent_direction

    def reset():
        log["resets"].append(len(log["searches"]))
        return orig_reset()

    def get_dir(energy, old=None):
        d = orig_dir(energy, old)
        log["dirs"].append(dict(x=energy.position.asnumpy().copy(), g=energy.gradient.asnumpy().copy(),
                                d=d.asnumpy().copy(), nreset=len(log["resets"])))
        return d

    mini.reset = reset
    mini.get_descent_direction = get_dir
    e0 = energy_at(case["energy"], case["x0"])
    log["gz0"] = bool(e0.gradient_norm == 0)
    with np.errstate(all="ignore"):
        try:
            e, status = mini(e0)
        except Exception as ex:  # noqa: BLE001
            log["error"] = type(ex).__name__
            return log
    log["status"] = int(status)
    log["value"] = float(e.value)
    return log


# ------------------------------------------------------------------------------------------------------
# scripted DescentMinimizer.__call__ (fake energies / line searcher / controller popping from a script)
# ------------------------------------------------------------------------------------------------------

class ScriptExhausted(Exception):
    pass


class FakeEnergy:
    def __init__(self, value, gz):
        self.value = value
        self.gradient_norm = 0.0 if gz else 1.0


def run_script(case):
    ift = nifty()["ift"]
    dm = nifty()["dm"]
    log = dict(fprevs=[], resets=0, nsearch=0, nchecks=0, accepted=[])
    searches = list(case["searches"])
    checks = list(case["checks"])

    class Ctrl(ift.IterationController):
        def start(self, energy):
            return case["start"]

        def check(self, energy):
            if not checks:
                raise ScriptExhausted()
            log["nchecks"] += 1
            log["accepted"].append(energy.value)
            return checks.pop(0)

    class LS:
        def perform_line_search(self, energy, pk, f_k_minus_1=None):
            if not searches:
                raise ScriptExhausted()
            v, gz, ok = searches.pop(0)
            log["nsearch"] += 1
            log["fprevs"].append(f_k_minus_1)
            return FakeEnergy(float(Fraction(v)), gz), ok

    class Mini(dm.DescentMinimizer):
        def get_descent_direction(self, energy, old_value=None):
            return None

        def reset(self):
            log["resets"] += 1

    m = Mini(Ctrl(), LS())
    try:
        e, status = m(FakeEnergy(float(Fraction(case["e0"][0])), case["e0"][1]))
    except ScriptExhausted:
        return {"error": "exhausted"}, log, None
    except Exception as ex:  # noqa: BLE001
        return {"error": type(ex).__name__}, log, None
    out = {"status": int(status), "value": frac(e.value), "accepted": [frac(v) for v in log["accepted"]],
           "resets": log["resets"], "fprevs": [None if v is None else frac(v) for v in log["fprevs"]],
           "nsearch": log["nsearch"], "nchecks": log["nchecks"]}
    return out, log, (e, status)


# ------------------------------------------------------------------------------------------------------
# the two L-BFGS direction rules on a given history
# ------------------------------------------------------------------------------------------------------

class PointEnergy:
    def __init__(self, x, g):
        self.position = x
        self.gradient = g


def run_twins(case):
    """feed the same (x, g, reset) sequence to L_BFGS and VL_BFGS; returns (dirs_L, dirs_VL) as lists of arrays or
    an error kind per call"""
    ift = nifty()["ift"]
    n, m = case["n"], case["maxhist"]
    ctrl = ift.GradientNormController(iteration_limit=1)
    out = []
    for name in ("L_BFGS", "VL_BFGS"):
        mini = getattr(ift, name)(ctrl, max_history_length=m)
        if name == "L_BFGS":
            mini.reset()
        else:
            mini._information_store = None
        dirs = []
        for p in case["points"]:
            if p.get("reset"):
                mini.reset()
            try:
                with np.errstate(all="ignore"):
                    d = mini.get_descent_direction(PointEnergy(field(n, p["x"]), field(n, p["g"])))
                dirs.append(d.asnumpy().astype(np.float64))
            except Exception as ex:  # noqa: BLE001
                dirs.append(type(ex).__name__)
        out.append(dirs)
    return out
