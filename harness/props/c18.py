"""C18 — Variational samples have the right distribution (DESIGN.md §5 C18).

Tie: excitation substitution.  JAX: `nifty.re.evi.random_like` is replaced (inside the harness process only) by a function
returning prescribed excitations, so `draw_linear_residual` becomes the deterministic linear map ξ ↦ A ξ; classic:
`nifty.cl.random.Random.normal` likewise, under `SampledKLEnergy(...)`.  The real A (column by column) is compared with the
Lean model's exact `A = D⁻¹[JᵀS | 1]` (J = Jacobian of the forward model at the expansion point, shipped as exact
rationals), class T 1e-7 (CG).  Oracle (real code only): A Aᵀ = (JᵀN⁻¹J+1)⁻¹ computed with NumPy; mirrored samples are
bitwise negatives and average to the expansion point; point-estimated keys have exactly zero residuals; for linear models
the geoVI update returns the linear samples.  Thorough: 6σ covariance test with the unpatched RNG (a TEST)."""
import logging
from fractions import Fraction

import numpy as np

from ._prob_util import jax_setup, fr, rs, fl, fll, dyadic, allclose, maxerr, safe, is_err

ID = "C18"
LEAN_MODULES = ["NiftyVerif.Core.Proto", "NiftyVerif.Model.LinAlg", "NiftyVerif.Model.Vi", "NiftyVerif.Model.Kl",
                "NiftyVerif.Props.C18"]
DRIVER = "Driver/C18.lean"
OBLIGATIONS = ["NiftyVerif.C18." + t for t in (
    "mgvi_cov", "mgvi_cov_split", "mirror_exact_negative", "mirror_length", "mirror_mean_is_expansion_point",
    "point_estimate_zero_rows", "geovi_linear_fixed_point")]
RULE = ("case = (two-key latent space a,b with 1..3 entries each, data size, integer response, diagonal noise with "
        "perfect-square variances, forward model linear / quadratic / tanh perturbation, expansion point, point estimates "
        "none/a/b, number of samples, driver JAX or classic); non-trivial = R ≠ 0; distinct by canonical case")
TRUSTED_BASE = [
    "Lean 4.33 kernel + Mathlib; axioms propext/Classical.choice/Quot.sound only (audited every run)",
    "probability: excitations are independent standard normal; covariance of A ξ is A Aᵀ (DESIGN §2.5)",
    "excitation substitution patches nifty.re.evi.random_like / nifty.cl.random.Random.normal inside the harness process",
    "jax.jacfwd gives the Jacobian J of the generated forward model (used as model input, exact rational of the float)",
    "CG convergence to 1e-7 on these systems is observed, not proved (C14/C15)",
]
ASSUMPTIONS = ["real fields; diagonal noise covariance",
               "the 6 sigma sampling test in the thorough tier is a statistical test, not part of the proof"]

TOL = 1e-7
CG_KW = dict(absdelta=1e-15, resnorm=1e-13, maxiter=300, miniter=2)
NOISE = [Fraction(1, 4), Fraction(1), Fraction(4), Fraction(9, 4), Fraction(1, 16)]


def gen_case(rng, quick=True, impl=None):
    na, nb = rng.randint(1, 2 if quick else 3), rng.randint(1, 2 if quick else 3)
    n = na + nb
    m = rng.randint(1, n + 1)
    R = [[rng.randint(-2, 2) for _ in range(n)] for _ in range(m)]
    if rng.random() < 0.2 and m >= 2:
        R[-1] = list(R[0])
    return dict(impl=impl or rng.choice(["jax", "cl"]), na=na, nb=nb, m=m, R=[[rs(x) for x in r] for r in R],
                N=[rs(rng.choice(NOISE)) for _ in range(m)], d=[rs(rng.randint(-3, 3)) for _ in range(m)],
                model=rng.choice(["linear", "linear", "quad", "tanh"]),
                pos=[rs(dyadic(rng, -1, 1, 2)) for _ in range(n)],
                pe=rng.choice(["none", "none", "a", "b"]), n_samples=rng.randint(1, 2),
                seed=rng.randint(0, 2 ** 31 - 1),
                # documented options that must not change the distribution of the samples
                jax_cg=rng.choice(["cg", "static_cg"]), jit_metric=rng.random() < 0.5, ovi_jit=rng.random() < 0.3,
                cl_napprox=rng.choice([0, 2, 3]))     # napprox=1 is rejected by the code (variance of one probe)


def _arrs(c):
    n = c["na"] + c["nb"]
    R = np.array([fll(r) for r in c["R"]], dtype=float).reshape(c["m"], n)
    return R, np.array(fll(c["N"])), np.array(fll(c["d"])), np.array(fll(c["pos"]))


def _fwd_np(c, xp):
    """the generated forward model on a flat vector, with array module xp"""
    def f(R, s):
        y = R @ s
        if c["model"] == "quad":
            return y + 0.125 * y ** 2
        if c["model"] == "tanh":
            return y + 0.25 * xp.tanh(y)
        return y
    return f


# ---- JAX side -------------------------------------------------------------------------------------------------
class _FakeRandomLike:
    """stand-in for nifty.re.tree_math.random_like: hands out queued flat excitation vectors shaped like `primals`"""

    def __init__(self, queue):
        self.q = list(queue)
        self.calls = 0

    def __call__(self, key, primals, rng=None):
        import jax.numpy as jnp
        from jax.tree_util import tree_flatten, tree_unflatten
        self.calls += 1
        v = np.asarray(self.q.pop(0), dtype=float)
        leaves, td = tree_flatten(primals)
        out, o = [], 0
        for lf in leaves:
            shp = tuple(lf.shape)
            k = int(np.prod(shp)) if shp else 1
            out.append(jnp.asarray(v[o:o + k]).reshape(shp))
            o += k
        assert o == v.size
        return tree_unflatten(td, out)


def _jax_setup_case(c):
    jax = jax_setup()
    import jax.numpy as jnp
    import nifty.re as jft
    jft.logger.setLevel(logging.ERROR)
    R, N, d, pos = _arrs(c)
    Rj, dv = jnp.array(R), jnp.array(1.0 / N)
    f = _fwd_np(c, jnp)
    na = c["na"]
    fwd = lambda x: f(Rj, jnp.concatenate([x["a"], x["b"]]))
    dom = jft.Vector({"a": jft.ShapeWithDtype((na,)), "b": jft.ShapeWithDtype((c["nb"],))})
    lh = jft.Gaussian(jnp.array(d), noise_cov_inv=lambda x: dv * x, noise_std_inv=lambda x: jnp.sqrt(dv) * x)
    lh = lh.amend(fwd, domain=dom)
    p = jft.Vector({"a": jnp.array(pos[:na]), "b": jnp.array(pos[na:])})
    pe = () if c["pe"] == "none" else (c["pe"],)
    return jax, jft, lh, p, pe


def _flat(v, c):
    """flat (a,b) vector; point-estimated leaves come back as broadcastable zeros of shape (1,)"""
    t = getattr(v, "tree", v)
    return np.concatenate([np.broadcast_to(np.asarray(t["a"], dtype=float).reshape(-1), (c["na"],)),
                           np.broadcast_to(np.asarray(t["b"], dtype=float).reshape(-1), (c["nb"],))])


def _liquid_dims(c):
    return {"none": c["na"] + c["nb"], "a": c["nb"], "b": c["na"]}[c["pe"]]


def real_jax(c):
    """A (columns = excitations: first the m likelihood ones, then the liquid prior ones), mirrored samples from
    OptimizeVI.draw_linear_samples, and the geoVI update of the first linear sample"""
    def go():
        jax, jft, lh, p, pe = _jax_setup_case(c)
        from nifty.re import evi
        m, nl = c["m"], _liquid_dims(c)
        orig = evi.random_like
        cols = []
        try:
            for k in range(m + nl):
                e = np.zeros(m + nl)
                e[k] = 1.0
                evi.random_like = _FakeRandomLike([e[:m], e[m:]])
                r, _ = evi.draw_linear_residual(lh, p, jax.random.PRNGKey(0), point_estimates=pe, cg_kwargs=CG_KW,
                                                cg=(jft.static_cg if c.get("jax_cg") == "static_cg" else jft.cg),
                                                jit_metric=bool(c.get("jit_metric", False)))
                cols.append(_flat(r, c))
        finally:
            evi.random_like = orig
        A = np.array(cols).T
        # genuine draws (unpatched RNG) through the driver class: mirroring + point estimates + geoVI
        ovi = jft.OptimizeVI(lh, n_total_iterations=1, jit=bool(c.get("ovi_jit", False)), linear_minimizer_jit=False)
        keys = jax.random.split(jax.random.PRNGKey(c["seed"]), c["n_samples"])
        smp, _ = ovi.draw_linear_samples(p, keys, point_estimates=pe, cg_kwargs=CG_KW)
        res = np.array([_flat(jax.tree_util.tree_map(lambda a: a[i], smp._samples), c) for i in range(len(smp))])
        full = np.array([_flat(s, c) for s in smp])
        out = dict(A=A, residuals=res, samples=full)
        if c["model"] == "linear":
            mk = dict(name=None, xtol=1e-13, absdelta=1e-15, maxiter=10, cg_kwargs=dict(name=None, **CG_KW))
            upd, _ = ovi.nonlinearly_update_samples(smp, point_estimates=pe, minimize_kwargs=mk)
            out["geovi"] = np.array([_flat(jax.tree_util.tree_map(lambda a: a[i], upd._samples), c) for i in range(len(upd))])
            # the one-shot entry point draw_residual = linear draw + geoVI update of ±r with the same key
            k0 = keys[0]
            rl, _ = evi.draw_linear_residual(lh, p, k0, point_estimates=pe, cg_kwargs=CG_KW)
            both, _ = evi.draw_residual(lh, p, k0, point_estimates=pe, cg_kwargs=CG_KW, minimize_kwargs=mk)
            out["dr_lin"] = _flat(rl, c)
            out["dr_both"] = np.array([_flat(jax.tree_util.tree_map(lambda a: a[i], both), c) for i in range(2)])
        elif c["model"] == "tanh":
            # genuinely non-linear, globally invertible model (t' ∈ (1, 1.25]): the geoVI sample x* must solve
            # x − e + L_e(t(x) − t(e)) = ± metric sample   (the quadratic model is not injective: no such guarantee)
            mk = dict(name=None, xtol=1e-13, absdelta=1e-15, maxiter=60, cg_kwargs=dict(name=None, **CG_KW))
            upd, ust = ovi.nonlinearly_update_samples(smp, point_estimates=pe, minimize_kwargs=mk)
            out["geovi_converged"] = bool(np.all(np.asarray(ust.status) >= 0)) if getattr(ust, "status", None) is not None else True
            gs, mss = [], []
            for i in range(len(upd)):
                x = p + jax.tree_util.tree_map(lambda a: a[i], upd._samples)
                ms, _ = evi.draw_linear_residual(lh, p, keys[i // 2], from_inverse=False, point_estimates=pe)
                g = (x - p) + lh.left_sqrt_metric(p, lh.transformation(x) - lh.transformation(p))
                gs.append(_flat(g, c))
                mss.append((1.0 if i % 2 == 0 else -1.0) * _flat(ms, c))
            out["geovi_g"], out["geovi_ms"] = np.array(gs), np.array(mss)
            out["geovi_res"] = np.array([_flat(jax.tree_util.tree_map(lambda a: a[i], upd._samples), c) for i in range(len(upd))])
        return out
    return safe(go)


# ---- classic side ------------------------------------------------------------------------------------------------
def _cl_setup_case(c):
    import nifty.cl as ift
    ift.logger.setLevel(logging.ERROR)
    R, N, d, pos = _arrs(c)
    na, nb, m = c["na"], c["nb"], c["m"]
    da, db, dd = ift.UnstructuredDomain(na), ift.UnstructuredDomain(nb), ift.UnstructuredDomain(m)

    class Dense(ift.LinearOperator):
        def __init__(self, dom, tgt, mat):
            self._domain, self._target = ift.DomainTuple.make(dom), ift.DomainTuple.make(tgt)
            self._capability = self.TIMES | self.ADJOINT_TIMES
            self._mat = mat

        def apply(self, x, mode):
            self._check_input(x, mode)
            v = x.asnumpy() if hasattr(x, "asnumpy") else x.val
            return ift.makeField(self._tgt(mode), (self._mat if mode == self.TIMES else self._mat.T) @ v)
    Ra = Dense(da, dd, R[:, :na]).ducktape("a")
    Rb = Dense(db, dd, R[:, na:]).ducktape("b")
    y = Ra + Rb
    if c["model"] == "quad":
        y = y + 0.125 * y ** 2
    elif c["model"] == "tanh":
        y = y + 0.25 * y.ptw("tanh")
    Nop = ift.DiagonalOperator(ift.makeField(dd, N.copy()), sampling_dtype=np.float64)
    lh = ift.GaussianEnergy(ift.makeField(dd, d), inverse_covariance=Nop.inverse) @ y
    ic = ift.AbsDeltaEnergyController(1e-15, iteration_limit=300, convergence_level=3)
    H = ift.StandardHamiltonian(lh, ic, prior_sampling_dtype=np.float64)
    p = ift.MultiField.from_dict({"a": ift.makeField(da, pos[:na]), "b": ift.makeField(db, pos[na:])})
    return ift, H, p


def _flat_cl(f, c):
    def g(k, size):
        if k in f.keys():
            v = f[k]
            return np.asarray(v.asnumpy() if hasattr(v, "asnumpy") else v.val, dtype=float).reshape(-1)
        return np.zeros(size)
    return np.concatenate([g("a", c["na"]), g("b", c["nb"])])


def real_cl(c):
    """classic: A via patched Random.normal (order of draws: prior first, then likelihood — reordered here to
    [likelihood | prior]), genuine mirrored draws, geoVI (linear models) with a Newton minimiser"""
    def go():
        ift, H, p = _cl_setup_case(c)
        from nifty.cl import random as nrandom
        pe = [] if c["pe"] == "none" else [c["pe"]]
        m, nl = c["m"], _liquid_dims(c)
        orig = nrandom.Random.normal
        cols = []
        shapes = []
        try:
            for k in range(m + nl):
                e = np.zeros(m + nl)
                e[k] = 1.0
                # liquid prior excitations are consumed per key in domain order, then the m likelihood ones
                state = dict(o=0)
                vec = np.concatenate([e[m:], e[:m]])

                base_depth = len(nrandom._sseq)

                def fake(dtype, shape, mean=0.0, std=1.0, _s=state, _v=vec):
                    if len(nrandom._sseq) <= base_depth:
                        # not inside a per-sample random.Context: draws of the preconditioner probing (napprox > 0)
                        return orig(dtype, shape, mean, std)
                    k_ = int(np.prod(shape)) if np.ndim(shape) or shape else 1
                    out = _v[_s["o"]:_s["o"] + k_].reshape(shape)
                    _s["o"] += k_
                    return (mean + std * out).astype(dtype, copy=False)
                nrandom.Random.normal = staticmethod(fake)
                kl = ift.SampledKLEnergy(p, H, 1, None, mirror_samples=False, point_estimates=pe,
                                         napprox=c.get("cl_napprox", 0))
                assert state["o"] == m + nl, f"consumed {state['o']} of {m + nl} excitations"
                s = list(kl.samples.iterator())[0]
                cols.append(_flat_cl(s, c) - _flat_cl(p, c))
        finally:
            nrandom.Random.normal = orig
        A = np.array(cols).T
        nrandom.push_sseq_from_seed(c["seed"] % 2 ** 31)
        try:
            kl = ift.SampledKLEnergy(p, H, c["n_samples"], None, mirror_samples=True, point_estimates=pe,
                                     napprox=c.get("cl_napprox", 0))
            full = np.array([_flat_cl(s, c) for s in kl.samples.iterator()])
            out = dict(A=A, samples=full, residuals=full - _flat_cl(p, c))
            if c["model"] == "linear":
                nrandom.pop_sseq()
                nrandom.push_sseq_from_seed(c["seed"] % 2 ** 31)
                mini = ift.NewtonCG(ift.AbsDeltaEnergyController(1e-15, iteration_limit=10, convergence_level=3))
                klg = ift.SampledKLEnergy(p, H, c["n_samples"], mini, mirror_samples=True, point_estimates=pe)
                out["geovi"] = np.array([_flat_cl(s, c) for s in klg.samples.iterator()]) - _flat_cl(p, c)
        finally:
            nrandom.pop_sseq()
        return out
    return safe(go)


_CACHE = {}


def real(c):
    from core.ctx import canon
    k = canon(c)
    if k not in _CACHE:
        _CACHE[k] = real_jax(c) if c["impl"] == "jax" else real_cl(c)
    return _CACHE[k]


def jacobian_liquid(c):
    """J of the generated forward model at the expansion point w.r.t. the liquid coordinates (NumPy, analytic)"""
    R, N, d, pos = _arrs(c)
    y = R @ pos
    if c["model"] == "quad":
        J = (1 + 0.25 * y)[:, None] * R
    elif c["model"] == "tanh":
        J = (1 + 0.25 / np.cosh(y) ** 2)[:, None] * R
    else:
        J = R
    na = c["na"]
    keep = {"none": list(range(na + c["nb"])), "a": list(range(na, na + c["nb"])), "b": list(range(na))}[c["pe"]]
    return J[:, keep], keep


def oracle(case):
    if case.get("sub") == "stat":
        return _oracle_stat(case)
    r = real(case)
    sig = dict(impl=case["impl"], pe=case["pe"], model=case["model"])
    if is_err(r):
        return (f"{case['impl']} sampling raised {r['error']}", dict(sig, what="error", error=r["error"]))
    R, N, d, pos = _arrs(case)
    J, keep = jacobian_liquid(case)
    n = case["na"] + case["nb"]
    frozen = [i for i in range(n) if i not in keep]
    A = r["A"]
    if frozen and np.any(A[frozen, :] != 0):
        return (f"point-estimated key {case['pe']} has non-zero residual rows in the sampler matrix",
                dict(sig, what="point_estimate"))
    D = J.T @ np.diag(1.0 / N) @ J + np.eye(len(keep))
    C = np.linalg.inv(D)
    AAt = A[keep, :] @ A[keep, :].T
    if not np.max(np.abs(AAt - C)) <= TOL * max(1.0, np.max(np.abs(C))):
        return (f"covariance of the linear residuals A Aᵀ differs from the inverse metric at the expansion point by "
                f"{np.max(np.abs(AAt - C)):.3g}", dict(sig, what="covariance"))
    res, full = r["residuals"], r["samples"]
    if len(res) != 2 * case["n_samples"]:
        return (f"{len(res)} samples for n_samples={case['n_samples']} with mirroring", dict(sig, what="count"))
    for i in range(case["n_samples"]):
        # JAX stores residuals: bitwise; classic hands out mean ± r: equal up to the rounding of (mean ± r) − mean
        exact = np.array_equal(res[2 * i + 1], -res[2 * i]) if case["impl"] == "jax" else \
            np.max(np.abs(res[2 * i + 1] + res[2 * i])) <= 8 * np.finfo(float).eps * max(1.0, np.max(np.abs(full)))
        if not exact:
            return (f"mirrored sample {2 * i + 1} is not the exact negative of sample {2 * i}", dict(sig, what="mirror"))
    if frozen and np.any(res[:, frozen] != 0):
        return (f"point-estimated key {case['pe']} has non-zero residuals", dict(sig, what="point_estimate"))
    if not np.max(np.abs(full.mean(axis=0) - pos)) <= 1e-12 * max(1.0, np.max(np.abs(full))):
        return ("the average of the mirrored samples is not the expansion point", dict(sig, what="mean"))
    if "geovi_g" in r and r.get("geovi_converged", True):
        g, ms = r["geovi_g"][:, keep], r["geovi_ms"][:, keep]
        if not np.max(np.abs(g - ms)) <= 1e-6 * max(1.0, np.max(np.abs(ms))):
            return (f"non-linear model: the geoVI samples do not solve x − e + L_e(t(x) − t(e)) = metric sample "
                    f"(residual {np.max(np.abs(g - ms)):.3g})", dict(sig, what="geovi_equation"))
        if frozen and np.any(r["geovi_res"][:, frozen] != 0):
            return (f"point-estimated key {case['pe']} has non-zero geoVI residuals", dict(sig, what="point_estimate"))
    if "dr_both" in r:
        want = np.array([r["dr_lin"], -r["dr_lin"]])
        if r["dr_both"].shape != want.shape or not np.max(np.abs(r["dr_both"] - want)) <= 1e-6 * max(1.0, np.max(np.abs(want))):
            return ("linear model: draw_residual does not return (r, −r) for the linear residual r of the same key",
                    dict(sig, what="draw_residual"))
    if "geovi" in r and not np.max(np.abs(r["geovi"] - res)) <= 1e-6 * max(1.0, np.max(np.abs(res))):
        return (f"linear model: the geoVI update moved the linear samples by {np.max(np.abs(r['geovi'] - res)):.3g}",
                dict(sig, what="geovi"))
    return None


def shrink(case):
    if case.get("sub"):
        return
    if case["n_samples"] > 1:
        yield dict(case, n_samples=1)
    if case["model"] != "linear":
        yield dict(case, model="linear")
    if case["pe"] != "none":
        yield dict(case, pe="none")
    if case["m"] > 1:
        yield dict(case, m=case["m"] - 1, R=case["R"][:-1], N=case["N"][:-1], d=case["d"][:-1])


# ---- statistical test (thorough) --------------------------------------------------------------------------------
def _oracle_stat(case):
    c = case["base"]
    K = case["K"]

    def go():
        if c["impl"] == "jax":
            jax, jft, lh, p, pe = _jax_setup_case(c)
            from nifty.re import evi
            keys = jax.random.split(jax.random.PRNGKey(case["key"]), K)
            draw = lambda k: evi.draw_linear_residual(lh, p, k, point_estimates=pe, cg=jft.static_cg,
                                                      cg_kwargs=dict(absdelta=1e-13, maxiter=100, miniter=2))[0]
            out = jax.jit(jax.vmap(draw))(keys)
            t = getattr(out, "tree", out)
            return np.concatenate([np.asarray(t["a"]).reshape(K, -1), np.asarray(t["b"]).reshape(K, -1)], axis=1)
        ift, H, p = _cl_setup_case(c)
        from nifty.cl import random as nrandom
        nrandom.push_sseq_from_seed(case["key"])
        try:
            pe = [] if c["pe"] == "none" else [c["pe"]]
            kl = ift.SampledKLEnergy(p, H, K, None, mirror_samples=False, point_estimates=pe)
            return np.array([_flat_cl(s, c) for s in kl.samples.iterator()]) - _flat_cl(p, c)
        finally:
            nrandom.pop_sseq()
    x = safe(go)
    sig = dict(sub="stat", impl=c["impl"])
    if is_err(x):
        return (f"sampling raised {x['error']}", dict(sig, what="error", error=x["error"]))
    J, keep = jacobian_liquid(c)
    R, N, d, pos = _arrs(c)
    C = np.linalg.inv(J.T @ np.diag(1.0 / N) @ J + np.eye(len(keep)))
    x = x[:, keep]
    Chat = x.T @ x / K
    se = np.sqrt((np.outer(np.diag(C), np.diag(C)) + C ** 2) / K)
    if np.any(np.abs(Chat - C) > 6 * se) or np.any(np.abs(x.mean(axis=0)) > 6 * np.sqrt(np.diag(C) / K)):
        return (f"sample covariance of {K} residuals deviates from the inverse metric by more than 6 sigma",
                dict(sig, what="stat"))
    return None


# ------------------------------------------------------------------------------------------------------------
def run(ctx):
    rng = ctx.rng
    cases = [gen_case(rng, ctx.quick) for _ in range(ctx.n(3, 30))]
    for impl in ("jax", "cl"):
        for pe in ("a", "none"):
            c = gen_case(rng, ctx.quick, impl=impl)
            c["pe"] = pe
            c["model"] = "linear" if pe == "a" else "quad"
            cases.append(c)
    # directed: classic preconditioned linear sampling (napprox >= 1) on informative data, MultiDomain latent space
    for napprox, pe, model in ((3, "none", "linear"), (2, "none", "tanh"), (2, "a", "linear")):
        for _ in range(50):
            c = gen_case(rng, ctx.quick, impl="cl")
            if c["m"] >= 2 and sum(1 for r in c["R"] for x in r if fr(x) != 0) >= c["m"]:
                break
        c.update(cl_napprox=napprox, pe=pe, model=model, N=[rs(Fraction(1, 16))] * c["m"])
        cases.append(c)
    lines, keeps = [], []
    for c in cases:
        J, keep = jacobian_liquid(c)
        R, N, d, pos = _arrs(c)
        Ninv = [[rs(1 / fr(x)) if i == j else "0" for j, x in enumerate(c["N"])] for i in range(c["m"])]
        S = [[rs(1 / Fraction(int(round(np.sqrt(float(fr(x)) * 16))), 4)) if i == j else "0" for j, x in enumerate(c["N"])]
             for i in range(c["m"])]
        lines.append(dict(op="sampler", J=[[rs(x) for x in row] for row in J], Ninv=Ninv, S=S, n=len(keep)))
        keeps.append(keep)
    outs = ctx.model(DRIVER, lines)
    for c, keep, mo in zip(cases, keeps, outs):
        nontriv = any(fr(x) != 0 for r in c["R"] for x in r)
        ctx.case(c, nontriv)
        for k in ("impl", "model", "pe"):
            ctx.stat(f"{k}={c[k]}")
        ctx.stat(f"options:{c['jax_cg']},jit_metric={c['jit_metric']},ovi_jit={c['ovi_jit']}" if c["impl"] == "jax"
                 else f"options:napprox={c['cl_napprox']}")
        ctx.stat(f"n={c['na'] + c['nb']},m={c['m']}")
        res = oracle(c)
        if res is not None:
            ctx.counterexample(c, *res)
        r = real(c)
        if is_err(mo):
            ctx.broke("correspondence", "model driver", f"{mo}")
            continue
        if not mo["checked"]:
            ctx.broke("correspondence", "model self-check", "A Aᵀ ≠ D⁻¹ in exact arithmetic")
        if is_err(r):
            ctx.disagree(c, r, "value", "sampling raised")
            continue
        mA = np.array([[float(fr(x)) for x in row] for row in mo["A"]])
        A = r["A"][keep, :]
        if A.shape != mA.shape or not np.max(np.abs(A - mA)) <= TOL * max(1.0, np.max(np.abs(mA))):
            ctx.disagree(c, dict(A=np.round(A, 9).tolist()), dict(A=np.round(mA, 9).tolist()),
                         "class T: real sampler matrix (excitation substitution) vs exact D⁻¹[JᵀS | 1]")
    # mirroring / insertion list logic: model vs the real concatenate_zip and partial_insert_and_remove
    _list_logic(ctx)
    if not ctx.quick:
        for impl in ("jax", "cl"):
            for _ in range(1 if impl == "jax" else 3):
                base = gen_case(rng, True, impl=impl)
                sc = dict(sub="stat", base=base, K=8000 if impl == "jax" else 3000, key=rng.randint(0, 2 ** 31 - 1))
                ctx.case(sc, True)
                ctx.stat(f"stat:{impl}")
                res = _oracle_stat(sc)
                if res is not None:
                    ctx.counterexample(sc, *res)
        ctx.notes.append("6 sigma covariance runs with the unpatched RNG are a statistical test, not a proof")


def _list_logic(ctx):
    rng = ctx.rng
    jax = jax_setup()
    import jax.numpy as jnp
    from nifty.re.evi import concatenate_zip
    from nifty.re.likelihood import partial_insert_and_remove
    lines, impl = [], []
    for _ in range(ctx.n(6, 40)):
        k, dim = rng.randint(1, 3), rng.randint(1, 3)
        smp = [[dyadic(rng, -2, 2, 2) for _ in range(dim)] for _ in range(k)]
        pos = [dyadic(rng, -2, 2, 2) for _ in range(dim)]
        lines.append(dict(op="mirror", samples=[[rs(x) for x in r] for r in smp], pos=[rs(x) for x in pos]))
        a = jnp.array([[float(x) for x in r] for r in smp])
        z = np.asarray(concatenate_zip(a, -a))
        impl.append(dict(mirrored=[[rs(x) for x in r] for r in z],
                         mean=[rs(x) for x in (np.asarray(pos, dtype=float) + z).mean(axis=0)]))
    for _ in range(ctx.n(6, 40)):
        mask = [rng.random() < 0.5 for _ in range(rng.randint(1, 5))]
        nx, nf = mask.count(False), mask.count(True)
        bad = rng.random() < 0.2
        x = [[rng.randint(-3, 3)] for _ in range(nx - (1 if bad and nx else 0))]
        fill = [[rng.randint(-3, 3), 0] for _ in range(nf)]
        lines.append(dict(op="insert", mask=mask, x=[[rs(v) for v in r] for r in x], fill=[[rs(v) for v in r] for r in fill]))

        def go():
            xa, fa = tuple(np.array(v) for v in x), tuple(np.array(v) for v in fill)
            ins = partial_insert_and_remove(lambda t: t, insert_axes=(tuple(mask),), flat_fill=(fa,),
                                            remove_axes=None, unflatten=None)
            y = [list(map(int, np.atleast_1d(v))) for v in ins(xa)]
            rem = partial_insert_and_remove(lambda t: t, insert_axes=(tuple(mask),), flat_fill=(fa,),
                                            remove_axes=tuple(mask), unflatten=None)
            rm = [list(map(int, np.atleast_1d(v))) for v in rem(xa)]
            sel = [v for v, b in zip(y, mask) if b]
            return dict(y=[[rs(v) for v in r] for r in y], removed=[[rs(v) for v in r] for r in rm],
                        selected=[[rs(v) for v in r] for r in sel])
        r = safe(go)
        impl.append(r if not is_err(r) else dict(error="IndexError" if r["error"] in ("IndexError", "AssertionError", "ValueError") else r["error"]))
    outs = ctx.model(DRIVER, lines)
    for l, i, m in zip(lines, impl, outs):
        ctx.stat(f"list:{l['op']}")
        ctx.compare(dict(sub="list", **l), i, m, note=f"class E: {l['op']} list logic vs model", nontrivial=True)


def search(ctx):
    rng = ctx.rng
    for _ in range(ctx.n(30, 200)):
        c = gen_case(rng, True)
        r = oracle(c)
        if r is not None:
            ctx.counterexample(c, *r)
            return
