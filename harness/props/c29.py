"""C29 — Gauss-Markov processes have the exact continuous-time covariance (DESIGN.md §5 C29).

Tie: the real process functions of nifty/re/gauss_markov.py are linear in their excitations; the harness
extracts the real Jacobian A (jax.jacobian) and compares (i) A and an affine evaluation with the Lean model
(Driver/C29.lean, exact rationals; class E on perfect-square grids, class T otherwise) and (ii) A Aᵀ with the
continuous-time covariance written down independently here (the oracle, real code only)."""
from fractions import Fraction

import numpy as np

from ._prob_util import (jax_setup, fr, rs, rsl, fl, fll, dyadic, allclose, maxerr, safe, is_err)

ID = "C29"
LEAN_MODULES = ["NiftyVerif.Core.Proto", "NiftyVerif.Model.GaussMarkov", "NiftyVerif.Model.RatApprox", "NiftyVerif.Props.C29"]
DRIVER = "Driver/C29.lean"
OBLIGATIONS = ["NiftyVerif.C29." + t for t in (
    "wiener_excitation_response", "wiener_cov", "wiener_cov_const", "wiener_AAt",
    "iwp_transition", "iwp_step_noise", "iwp_state_indep", "iwp_cov_recursion", "iwp_cross_cov", "iwp_cov_closed_form",
    "scalarGM_var_step", "scalarGM_cov_lag", "ou_stationary", "ou_var_step", "ouDrift_prod", "ou_cov", "ou_cov_const",
    "generic_eq_wiener", "generic_eq_scalar", "generic_eq_iwp", "generic_cov_recursion", "generic_cross_cov")]
RULE = ("one case = (process in wiener/iwp/ou/generic, grid dt (non-uniform or scalar), sigma/gamma/asperity scalar or "
        "per-step, initial state, evaluation point xi, direct function or GaussMarkovProcess wrapper); class E = "
        "perfect-square dt and dyadic parameters (exact equality with the rational model), class T = random floats "
        "(1e-9 relative); non-trivial = N>=2 and not all dt equal 1; distinct by canonical case")
TRUSTED_BASE = [
    "Lean 4.33 kernel; axioms propext/Classical.choice/Quot.sound only (audited every run)",
    "probability: second moments form a symmetric bilinear form in which independent standard-normal excitations are "
    "orthonormal (CovForm/Orthonormal hypotheses of the theorems); Gaussianity of an affine image of a Gaussian",
    "abstract sqrt/exp in the theorems: only sqrt(x)^2=x at the arguments used, exp(a+b)=exp a*exp b, exp 0=1",
    "driver sqrt/exp: exact on rational squares, otherwise 2^-120-accurate rational approximations (class T only)",
    "jax.jacobian / XLA / IEEE rounding (executed, not modelled)",
]
ASSUMPTIONS = ["jnp.cumsum modelled as a running sum (rounding/association outside the model)",
               "time-varying parameters are piecewise constant per step (that is what the code's signature offers)"]


# ------------------------------------------------------------------------------------------------------------
# generators
# ------------------------------------------------------------------------------------------------------------
def _gen_seq(rng, n, cls, lo, hi, square=False, allow_scalar=True):
    """a per-step parameter: (list of 'p/q' strings, is_scalar)"""
    scalar = allow_scalar and rng.random() < 0.4
    def one():
        if cls == "E":
            v = dyadic(rng, lo, hi, bits=2, nonzero=True)
            return v * v if square else v
        return Fraction(rng.uniform(float(lo), float(hi)) ** (2 if square else 1))
    if scalar:
        v = one()
        return [rs(v)] * n, True
    return [rs(one()) for _ in range(n)], False


def gen_case(rng, quick=True, proc=None, wrapper=None, x0_mode=None, arrays=False, sigma_prior=None):
    proc = proc or rng.choice(["wiener", "wiener", "iwp", "iwp", "ou", "ou", "gm"])
    cls = rng.choice(["E", "T"]) if proc in ("wiener", "gm") else "T"
    n = rng.randint(2 if arrays else 1, 5 if quick else 9)
    c = dict(proc=proc, cls=cls, N=n, wrapper=False)
    if proc == "gm":
        d = rng.randint(1, 3)
        per_step_f = rng.random() < 0.6
        per_step_g = rng.random() < 0.6
        def mat():
            return [[rs(dyadic(rng, -1, 1, 2)) if cls == "E" else rs(Fraction(rng.uniform(-1, 1))) for _ in range(d)]
                    for _ in range(d)]
        F0, G0 = mat(), mat()
        c.update(d=d, drift=[mat() if per_step_f else F0 for _ in range(n)], drift_per_step=per_step_f,
                 diffamp=[mat() if per_step_g else G0 for _ in range(n)], diffamp_per_step=per_step_g,
                 x0=[rs(dyadic(rng, -2, 2, 2)) for _ in range(d)],
                 xi=[[rs(dyadic(rng, -2, 2, 2)) for _ in range(d)] for _ in range(n)])
        return c
    dt, dts = _gen_seq(rng, n, cls, Fraction(1, 4), Fraction(2), square=True, allow_scalar=not arrays)
    sg, sgs = _gen_seq(rng, n, cls, Fraction(1, 4), Fraction(2), allow_scalar=not arrays)
    if sigma_prior:
        sg, sgs = [sg[0]] * n, True
    c.update(dt=dt, dt_scalar=dts, sigma=sg, sigma_scalar=sgs)
    d = 2 if proc == "iwp" else 1
    if proc == "iwp":
        mode = rng.choice(["none", "scalar", "array"])
        if mode == "none":
            c.update(asp=["0"] * n, asp_mode="none")
        elif mode == "scalar":
            c.update(asp=[rs(Fraction(rng.uniform(0.0, 2.0)))] * n, asp_mode="scalar")
        else:
            c.update(asp=[rs(Fraction(rng.uniform(0.0, 2.0))) for _ in range(n)], asp_mode="array")
    if proc == "ou":
        ga, gas = _gen_seq(rng, n, "T", Fraction(1, 10), Fraction(3), allow_scalar=not arrays)
        c.update(gamma=ga, gamma_scalar=gas)
    c["wrapper"] = (rng.random() < 0.35) if wrapper is None else wrapper
    if c["wrapper"]:
        # x0 of the wrapper: fixed value, (mean,std) prior, or (OU only) None = stationary start
        c["x0_mode"] = x0_mode or rng.choice(["fixed", "prior"] + (["stationary"] * 2 if proc == "ou" else []))
        c["x0_std"] = [rs(dyadic(rng, 0.25, 2, 2)) for _ in range(d)]
        c["xi_x0"] = [rs(dyadic(rng, -2, 2, 2)) for _ in range(d)]
        # amplitude given as a (mean, std) log-normal prior: a LazyModel kwarg of the wrapper (conditional covariance)
        if c["sigma_scalar"] and (sigma_prior or (sigma_prior is None and rng.random() < 0.5)):
            c.update(sigma_prior=True, sigma_mean=rs(dyadic(rng, 0.5, 2, 2)), sigma_std=rs(dyadic(rng, 0.25, 1, 2)),
                     xi_sigma=rs(dyadic(rng, -1, 1, 2)))
    c["x0"] = [rs(dyadic(rng, -2, 2, 2)) for _ in range(d)]
    if cls == "E":
        c["xi"] = [[rs(dyadic(rng, -2, 2, 2)) for _ in range(d)] for _ in range(n)]
    else:
        c["xi"] = [[rs(Fraction(rng.gauss(0, 1))) for _ in range(d)] for _ in range(n)]
    return c


def nontrivial(c):
    if c["N"] < 2:
        return False
    if c["proc"] == "gm":
        return True
    return any(fr(x) != 1 for x in c["dt"])


# ------------------------------------------------------------------------------------------------------------
# adapters to the real code
# ------------------------------------------------------------------------------------------------------------
def _param(c, key, jnp):
    """the parameter as the user would pass it: python float when scalar, array otherwise"""
    vals = fll(c[key])
    if c.get(key + "_scalar"):
        return vals[0]
    return jnp.array(vals)


def _real_fn(c):
    """returns f(xi[, xi_x0]) -> flat output array, built from the real process functions / wrappers"""
    jax = jax_setup()
    import jax.numpy as jnp
    from nifty.re import gauss_markov as gm
    proc, n = c["proc"], c["N"]
    if proc == "gm":
        F = jnp.array([[fll(r) for r in m] for m in c["drift"]])
        G = jnp.array([[fll(r) for r in m] for m in c["diffamp"]])
        F = F if c["drift_per_step"] else F[0]
        G = G if c["diffamp_per_step"] else G[0]
        x0 = jnp.array(fll(c["x0"]))
        return lambda xi: gm.discrete_gauss_markov_process(xi, x0, F, G).reshape(-1)
    dt = _param(c, "dt", jnp)
    sigma = _param(c, "sigma", jnp)
    x0v = fll(c["x0"])
    if not c["wrapper"]:
        if proc == "wiener":
            return lambda xi: gm.wiener_process(xi[:, 0], x0v[0], sigma, dt)
        if proc == "iwp":
            x0 = jnp.array(x0v)
            if c["asp_mode"] == "none":
                return lambda xi: gm.integrated_wiener_process(xi, x0, sigma, dt).reshape(-1)
            asp = fll(c["asp"])[0] if c["asp_mode"] == "scalar" else jnp.array(fll(c["asp"]))
            return lambda xi: gm.integrated_wiener_process(xi, x0, sigma, dt, asp).reshape(-1)
        gamma = _param(c, "gamma", jnp)
        return lambda xi: gm.ornstein_uhlenbeck_process(xi[:, 0], x0v[0], sigma, gamma, dt)
    # ---- GaussMarkovProcess wrappers
    extra = {}
    if c.get("sigma_prior"):
        sigma = (fl(c["sigma_mean"]), fl(c["sigma_std"]))
        extra["p_sigma"] = jnp.array(fl(c["xi_sigma"]))
    std = fll(c["x0_std"])
    mode = c["x0_mode"]
    kw = {}
    if c["dt_scalar"]:
        kw["N_steps"] = n
    if proc == "wiener":
        x0 = x0v[0] if mode == "fixed" else (x0v[0], std[0])
        m = gm.WienerProcess(x0, sigma, dt, name="p", **kw)
        sh = lambda xi: xi[:, 0]
    elif proc == "iwp":
        x0 = jnp.array(x0v) if mode == "fixed" else (jnp.array(x0v), jnp.array(std))
        asp = None if c["asp_mode"] == "none" else (
            fll(c["asp"])[0] if c["asp_mode"] == "scalar" else jnp.array(fll(c["asp"])))
        m = gm.IntegratedWienerProcess(x0, sigma, dt, name="p", asperity=asp, **kw)
        sh = lambda xi: xi
    else:
        gamma = _param(c, "gamma", jnp)
        x0 = None if mode == "stationary" else (x0v[0] if mode == "fixed" else (x0v[0], std[0]))
        m = gm.OrnsteinUhlenbeckProcess(sigma, gamma, dt, name="p", x0=x0, **kw)
        sh = lambda xi: xi[:, 0]
    if mode == "fixed":
        return lambda xi: m({"p": sh(xi), **extra}).reshape(-1)
    if proc == "iwp":
        return lambda xi, xx: m({"p": sh(xi), "p_x0": xx, **extra}).reshape(-1)
    return lambda xi, xx: m({"p": sh(xi), "p_x0": xx[0], **extra}).reshape(-1)


def _sigma_values(c):
    """per-step amplitudes as floats; for a log-normal amplitude prior the value realised by the real prior model"""
    if c.get("sigma_prior"):
        jax_setup()
        import jax.numpy as jnp
        from nifty.re.prior import LogNormalPrior
        pr = LogNormalPrior(fl(c["sigma_mean"]), fl(c["sigma_std"]), name="p_sigma")
        v = float(pr({"p_sigma": jnp.array(fl(c["xi_sigma"]))}))
        return np.full(c["N"], v)
    return np.array(fll(c["sigma"]))


def _has_x0_exc(c):
    return c.get("wrapper") and c.get("x0_mode") in ("prior", "stationary")


_CACHE = {}


def real_eval(c):
    """{'y': value at (xi[,xi_x0]), 'A': jacobian wrt xi (rows=outputs), 'A0': jacobian wrt the x0 excitation,
       'lin': max |f(xi)-f(0)-A xi - A0 xx|, 'jacdiff': max |A(xi)-A(0)|} as floats, or {'error': kind}.
       One jitted (value, forward-mode Jacobian) function per case, evaluated at the point and at zero."""
    from core.ctx import canon
    key = canon(c)
    if key in _CACHE:
        return _CACHE[key]

    def go():
        jax = jax_setup()
        f = _real_fn(c)
        d = c.get("d", 2 if c["proc"] == "iwp" else 1)
        xi = np.array([fll(r) for r in c["xi"]], dtype=float).reshape(c["N"], d)
        if _has_x0_exc(c):
            xx = np.array(fll(c["xi_x0"]), dtype=float)
            g = f
        else:
            xx = np.zeros((0,))
            g = lambda xi, xx: f(xi)
        gen = _generic_of_special(c) if (not c.get("wrapper") and c["proc"] in ("wiener", "iwp")) else None
        vj = jax.jit(lambda xi, xx: (g(xi, xx), jax.jacfwd(g, argnums=(0, 1))(xi, xx),
                                     gen(xi) if gen is not None else 0.0))
        y, (A, A0), yg = vj(xi, xx)
        y0, (A2, _), _ = vj(np.zeros_like(xi), np.zeros_like(xx))
        y, y0 = np.asarray(y, dtype=float), np.asarray(y0, dtype=float)
        A = np.asarray(A).reshape(y.shape[0], -1)
        A2 = np.asarray(A2).reshape(y.shape[0], -1)
        A0 = np.asarray(A0).reshape(y.shape[0], -1)
        lin = y - y0 - A @ xi.reshape(-1) - A0 @ xx.reshape(-1)
        return dict(y=y, A=A, A0=A0, lin=float(np.max(np.abs(lin))),
                    jacdiff=float(np.max(np.abs(A - A2))) if A.size else 0.0,
                    generic=None if gen is None else np.asarray(yg, dtype=float))
    r = safe(go)
    if len(_CACHE) > 4000:
        _CACHE.clear()
    _CACHE[key] = r
    return r


# ------------------------------------------------------------------------------------------------------------
# the continuous-time covariance, written down independently of the code (property statement)
# ------------------------------------------------------------------------------------------------------------
def reference_cov(c):
    """covariance of the flattened output (N+1 values, or (N+1)x2 row-major for iwp) of the continuous-time
    process on the grid; parameters piecewise constant per step; initial covariance P0 from the x0 mode"""
    proc, n = c["proc"], c["N"]
    if proc == "gm":
        d = c["d"]
        P = np.zeros((d, d))
        Ps, Fs = [P], []
        for k in range(n):
            F = np.array([fll(r) for r in c["drift"][k]])
            G = np.array([fll(r) for r in c["diffamp"][k]])
            P = F @ P @ F.T + G @ G.T
            Ps.append(P)
            Fs.append(F)
        return _assemble(Ps, Fs, d)
    dt = np.array(fll(c["dt"]))
    sg = _sigma_values(c)
    mode = c.get("x0_mode", "fixed") if c.get("wrapper") else "fixed"
    std = np.array(fll(c["x0_std"])) if c.get("wrapper") else None
    if proc == "wiener":
        P0 = std[0] ** 2 if mode == "prior" else 0.0
        t = np.concatenate([[0.0], np.cumsum(sg ** 2 * dt)])     # ∫σ² dt up to grid point i
        C = np.minimum.outer(t, t) + P0
        return C
    if proc == "iwp":
        asp = np.array(fll(c["asp"]))
        P = np.diag(std ** 2) if mode == "prior" else np.zeros((2, 2))
        Ps, Fs = [P], []
        for k in range(n):
            h = dt[k]
            F = np.array([[1.0, h], [0.0, 1.0]])
            Q = sg[k] ** 2 * np.array([[h ** 3 / 3 + asp[k] * h, h ** 2 / 2], [h ** 2 / 2, h]])
            P = F @ P @ F.T + Q
            Ps.append(P)
            Fs.append(F)
        return _assemble(Ps, Fs, 2)
    ga = np.array(fll(c["gamma"]))
    P0 = {"fixed": 0.0, "prior": None, "stationary": sg[0] ** 2}[mode]
    if P0 is None:
        P0 = std[0] ** 2
    P = np.array([[P0]])
    Ps, Fs = [P], []
    for k in range(n):
        dr = np.exp(-ga[k] * dt[k])
        P = dr * P * dr + sg[k] ** 2 * (1.0 - np.exp(-2 * ga[k] * dt[k]))
        Ps.append(P)
        Fs.append(np.array([[dr]]))
    return _assemble(Ps, Fs, 1)


def _assemble(Ps, Fs, d):
    n1 = len(Ps)
    C = np.zeros((n1 * d, n1 * d))
    for i in range(n1):
        Phi = np.eye(d)
        for j in range(i, n1):
            if j > i:
                Phi = Fs[j - 1] @ Phi
            blk = Phi @ Ps[i]           # Cov(z_j, z_i) = Φ(j←i) P_i
            C[j * d:(j + 1) * d, i * d:(i + 1) * d] = blk
            C[i * d:(i + 1) * d, j * d:(j + 1) * d] = blk.T
    return C


def closed_form_cov(c):
    """closed forms in continuous time for constant parameters and deterministic/stationary start (None otherwise)"""
    if c["proc"] == "gm" or (c.get("wrapper") and c.get("x0_mode") == "prior"):
        return None
    if len(set(c["sigma"])) != 1:
        return None
    n = c["N"]
    s2 = float(_sigma_values(c)[0]) ** 2
    t = np.concatenate([[0.0], np.cumsum(fll(c["dt"]))])
    if c["proc"] == "wiener":
        return s2 * np.minimum.outer(t, t)
    if c["proc"] == "iwp":
        if len(set(c["asp"])) != 1:
            return None
        a = fl(c["asp"][0])
        C = np.zeros((2 * (n + 1), 2 * (n + 1)))
        for i in range(n + 1):
            for j in range(n + 1):
                s, u = min(t[i], t[j]), max(t[i], t[j])
                xx = s ** 3 / 3 + (u - s) * s ** 2 / 2 + a * s
                C[2 * i, 2 * j] = s2 * xx
                C[2 * i + 1, 2 * j + 1] = s2 * s
                # Cov(x(t_i), v(t_j))
                C[2 * i, 2 * j + 1] = s2 * (s ** 2 / 2 + (t[i] - t[j]) * t[j] if t[i] >= t[j] else t[i] ** 2 / 2)
                C[2 * j + 1, 2 * i] = C[2 * i, 2 * j + 1]
        return C
    if len(set(c["gamma"])) != 1:
        return None
    g = fl(c["gamma"][0])
    C = s2 * np.exp(-g * np.abs(np.subtract.outer(t, t)))
    if not (c.get("wrapper") and c.get("x0_mode") == "stationary"):
        C = C - s2 * np.exp(-g * np.add.outer(t, t))
    return C


def oracle(case):
    """property on the REAL code only: linear in the excitations, and A Aᵀ = continuous-time covariance"""
    r = real_eval(case)
    sig = dict(proc=case["proc"], wrapper=bool(case.get("wrapper")))
    if is_err(r):
        return (f"{case['proc']} raised {r['error']}", dict(sig, kind="error", error=r["error"]))
    scale = max(1.0, float(np.max(np.abs(r["y"]))))
    if r["lin"] > 1e-9 * scale or r["jacdiff"] > 1e-9 * scale:
        return (f"{case['proc']} is not affine in its excitations (residual {r['lin']:.3g}, jac diff {r['jacdiff']:.3g})",
                dict(sig, kind="nonlinear"))
    A = np.concatenate([r["A"], r["A0"]], axis=1)
    C = A @ A.T
    for name, ref in (("reference", reference_cov(case)), ("closed-form", closed_form_cov(case))):
        if ref is None:
            continue
        sc = max(1e-300, float(np.max(np.abs(ref))))
        err = float(np.max(np.abs(C - ref)))
        if not err <= 1e-9 * sc:
            i, j = np.unravel_index(np.argmax(np.abs(C - ref)), C.shape)
            return (f"{case['proc']} covariance A Aᵀ differs from the continuous-time {name} covariance: "
                    f"entry ({i},{j}) {C[i, j]:.12g} vs {ref[i, j]:.12g}", dict(sig, kind="covariance"))
    if r.get("generic") is not None and not allclose(r["generic"], r["y"], scale):
        return (f"generic Gauss-Markov generator with the {case['proc']} transition/noise matrices differs from the "
                f"specialised process by {maxerr(r['generic'], r['y']):.3g}", dict(sig, kind="generic_vs_special"))
    return None


def _generic_of_special(c):
    """xi -> discrete_gauss_markov_process driven with the textbook F_k, G_k of the specialised process"""
    jax_setup()
    import jax.numpy as jnp
    from nifty.re import gauss_markov as gm
    dt, sg = np.array(fll(c["dt"])), np.array(fll(c["sigma"]))
    x0 = jnp.array(fll(c["x0"]))
    if c["proc"] == "wiener":
        F = jnp.ones((c["N"], 1, 1))
        G = jnp.array(np.sqrt(dt) * sg).reshape(-1, 1, 1)
    else:
        asp = np.array(fll(c["asp"]))
        F = jnp.array([[[1.0, h], [0.0, 1.0]] for h in dt])
        G = jnp.array([s * np.sqrt(h) * np.array([[np.sqrt(h * h / 12 + a), h / 2], [0.0, 1.0]])
                       for h, s, a in zip(dt, sg, asp)])
    return lambda xi: gm.discrete_gauss_markov_process(xi, x0, F, G).reshape(-1)


def shrink(case):
    n = case["N"]
    if n > 1:
        for cut in (1, n // 2):
            c = dict(case, N=n - cut)
            for k in ("dt", "sigma", "gamma", "asp", "xi", "drift", "diffamp"):
                if k in c:
                    c[k] = c[k][:n - cut]
            yield c
    if case.get("wrapper"):
        yield dict(case, wrapper=False)


# ------------------------------------------------------------------------------------------------------------
# correspondence with the Lean model
# ------------------------------------------------------------------------------------------------------------
def _model_lines(c, xi, x0):
    """model request for one evaluation; xi: list of rows (strings), x0: list of strings"""
    p = c["proc"]
    if p == "wiener":
        return dict(op="wiener", xi=[r[0] for r in xi], x0=x0[0], sigma=c["sigma"], dt=c["dt"])
    if p == "iwp":
        return dict(op="iwp", xi0=[r[0] for r in xi], xi1=[r[1] for r in xi], x0=x0, sigma=c["sigma"], dt=c["dt"],
                    asp=c["asp"])
    if p == "ou":
        return dict(op="ou", xi=[r[0] for r in xi], x0=x0[0], sigma=c["sigma"], gamma=c["gamma"], dt=c["dt"])
    return dict(op="gm", xi=xi, x0=x0, drift=c["drift"], diffamp=c["diffamp"])


def _flat_model(c, out):
    if is_err(out):
        return out
    if c["proc"] == "iwp":
        return [v for pair in zip(out["X"], out["V"]) for v in pair]
    if c["proc"] == "gm":
        return [v for row in out["x"] for v in row]
    return out["x"]


def run(ctx):
    rng = ctx.rng
    ncases = ctx.n(8, 400)
    cases = [gen_case(rng, ctx.quick) for _ in range(ncases)]
    # make sure every process is present in every mode, with genuinely time-varying parameters
    cases.append(gen_case(rng, ctx.quick, proc="gm"))
    for p in ("wiener", "iwp", "ou"):
        cases.append(gen_case(rng, ctx.quick, proc=p, wrapper=False, arrays=True))
        for mode in ("fixed", "prior") + (("stationary",) if p == "ou" else ()):
            cases.append(gen_case(rng, ctx.quick, proc=p, wrapper=True, x0_mode=mode, arrays=True))
        cases.append(gen_case(rng, ctx.quick, proc=p, wrapper=True, sigma_prior=True,
                              x0_mode="stationary" if p == "ou" else "prior"))
    # ---- model requests: one affine evaluation + one per basis excitation (x0 = 0) ⇒ the model's A
    lines, index = [], []
    for ci, c in enumerate(cases):
        if c.get("wrapper"):
            continue                      # wrappers: oracle only (their x0/sigma plumbing is not in the model)
        d = c.get("d", 2 if c["proc"] == "iwp" else 1)
        n = c["N"]
        lines.append(_model_lines(c, c["xi"], c["x0"]))
        index.append((ci, "y", None))
        zero = [["0"] * d for _ in range(n)]
        for k in range(n):
            for a in range(d):
                e = [list(r) for r in zero]
                e[k][a] = "1"
                lines.append(_model_lines(c, e, ["0"] * d))
                index.append((ci, "col", k * d + a))
    outs = ctx.model(DRIVER, lines)
    model_y, model_A = {}, {}
    for (ci, kind, col), o in zip(index, outs):
        v = _flat_model(cases[ci], o)
        if kind == "y":
            model_y[ci] = v
        else:
            model_A.setdefault(ci, {})[col] = v
    # ---- real code
    for ci, c in enumerate(cases):
        ctx.stat(f"proc={c['proc']}")
        ctx.stat(f"cls={c['cls']}")
        ctx.stat(f"N={c['N']}")
        if c.get("wrapper"):
            ctx.stat(f"wrapper:{c['proc']}:{c['x0_mode']}" + (":sigma_prior" if c.get("sigma_prior") else ""))
        for k in ("dt", "sigma", "gamma"):
            if k in c:
                ctx.stat(f"{k}:{'scalar' if c[k + '_scalar'] else 'array'}")
        if "asp_mode" in c:
            ctx.stat(f"asp:{c['asp_mode']}")
        ctx.case(c, nontrivial(c))
        res = oracle(c)
        if res is not None:
            ctx.counterexample(c, *res)
        if c.get("wrapper"):
            continue
        r = real_eval(c)
        my = model_y[ci]
        if is_err(r) or is_err(my):
            if not (is_err(r) and is_err(my)):
                ctx.disagree(c, r if is_err(r) else "value", my if is_err(my) else "value", "error behaviour differs")
            continue
        cols = model_A[ci]
        mA = [[fr(cols[j][i]) for j in range(len(cols))] for i in range(len(my))]
        if c["cls"] == "E":
            ok = [fr(v) for v in r["y"]] == [fr(v) for v in my] and \
                all(fr(r["A"][i, j]) == mA[i][j] for i in range(len(my)) for j in range(len(cols)))
            note = "class E: exact equality of process values and Jacobian with the rational model"
        else:
            sc = max(1.0, max(abs(float(fr(v))) for v in my))
            ok = allclose(r["y"], [fr(v) for v in my], sc) and \
                allclose(r["A"].reshape(-1), [x for row in mA for x in row], sc)
            note = "class T: process values and Jacobian vs the rational model (1e-9)"
        if not ok:
            ctx.disagree(c, dict(y=[repr(float(v)) for v in r["y"]]),
                         dict(y=[repr(float(fr(v))) for v in my],
                              err=maxerr(r["A"].reshape(-1), [x for row in mA for x in row])), note)
    # ---- generic generator vs the specialised iwp, with the matrices of theorem generic_eq_iwp (from the model)
    _generic_vs_special(ctx, [c for c in cases if c["proc"] == "iwp" and not c.get("wrapper")][: ctx.n(8, 60)])


def _generic_vs_special(ctx, cases):
    if not cases:
        return
    jax = jax_setup()
    import jax.numpy as jnp
    from nifty.re import gauss_markov as gm
    mats = ctx.model(DRIVER, [dict(op="iwpmats", sigma=c["sigma"], dt=c["dt"], asp=c["asp"]) for c in cases])
    for c, m in zip(cases, mats):
        def go():
            F = jnp.array([[fll(r) for r in M] for M in m["drift"]])
            G = jnp.array([[fll(r) for r in M] for M in m["diffamp"]])
            xi = np.array([fll(r) for r in c["xi"]], dtype=float)
            x0 = jnp.array(fll(c["x0"]))
            sp = _real_fn(c)
            g, s = jax.jit(lambda xi: (gm.discrete_gauss_markov_process(xi, x0, F, G).reshape(-1), sp(xi)))(xi)
            return np.asarray(g), np.asarray(s)
        r = safe(go)
        ctx.case(dict(c, sub="generic_eq_iwp"), nontrivial(c))
        ctx.stat("generic_vs_iwp")
        if is_err(r):
            ctx.disagree(c, r, "value", "generic generator with the model's iwp matrices raised")
            continue
        g, s = r
        if not allclose(g, s, max(1.0, float(np.max(np.abs(s))))):
            ctx.disagree(c, dict(generic=[repr(float(v)) for v in g]), dict(special=[repr(float(v)) for v in s]),
                         "generic generator driven with the model's iwpDrift/iwpDiffamp (theorem generic_eq_iwp) "
                         "vs integrated_wiener_process")


def search(ctx):
    rng = ctx.rng
    for _ in range(ctx.n(150, 1500)):
        c = gen_case(rng, True)
        r = oracle(c)
        if r is not None:
            ctx.counterexample(c, *r)
            return
