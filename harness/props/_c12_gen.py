"""C12 helper: case generators (all numbers dyadic rationals so that the JSON text is exact), shrinker candidates."""
import copy

KINDS = ["gaussian", "studentt", "poisson", "categorical", "vcgauss", "vcstudt", "ndvc"]


def dy(rng, lo, hi, den=16):
    """dyadic rational in [lo, hi]"""
    return rng.randint(int(lo * den), int(hi * den)) / den


def dys(rng, n, lo, hi, den=16):
    return [dy(rng, lo, hi, den) for _ in range(n)]


def nelem(shape):
    n = 1
    for s in shape:
        n *= s
    return n


def gen_tree(rng, max_elems=5, allow_cplx=False, min_last=None):
    """data tree: scalar, batched array, or Vector pytree with two leaves"""
    r = rng.random()
    shapes_1 = [[], [1], [2], [3], [2, 2], [1, 3], [4], [3, 1]]
    if r < 0.55:
        wrap, shapes = "arr", [rng.choice(shapes_1)]
    elif r < 0.8:
        wrap, shapes = "vdict", [rng.choice([[2], [1], [2, 1], []]), rng.choice([[1], [2], [1, 2]])]
    else:
        wrap, shapes = "vtuple", [rng.choice([[2], [1], []]), rng.choice([[2], [1, 2], [3]])]
    leaves = []
    for s in shapes:
        l = dict(shape=list(s))
        if allow_cplx and rng.random() < 0.5:
            l["cplx"] = True
        leaves.append(l)
    return dict(wrap=wrap, leaves=leaves)


def tree_elems(tree):
    return sum(nelem(l["shape"]) for l in tree["leaves"])


def tree_real(tree):
    return sum(nelem(l["shape"]) * (2 if l.get("cplx") else 1) for l in tree["leaves"])


def gen_noise(rng, n, allow_none=True):
    """the (cov, std) arguments: lone cov, lone std (callable), both (consistent: cov = std**2 exactly), none"""
    r = rng.random()
    par = {}
    scalar = rng.random() < 0.25
    m = 1 if scalar else n
    std = dys(rng, m, 0.5, 2.0, 8)
    if r < 0.3:
        par["cov"] = [s * s for s in std]
    elif r < 0.6:
        par["std"] = std
    elif r < 0.9 or not allow_none:
        par["std"] = std
        par["cov"] = [s * s for s in std]
        if rng.random() < 0.5:
            par["callable"] = True
    if scalar and par:
        par["scalar"] = True
    return par


def gen_term(rng, kind=None, want_y=True):
    kind = kind or rng.choice(KINDS)
    t = dict(kind=kind, par={})
    if kind in ("gaussian", "studentt"):
        tree = gen_tree(rng, allow_cplx=True)
        n = tree_elems(tree)
        t["tree"] = tree
        t["data"] = dys(rng, tree_real(tree), -2, 2)
        t["par"] = gen_noise(rng, n)
        if kind == "studentt":
            t["par"]["dof"] = dys(rng, 1 if rng.random() < 0.5 else n, 1, 6, 4)
        if want_y:
            t["y"] = dys(rng, tree_real(tree), -2, 2)
    elif kind == "poisson":
        tree = gen_tree(rng)
        n = tree_elems(tree)
        t["tree"] = tree
        t["data"] = [rng.randint(0, 6) for _ in range(n)]
        if want_y:
            t["y"] = dys(rng, n, 0.25, 5)
    elif kind == "categorical":
        K = rng.choice([2, 3, 3, 4])
        r = rng.random()
        # data shapes have extent 1 along `axis`; the logits have K there
        if r < 0.3:
            wrap, shapes, axis = "arr", [[1]], -1                       # a single distribution
        elif r < 0.6:
            wrap, shapes, axis = "arr", [[rng.choice([2, 3]), 1]], -1   # batched
        elif r < 0.75:
            wrap, shapes, axis = "arr", [[1, rng.choice([2, 3])]], 0    # batched, categories along axis 0
        elif r < 0.9:
            wrap, shapes, axis = "vdict", [[1], [rng.choice([1, 2]), 1]], -1
        else:
            wrap, shapes, axis = "vtuple", [[2, 1], [1]], -1
        t["tree"] = dict(wrap=wrap, leaves=[dict(shape=s) for s in shapes])
        t["K"], t["axis"] = K, axis
        n = tree_elems(t["tree"])
        t["data"] = [rng.randint(0, K - 1) for _ in range(n)]
        if want_y:
            t["y"] = dys(rng, n * K, -2, 2)
    elif kind == "vcgauss":
        tree = gen_tree(rng, allow_cplx=True)
        if tree["wrap"] != "arr":
            # `1 + iscomplex` needs arithmetic on the tree: Vector trees only
            pass
        n = tree_elems(tree)
        t["tree"] = tree
        t["data"] = dys(rng, tree_real(tree), -2, 2)
        if rng.random() < 0.3:
            t["outer"] = "vector"
        if want_y:
            t["y"] = dys(rng, tree_real(tree), -2, 2) + dys(rng, n, 0.5, 2.5, 8)
    elif kind == "vcstudt":
        tree = gen_tree(rng)
        n = tree_elems(tree)
        t["tree"] = tree
        t["data"] = dys(rng, n, -2, 2)
        t["par"]["dof"] = dys(rng, 1 if rng.random() < 0.5 else n, 1, 6, 4)
        if rng.random() < 0.3:
            t["outer"] = "vector"
        if want_y:
            t["y"] = dys(rng, n, -2, 2) + dys(rng, n, 0.5, 2.5, 8)
    elif kind == "ndvc":
        d = rng.choice([1, 2, 2, 2, 3])
        r = rng.random()
        if r < 0.5:
            wrap, shapes = "arr", [[d]]
        elif r < 0.8:
            wrap, shapes = "arr", [[2, d]]
        else:
            wrap, shapes = "vdict", [[d], [1, d]]
        t["tree"] = dict(wrap=wrap, leaves=[dict(shape=s) for s in shapes])
        t["d"] = d
        t["covariance"] = rng.random() < 0.5
        B = sum(nelem(s[:-1]) for s in shapes)
        t["data"] = dys(rng, B * d, -2, 2)
        if want_y:
            mats = []
            for _ in range(B):
                mats += gen_spd(rng, d)
            t["y"] = dys(rng, B * d, -2, 2) + mats
    return t


def gen_spd(rng, d):
    """symmetric positive definite d x d with dyadic entries, well separated eigenvalues: W W^T/16 + diag"""
    W = [[rng.randint(-4, 4) for _ in range(d)] for _ in range(d)]
    A = [[sum(W[i][k] * W[j][k] for k in range(d)) / 16.0 for j in range(d)] for i in range(d)]
    for i in range(d):
        A[i][i] += 0.75 + 0.5 * i
    # round 2: ENFORCE the eigenvalue separation (no extra random draws: all other cases of a seed stay the same).
    # At exactly repeated eigenvalues (e.g. [[1.3125, 0], [0, 1.3125]], thorough seed 2) jax's derivative of `eigh` --
    # hence of the library's logm-based transformation -- is NaN; see design.d/C12.md "round 2", observation.
    if d > 1:
        import numpy as np
        for _ in range(8):
            ev = np.linalg.eigvalsh(np.array(A))
            if np.min(np.diff(ev)) >= 0.125:
                break
            for i in range(d):
                A[i][i] += 0.25 * (i + 1) * (i % 2 * 2 - 1 if d > 2 else i)
    return [A[i][j] for i in range(d) for j in range(d)]


def act_for(kind, leaf_index, n_first):
    """activation keeping the likelihood's parameters in range: which leaves must be positive / SPD"""
    if kind == "poisson":
        return ["exp", "sq1"]
    if kind in ("vcgauss", "vcstudt"):
        return ["id", "tanh"] if leaf_index < n_first else ["exp", "sq1"]
    if kind == "ndvc":
        return ["id", "tanh"] if leaf_index < n_first else ["spd"]
    return ["id", "tanh", "id"]


def gen_model(rng, term, nlat, primal_leaves, n_first):
    """y = act(A x + b): A sparse-ish dyadic matrix (rows = real coordinates of the primal space)"""
    sizes = [nelem(l["shape"]) * (2 if l.get("cplx") else 1) for l in primal_leaves]
    k = sum(sizes)
    A = [[(rng.randint(-8, 8) / 8.0 if rng.random() < 0.7 else 0.0) for _ in range(nlat)] for _ in range(k)]
    b = dys(rng, k, -0.5, 0.5)
    acts = [rng.choice(act_for(term["kind"], i, n_first)) for i in range(len(primal_leaves))]
    m = dict(A=A, b=b, acts=acts)
    if rng.random() < 0.3:
        m["lazy"] = True
    return m


def gen_latent(rng, nterms, want_freeze):
    if want_freeze:
        wrap = "vdict" if (nterms > 1 or rng.random() < 0.6) else "dict"
        sizes = [rng.choice([1, 2]), rng.choice([1, 2])] + ([1] if rng.random() < 0.3 else [])
    else:
        r = rng.random()
        if nterms > 1:
            wrap = "vdict" if r < 0.6 else "arr"
        else:
            wrap = "arr" if r < 0.4 else ("vdict" if r < 0.8 else "dict")
        sizes = [rng.choice([2, 3, 4])] if wrap == "arr" else [rng.choice([1, 2]), rng.choice([1, 2])]
    return dict(wrap=wrap, sizes=sizes)


# ---------------------------------------------------------------------------------------------------
# round 2: COMPLEX latent spaces and complex-valued forward models  y = h(S(C u) + b)
#   u = all latent leaves concatenated (complex as soon as one leaf is), C a complex linear stage, S a gather onto one
#   complex "slot" per primal element, h per primal leaf: holomorphic for complex leaves, real-valued for real leaves
# ---------------------------------------------------------------------------------------------------
CTYPES = ["iscal", "cscal", "cdiag", "fft", "cdense"]
HOLO = ["id", "cexp", "csq", "csin", "conj"]


def cplx_tree(tree):
    """force every leaf of a data tree to be complex"""
    for l in tree["leaves"]:
        l["cplx"] = True
    return tree


def gen_clatent(rng, nterms, want_freeze):
    """latent tree with at least one COMPLEX leaf"""
    if want_freeze:
        wrap = "vdict" if (nterms > 1 or rng.random() < 0.6) else "dict"
        sizes = [rng.choice([1, 2]), rng.choice([1, 2])] + ([1] if rng.random() < 0.3 else [])
    else:
        r = rng.random()
        if nterms > 1:
            wrap = "vdict" if r < 0.6 else "arr"
        else:
            wrap = "arr" if r < 0.45 else ("vdict" if r < 0.8 else "dict")
        sizes = [rng.choice([1, 2, 3, 4])] if wrap == "arr" else [rng.choice([1, 2]), rng.choice([1, 2])]
    cp = [rng.random() < 0.7 for _ in sizes]
    cp[rng.randrange(len(sizes))] = True
    return dict(wrap=wrap, sizes=sizes, cplx=cp)


def lat_real_sizes(lat):
    cp = lat.get("cplx") or [False] * len(lat["sizes"])
    return [n * (2 if c else 1) for n, c in zip(lat["sizes"], cp)]


def cact_for(kind, leaf, leaf_index, n_first):
    if leaf.get("cplx"):
        return HOLO
    if kind == "poisson":
        return ["abs2p1", "expre"]
    if kind in ("vcgauss", "vcstudt") and leaf_index >= n_first:
        return ["abs2p1", "expre"]
    if kind == "ndvc" and leaf_index >= n_first:
        return ["spd"]
    return ["re", "im", "re"]


def _nz(rng, lo, hi, den=8):
    while True:
        v = dy(rng, lo, hi, den)
        if v != 0:
            return v


def gen_cmodel(rng, term, lat, primal_leaves, n_first, ctype=None, holo=None):
    nl = sum(lat["sizes"])
    slots = sum(nelem(l["shape"]) for l in primal_leaves)
    ctype = ctype or rng.choice(CTYPES)
    m = dict(ctype=ctype)
    if ctype == "iscal":
        m["g"] = [0.0, _nz(rng, -1.5, 1.5)]
    elif ctype == "cscal":
        m["g"] = [_nz(rng, -1.5, 1.5), _nz(rng, -1.5, 1.5)]
    elif ctype == "cdiag":
        m["c"] = [[dy(rng, -1.5, 1.5, 8), _nz(rng, -1.5, 1.5)] for _ in range(nl)]
    elif ctype == "fft":
        m["norm"] = rng.choice(["backward", "ortho", "forward"])
        m["inverse"] = rng.random() < 0.4
    elif ctype == "cdense":
        m["C"] = [[[rng.randint(-8, 8) / 8.0, rng.randint(-8, 8) / 8.0] if rng.random() < 0.8 else [0.0, 0.0]
                   for _ in range(nl)] for _ in range(slots)]
    if ctype != "cdense":
        base = list(range(nl))
        rng.shuffle(base)
        m["sel"] = [base[i] if i < nl else rng.randrange(nl) for i in range(slots)]
    m["b"] = [[dy(rng, -0.5, 0.5), dy(rng, -0.5, 0.5)] for _ in range(slots)]
    m["acts"] = [(holo if (holo and l.get("cplx")) else rng.choice(cact_for(term["kind"], l, i, n_first)))
                 for i, l in enumerate(primal_leaves)]
    if rng.random() < 0.3:
        m["lazy"] = True
    return m


def gen_herm(rng, n):
    """Hermitian positive definite n x n complex matrix H = I + (W W^H)/16 with dyadic W: [[re, im], ...] rows"""
    W = [[complex(rng.randint(-3, 3), rng.randint(-3, 3)) for _ in range(n)] for _ in range(n)]
    H = [[sum(W[i][k] * W[j][k].conjugate() for k in range(n)) / 16.0 + (1.0 + 0.25 * i if i == j else 0.0)
          for j in range(n)] for i in range(n)]
    return [[[H[i][j].real, H[i][j].imag] for j in range(n)] for i in range(n)]


# ---------------------------------------------------------------------------------------------------
def shrink_candidates(case, plainify):
    """smaller cases: single terms on their own at the forward value; no freeze; no sum"""
    terms = case["terms"]
    if case.get("latent") is not None:
        for i in range(len(terms)):
            try:
                yield plainify(case, i)
            except Exception:
                pass
        if case.get("freeze"):
            c = copy.deepcopy(case)
            c["freeze"] = []
            yield c
        if len(terms) > 1:
            for i in range(len(terms)):
                c = copy.deepcopy(case)
                c["terms"] = [c["terms"][i]]
                yield c
    else:
        t = terms[0]
        # keep only the first leaf of a pytree
        if len(t["tree"]["leaves"]) > 1 and t["kind"] in ("gaussian", "studentt", "poisson") \
                and not t["par"].get("scalar") and t["kind"] != "studentt":
            pass
