"""C34 — Lanczos, stochastic log-determinant and ELBO estimators are exact in the limit (DESIGN.md §5 C34).

Tie (class T): generated SPD operators: real `lanczos_tridiag` T vs the Lean model's recurrence in ℚ; `_welford_merge` vs the
model; `_eigsh` batch plan vs the model's `fullBatches/resumeBatches` (through a recording `scipy.sparse.linalg.eigsh`);
generated linear Gaussian models: determinants in signal and data space (exact, equal in the model), closed-form ELBO and
log-evidence from the model vs `estimate_evidence_lower_bound`.
Oracle (real code only): Ritz values at full order = eigenvalues, V orthonormal, VᵀAV = T; `stochastic_lq_logdet` at order = n
equals the probe identity mean_k z_kᵀ log(A) z_k (eager and jitted); ELBO with all eigenvalues = closed form, expectation ≤
log-evidence (tight at the exact posterior), signal = data space, eigsh = slq(all eigenvalues), eager = slq_jit,
one go = resumed at every split point, classic = JAX."""
import logging
import os
import shutil
import tempfile
from fractions import Fraction

import numpy as np

from ._prob_util import jax_setup, fr, rs, fl, fll, dyadic, allclose, maxerr, safe, is_err

ID = "C34"
LEAN_MODULES = ["NiftyVerif.Core.Proto", "NiftyVerif.Model.Lanczos", "NiftyVerif.Model.LinAlg", "NiftyVerif.Model.Vi",
                "NiftyVerif.Model.RatApprox", "NiftyVerif.Props.C34"]
DRIVER = "Driver/C34.lean"
OBLIGATIONS = ["NiftyVerif.C34." + t for t in (
    "alpha_eq", "beta_eq", "basis_succ", "lanczos_relation", "lanczos_unit_norm", "lanczos_consecutive_orthogonal", "lanczos_orthonormal",
    "lanczos_tridiagonal", "quadrature_exact_full_order", "quadrature_moments",
    "welford_merge", "welford_merge_init", "sylvester_logdet", "elbo_le_evidence", "elbo_tight", "elbo_closed_form",
    "resume_concat", "fullBatches_sum")]
RULE = ("lanczos case = (SPD matrix of dimension 2..6 (12 thorough) with distinct eigenvalues, start vector, order ≤ n); "
        "slq case = (SPD matrix, number of probes, key); welford case = two dyadic samples; elbo case = (linear Gaussian "
        "model with n ≤ 4 (8) latent and m data points, diagonal noise with rational square roots, sample key, displacement "
        "of the expansion point); non-trivial = dimension ≥ 2; distinct by canonical case")
TRUSTED_BASE = [
    "Lean 4.33 kernel + Mathlib; axioms propext/Classical.choice/Quot.sound only (audited every run)",
    "spectral theory not formalised beyond p(T) = Vᵀ p(A) V (quadrature_exact_full_order): that functions of a symmetric matrix "
    "are polynomials in it on its finite spectrum, Ritz values of T_n = VᵀAV are the eigenvalues; "
    "numpy/scipy eigh, eigsh (executed, compared at small sizes only)",
    "Gaussian integrals: log Z = −H(m) − ½ log det D for the quadratic Hamiltonian; E_q[H] for a Gaussian q",
    "driver sqrt/log: 2^-99-accurate rational approximations (class T)",
]
ASSUMPTIONS = ["exact arithmetic / no breakdown in the Lanczos theorems (cases within 1e-6 of a breakdown are skipped and counted)",
               "that the Ritz values of T = VᵀAV at order n are the eigenvalues of A is drawn outside Lean"]


# ------------------------------------------------------------------------------------------------ generators
def gen_spd(rng, n):
    """SPD with well separated eigenvalues: Q diag(e) Qᵀ would need irrational Q; use L Lᵀ + distinct diagonal"""
    L = [[rng.randint(-2, 2) if j < i else 0 for j in range(n)] for i in range(n)]
    A = [[sum(L[i][k] * L[j][k] for k in range(n)) + (1 + 2 * i if i == j else 0) for j in range(n)] for i in range(n)]
    return A


def gen_lanczos(rng, quick=True):
    n = rng.randint(2, 6 if quick else 12)
    A = gen_spd(rng, n)
    v = [rng.randint(-3, 3) for _ in range(n)]
    if all(x == 0 for x in v):
        v[0] = 1
    return dict(sub="lanczos", n=n, A=[[rs(x) for x in r] for r in A], v=[rs(x) for x in v],
                order=rng.choice([n, n, rng.randint(1, n)]), callable=rng.random() < 0.5)


def gen_slq(rng, quick=True):
    n = rng.randint(2, 5 if quick else 10)
    return dict(sub="slq", n=n, A=[[rs(x) for x in r] for r in gen_spd(rng, n)], n_samples=rng.randint(1, 4),
                key=rng.randint(0, 2 ** 31 - 1), callable=rng.random() < 0.5)


def gen_elbo(rng, quick=True, mode=None):
    n = rng.randint(2 if mode else 1, 4 if quick else 8)
    m = {"wide": rng.randint(1, n - 1), "square": n, "tall": n + rng.randint(1, 2)}[mode] if mode else rng.randint(1, n + 1)
    R = [[rng.randint(-2, 2) for _ in range(n)] for _ in range(m)]
    Sd = [rng.choice([Fraction(1, 2), Fraction(1), Fraction(2), Fraction(4)]) for _ in range(m)]
    return dict(sub="elbo", n=n, m=m, R=[[rs(x) for x in r] for r in R], Sdiag=[rs(s) for s in Sd],
                Ndiag=[rs(1 / (s * s)) for s in Sd], d=[rs(rng.randint(-3, 3)) for _ in range(m)],
                n_samples=rng.randint(1, 3), key=rng.randint(0, 2 ** 31 - 1),
                shift=[rs(dyadic(rng, -1, 1, 2)) if rng.random() < 0.5 else "0" for _ in range(n)])


# ------------------------------------------------------------------------------------------------ Lanczos / SLQ / Welford
def real_lanczos(c):
    def go():
        jax_setup()
        import jax.numpy as jnp
        from nifty.re.num import lanczos
        A = jnp.array([fll(r) for r in c["A"]])
        v = jnp.array(fll(c["v"]))
        T, V = lanczos.lanczos_tridiag((lambda x: A @ x), v, order=c["order"])
        return dict(T=np.asarray(T), V=np.asarray(V))
    return safe(go)


def real_slq(c):
    def go():
        jax = jax_setup()
        import jax.numpy as jnp
        from nifty.re.num import lanczos
        A = jnp.array([fll(r) for r in c["A"]])
        n = c["n"]
        key = jax.random.PRNGKey(c["key"])
        mat = (lambda x: A @ x) if c["callable"] else A
        kw = dict(shape0=n) if c["callable"] else {}
        est = float(lanczos.stochastic_lq_logdet(mat, n, c["n_samples"], key, **kw))
        estj = float(jax.jit(lambda k: lanczos.stochastic_lq_logdet(mat, n, c["n_samples"], k, **kw))(key))
        # the probes the estimator draws (probe_batch_size = n_samples ⇒ one batch, keys = split(key, 2))
        z = np.asarray(jax.random.rademacher(jax.random.split(key, 2)[0], shape=(c["n_samples"], n), dtype=jnp.float64))
        return dict(est=est, est_jit=estj, probes=z)
    return safe(go)


def _oracle_lanczos(c):
    r = real_lanczos(c)
    sig = dict(sub="lanczos")
    if is_err(r):
        return (f"lanczos_tridiag raised {r['error']}", dict(sig, what="error", error=r["error"]))
    A = np.array([fll(x) for x in c["A"]])
    T, V = r["T"], r["V"]
    k = c["order"]
    sc = float(np.max(np.abs(A)))
    off = np.abs(np.diag(T, 1)) if k > 1 else np.array([1.0])
    if np.min(off, initial=1.0) < 1e-6 * sc:
        return None                                   # (near) breakdown: outside the stated hypotheses
    if not np.max(np.abs(V @ V.T - np.eye(k))) <= 1e-9:
        return ("Lanczos basis is not orthonormal", dict(sig, what="orthonormal"))
    if not np.max(np.abs(V @ A @ V.T - T)) <= 1e-8 * sc:
        return ("T differs from Vᵀ A V", dict(sig, what="relation"))
    ev, rv = np.linalg.eigvalsh(A), np.linalg.eigvalsh(T)
    if k == c["n"]:
        if not np.max(np.abs(ev - rv)) <= 1e-8 * sc:
            return (f"Ritz values at full order {rv} differ from the eigenvalues {ev}", dict(sig, what="ritz"))
    elif rv[0] < ev[0] - 1e-9 * sc or rv[-1] > ev[-1] + 1e-9 * sc:
        return ("Ritz values outside the spectrum", dict(sig, what="ritz_range"))
    return None


def _oracle_slq(c):
    r = real_slq(c)
    sig = dict(sub="slq")
    if is_err(r):
        return (f"stochastic_lq_logdet raised {r['error']}", dict(sig, what="error", error=r["error"]))
    A = np.array([fll(x) for x in c["A"]])
    w, Q = np.linalg.eigh(A)
    logA = (Q * np.log(w)) @ Q.T
    want = float(np.mean([z @ logA @ z for z in r["probes"]]))
    sc = max(1.0, abs(want))
    if not abs(r["est"] - want) <= 1e-8 * sc:
        return (f"stochastic_lq_logdet at order = dimension gives {r['est']!r}, the probes' exact quadratic forms average to "
                f"{want!r} (exact logdet {float(np.sum(np.log(w)))!r})", dict(sig, what="probe_identity"))
    if not abs(r["est"] - r["est_jit"]) <= 1e-9 * sc:
        return (f"eager {r['est']!r} vs jitted {r['est_jit']!r}", dict(sig, what="jit"))
    return None


# ------------------------------------------------------------------------------------------------ ELBO
def _elbo_setup(c):
    jax = jax_setup()
    import jax.numpy as jnp
    import nifty.re as jft
    jft.logger.setLevel(logging.ERROR)
    R = jnp.array(np.array([fll(r) for r in c["R"]], dtype=float).reshape(c["m"], c["n"]))
    S = jnp.array(fll(c["Sdiag"]))
    lh = jft.Gaussian(jnp.array(fll(c["d"])), noise_cov_inv=lambda x: S * S * x, noise_std_inv=lambda x: S * x)
    lh = lh.amend(lambda x: R @ x, domain=jft.ShapeWithDtype((c["n"],)))
    return jax, jnp, jft, lh


def real_elbo(c):
    def go():
        jax, jnp, jft, lh = _elbo_setup(c)
        cg = dict(absdelta=1e-14, maxiter=200, miniter=2)
        smp, _ = jft.wiener_filter_posterior(lh, key=jax.random.PRNGKey(c["key"]), n_samples=c["n_samples"],
                                             draw_linear_kwargs=dict(cg_kwargs=cg), jit=False)
        shift = jnp.array(fll(c["shift"]))
        smp = jft.Samples(pos=smp.pos + shift, samples=smp._samples, keys=smp.keys)
        tmp = tempfile.mkdtemp(prefix="prob_c34_")
        out = {}
        try:
            def call(**kw):
                kw.setdefault("output_directory", None)
                es, st = jft.estimate_evidence_lower_bound(lh, smp, 0, compute_all=True, verbose=False, **kw)
                return np.asarray(es, dtype=float), st
            es, st = call()
            out["elbo_samples"], out["elbo_mean"] = es, float(st["elbo_mean"])
            out["data"] = float(call(trace_log_space="data")[1]["elbo_mean"])
            out["slq_all"] = float(call(trace_log_method="slq")[1]["elbo_mean"])
            nrel = min(c["n"], c["m"])
            if nrel >= 2:
                k0 = nrel - 1
                kw = dict(trace_log_method="slq", slq_order=c["n"], slq_num_samples=3, slq_key=7)
                e1 = jft.estimate_evidence_lower_bound(lh, smp, k0, verbose=False, output_directory=None, min_lh_eval=0.0, **kw)
                e2 = jft.estimate_evidence_lower_bound(lh, smp, k0, verbose=False, output_directory=None, min_lh_eval=0.0,
                                                       slq_jit=True, **kw)
                out["slq_eager"], out["slq_jit"] = float(e1[1]["elbo_mean"]), float(e2[1]["elbo_mean"])
            # {signal, data, auto} × {one go, resumed from every strict non-empty prefix}: ELBO and the eigenvalue LISTS
            def eig_run(space, k, jit, sub, **kw):
                d = os.path.join(tmp, sub)
                _, st_ = jft.estimate_evidence_lower_bound(lh, smp, k, verbose=False, output_directory=d, min_lh_eval=0.0,
                                                           trace_log_space=space, metric_jit=jit, **kw)
                suffix = "data" if (space == "data" or (space == "auto" and c["m"] <= c["n"])) else "signal"
                ev = np.load(os.path.join(d, f"metric_{suffix}_eigenvalues.npy"))
                evec_f = os.path.join(d, f"metric_{suffix}_eigenvectors.npy")
                return float(st_["elbo_mean"]), np.asarray(ev, dtype=float), (np.load(evec_f) if os.path.exists(evec_f) else None), suffix
            out["spaces"] = {}
            for space in ("signal", "data", "auto"):
                e_all, ev_all, _, suffix = eig_run(space, nrel, space == "signal", f"{space}_all", n_batches=2)
                rec = dict(suffix=suffix, elbo=e_all, eigs=ev_all, resumed=[])
                for k in range(1, nrel):
                    _, ev_k, evec_k, _ = eig_run(space, k, False, f"{space}_k{k}", n_batches=1)
                    e_r, ev_r, _, _ = eig_run(space, nrel, False, f"{space}_k{k}r", n_batches=2,
                                              resume_eigenvalues=ev_k, resume_eigenvectors=evec_k)
                    rec["resumed"].append(dict(k=k, elbo=e_r, eigs=ev_r, prefix=ev_k))
                out["spaces"][space] = rec
        finally:
            shutil.rmtree(tmp, ignore_errors=True)
        ham = lambda s: float(lh(s) + 0.5 * jft.vdot(s, s))
        out["H"] = [ham(s) for s in smp]
        out["pos"] = np.asarray(smp.pos, dtype=float)
        out["res"] = np.asarray(smp._samples, dtype=float)
        # classic implementation on the same samples
        out["classic"] = _classic_elbo(c, out["pos"], out["res"])
        return out
    return safe(go)


def _classic_elbo(c, pos, res):
    import nifty.cl as ift
    ift.logger.setLevel(logging.ERROR)
    R = np.array([fll(r) for r in c["R"]], dtype=float).reshape(c["m"], c["n"])
    sd, dd = ift.UnstructuredDomain(c["n"]), ift.UnstructuredDomain(c["m"])

    class Dense(ift.LinearOperator):
        def __init__(self, dom, tgt, mat):
            self._domain, self._target = ift.DomainTuple.make(dom), ift.DomainTuple.make(tgt)
            self._capability = self.TIMES | self.ADJOINT_TIMES
            self._mat = mat

        def apply(self, x, mode):
            self._check_input(x, mode)
            v = x.asnumpy() if hasattr(x, "asnumpy") else x.val
            return ift.makeField(self._tgt(mode), (self._mat if mode == self.TIMES else self._mat.T) @ v)
    Nop = ift.DiagonalOperator(ift.makeField(dd, np.array(fll(c["Ndiag"]))), sampling_dtype=np.float64)
    lh = ift.GaussianEnergy(ift.makeField(dd, np.array(fll(c["d"]))), inverse_covariance=Nop.inverse) @ \
        Dense(sd, dd, R).ducktape("xi")
    H = ift.StandardHamiltonian(lh, ift.AbsDeltaEnergyController(1e-12, iteration_limit=100))
    mk = lambda v: ift.MultiField.from_dict({"xi": ift.makeField(sd, np.array(v, dtype=float))})
    # the JAX list holds r_0, -r_0, r_1, -r_1, …
    K = len(res) // 2
    sl = ift.ResidualSampleList(mk(pos), [mk(res[2 * i]) for i in range(K) for _ in (0, 1)],
                                [bool(j % 2) for j in range(2 * K)])
    fl_ = lambda v: float(np.asarray(v.asnumpy() if hasattr(v, "asnumpy") else getattr(v, "val", v)).reshape(-1)[0])
    _, st = ift.estimate_evidence_lower_bound(H, sl, 0, compute_all=True, verbose=False)
    res = dict(elbo=fl_(st["elbo_mean"]), resumed=[])
    nrel = min(c["n"], c["m"])
    tmp = tempfile.mkdtemp(prefix="prob_c34cl_")
    try:
        for k in range(1, nrel):
            d = os.path.join(tmp, f"k{k}")
            ift.estimate_evidence_lower_bound(H, sl, k, verbose=False, output_directory=d, min_lh_eval=0.0, n_batches=1)
            ev = np.load(os.path.join(d, "metric_signal_eigenvalues.npy"))
            evec = np.load(os.path.join(d, "metric_signal_eigenvectors.npy"))
            d2 = os.path.join(tmp, f"k{k}r")
            _, st2 = ift.estimate_evidence_lower_bound(H, sl, nrel, verbose=False, output_directory=d2, min_lh_eval=0.0,
                                                       n_batches=2, resume_eigenvalues=ev, resume_eigenvectors=evec)
            res["resumed"].append(dict(k=k, elbo=fl_(st2["elbo_mean"]),
                                       eigs=np.asarray(np.load(os.path.join(d2, "metric_signal_eigenvalues.npy")), dtype=float)))
    finally:
        shutil.rmtree(tmp, ignore_errors=True)
    return res


def _np_model(c):
    R = np.array([fll(r) for r in c["R"]], dtype=float).reshape(c["m"], c["n"])
    Ninv = np.diag(1.0 / np.array(fll(c["Ndiag"])))
    d = np.array(fll(c["d"]))
    D = R.T @ Ninv @ R + np.eye(c["n"])
    mean = np.linalg.solve(D, R.T @ Ninv @ d)
    Hm = 0.5 * (d - R @ mean) @ Ninv @ (d - R @ mean) + 0.5 * mean @ mean
    return D, mean, Hm


def _oracle_elbo(c):
    r = real_elbo(c)
    sig = dict(sub="elbo")
    if is_err(r):
        return (f"estimate_evidence_lower_bound raised {r['error']}", dict(sig, what="error", error=r["error"]))
    D, mean, Hm = _np_model(c)
    n = c["n"]
    logdet = float(np.linalg.slogdet(D)[1])
    closed = -0.5 * logdet + n / 2 - float(np.mean(r["H"]))
    sc = max(1.0, abs(closed))
    if not abs(r["elbo_mean"] - closed) <= 1e-9 * sc:
        return (f"ELBO with all eigenvalues {r['elbo_mean']!r} differs from the closed form −½logdet D + n/2 − ⟨H⟩ = {closed!r}",
                dict(sig, what="closed_form"))
    log_ev = -Hm - 0.5 * logdet
    # remove the sampling noise of ⟨H⟩ exactly: E_q[H] = H(pos) + ½ tr(D D⁻¹) for q = N(pos, D⁻¹)
    Hpos = Hm + 0.5 * (r["pos"] - mean) @ D @ (r["pos"] - mean)
    expected = -0.5 * logdet + n / 2 - (Hpos + n / 2)
    noise = float(np.mean(r["H"])) - (Hpos + float(np.mean([0.5 * x @ D @ x for x in r["res"]])))
    if not abs(noise) <= 1e-8 * sc:
        return ("sample energies are not H(pos) + ½ rᵀDr (mirrored samples of a quadratic Hamiltonian)",
                dict(sig, what="energies"))
    if not expected <= log_ev + 1e-9 * sc:
        return (f"expected ELBO {expected!r} exceeds the exact log-evidence {log_ev!r}", dict(sig, what="bound"))
    if all(fr(x) == 0 for x in c["shift"]) and not abs(expected - log_ev) <= 1e-9 * sc:
        return ("ELBO at the exact posterior is not tight", dict(sig, what="tight"))
    for name in ("data", "slq_all"):
        if not abs(r[name] - r["elbo_mean"]) <= 1e-8 * sc:
            return (f"ELBO ({name}) {r[name]!r} differs from the signal-space eigsh JAX value {r['elbo_mean']!r}",
                    dict(sig, what=name))
    if not abs(r["classic"]["elbo"] - r["elbo_mean"]) <= 1e-8 * sc:
        return (f"classic ELBO {r['classic']['elbo']!r} differs from the JAX value {r['elbo_mean']!r}", dict(sig, what="classic"))
    # eigenvalue lists: exact spectrum of the metric (signal) / of S R Rᵀ Sᵀ (data), largest first
    nrel = min(c["n"], c["m"])
    lam = np.sort(np.linalg.eigvalsh(D))[::-1][:nrel]
    want = {"signal": lam, "data": lam - 1.0}
    esc = max(1.0, float(lam[0]))
    for space, rec in r["spaces"].items():
        w = want[rec["suffix"]]
        if rec["eigs"].shape != w.shape or not np.max(np.abs(rec["eigs"] - w)) <= 1e-9 * esc:
            return (f"trace_log_space={space}: eigenvalues {rec['eigs']} differ from the exact {w}", dict(sig, what="eigenvalues", space=space))
        if not abs(rec["elbo"] - r["elbo_mean"]) <= 1e-8 * sc:
            return (f"trace_log_space={space}: ELBO {rec['elbo']!r} differs from {r['elbo_mean']!r}", dict(sig, what="space", space=space))
        for rr in rec["resumed"]:
            if rr["eigs"].shape != w.shape or not np.max(np.abs(rr["eigs"] - w)) <= 1e-9 * esc:
                return (f"trace_log_space={space}, resumed from {rr['k']} eigenpairs: eigenvalue list {rr['eigs']} is not the "
                        f"one-go list {w} (prefix {rr['prefix']})", dict(sig, what="resume_eigenvalues", space=space))
            if not abs(rr["elbo"] - r["elbo_mean"]) <= 1e-8 * sc:
                return (f"trace_log_space={space}, resumed from {rr['k']} eigenpairs: ELBO {rr['elbo']!r} differs from the "
                        f"one-go value {r['elbo_mean']!r}", dict(sig, what="resume", space=space))
    for rr in r["classic"]["resumed"]:
        if rr["eigs"].shape != lam.shape or not np.max(np.abs(rr["eigs"] - lam)) <= 1e-9 * esc:
            return (f"classic, resumed from {rr['k']} eigenpairs: eigenvalue list {rr['eigs']} is not {lam}",
                    dict(sig, what="resume_eigenvalues", space="classic"))
        if not abs(rr["elbo"] - r["elbo_mean"]) <= 1e-8 * sc:
            return (f"classic, resumed from {rr['k']} eigenpairs: ELBO {rr['elbo']!r} differs from {r['elbo_mean']!r}",
                    dict(sig, what="resume", space="classic"))
    if "slq_eager" in r and not abs(r["slq_eager"] - r["slq_jit"]) <= 1e-8 * sc:
        return (f"SLQ remainder eager {r['slq_eager']!r} vs slq_jit {r['slq_jit']!r}", dict(sig, what="slq_jit"))
    return None


_CACHE = {}


def _cached(f):
    def g(c):
        from core.ctx import canon
        k = (f.__name__, canon(c))
        if k not in _CACHE:
            _CACHE[k] = f(c)
        return _CACHE[k]
    g.__name__ = f.__name__
    return g


real_lanczos, real_slq, real_elbo = _cached(real_lanczos), _cached(real_slq), _cached(real_elbo)


def oracle(case):
    return {"lanczos": _oracle_lanczos, "slq": _oracle_slq, "elbo": _oracle_elbo, "welford": _oracle_welford,
            "batches": lambda c: None}[case["sub"]](case)


def _real_welford(c):
    jax_setup()
    import jax.numpy as jnp
    from nifty.re.num import lanczos
    a, b = jnp.array(fll(c["a"])), jnp.array(fll(c["b"]))
    mg = lanczos._welford_merge(lanczos._welford_from_samples(a), lanczos._welford_from_samples(b))
    dr = lanczos._welford_from_samples(jnp.concatenate([a, b]))
    ini = lanczos._welford_merge(lanczos._welford_init(a.dtype), lanczos._welford_from_samples(a))
    return [float(x) for x in mg], [float(x) for x in dr], [float(x) for x in ini], \
        [float(x) for x in lanczos._welford_from_samples(a)]


def _oracle_welford(c):
    r = safe(_real_welford, c)
    if is_err(r):
        return (f"welford raised {r['error']}", dict(sub="welford", what="error", error=r["error"]))
    mg, dr, ini, sa = r
    if not (allclose(mg, dr, 1.0, 1e-12) and allclose(ini, sa, 1.0, 1e-12)):
        return (f"_welford_merge {mg} differs from the summary of the concatenated sample {dr}",
                dict(sub="welford", what="merge"))
    return None


def shrink(case):
    if case["sub"] == "elbo":
        if case["n_samples"] > 1:
            yield dict(case, n_samples=1)
        if any(fr(x) != 0 for x in case["shift"]):
            yield dict(case, shift=["0"] * case["n"])
        if case["m"] > 1:
            yield dict(case, m=case["m"] - 1, R=case["R"][:-1], Sdiag=case["Sdiag"][:-1], Ndiag=case["Ndiag"][:-1],
                       d=case["d"][:-1])


# ------------------------------------------------------------------------------------------------ run
def run(ctx):
    rng = ctx.rng
    lz = [gen_lanczos(rng, ctx.quick) for _ in range(ctx.n(5, 100))]
    sq = [gen_slq(rng, ctx.quick) for _ in range(ctx.n(3, 40))]
    el = [gen_elbo(rng, ctx.quick, mode=md) for md in ("wide", "square", "tall")]      # fewer / as many / more data than dofs
    el += [gen_elbo(rng, ctx.quick) for _ in range(ctx.n(0, 20))]
    wf = [dict(sub="welford", a=[rs(dyadic(rng, -4, 4, 2)) for _ in range(rng.randint(1, 5))],
               b=[rs(dyadic(rng, -4, 4, 2)) for _ in range(rng.randint(1, 5))]) for _ in range(ctx.n(6, 80))]
    bt = [dict(sub="batches", n_eig=rng.randint(1, 12), n_batches=rng.randint(1, 5), skip=0) for _ in range(ctx.n(6, 80))]
    for b in bt:
        b["skip"] = rng.randint(0, b["n_eig"])
    lines = [dict(op="lanczos", A=c["A"], v=c["v"], order=c["order"]) for c in lz]
    lines += [dict(op="welford", a=c["a"], b=c["b"]) for c in wf]
    lines += [dict(op="batches", n_eig=c["n_eig"], n_batches=c["n_batches"], skip=c["skip"]) for c in bt]
    lines += [dict(op="elbo", R=c["R"], Ndiag=c["Ndiag"], Sdiag=c["Sdiag"], d=c["d"], n=c["n"]) for c in el]
    outs = iter(ctx.model(DRIVER, lines))
    for c in lz:
        m = next(outs)
        ctx.case(c, c["n"] >= 2)
        ctx.stat(f"lanczos:n={c['n']},order={'n' if c['order'] == c['n'] else '<n'}")
        res = oracle(c)
        if res is not None:
            ctx.counterexample(c, *res)
        r = real_lanczos(c)
        if is_err(r) or is_err(m):
            if not (is_err(r) and is_err(m)):
                ctx.disagree(c, r if is_err(r) else "value", m, "lanczos error behaviour")
            continue
        al, be = [float(fr(x)) for x in m["alpha"]], [float(fr(x)) for x in m["beta"]]
        sc = max(1.0, max(abs(x) for x in al))
        if min([abs(b) for b in be[:-1]], default=1.0) < 1e-6 * sc:
            ctx.skipped_near_threshold += 1
            continue
        T = r["T"]
        ok = allclose(np.diag(T), al, sc, 1e-7) and (c["order"] == 1 or allclose(np.diag(T, 1), be[:-1], sc, 1e-7))
        if not ok:
            ctx.disagree(c, dict(alpha=np.diag(T).tolist(), beta=np.diag(T, 1).tolist()), dict(alpha=al, beta=be),
                         "class T: lanczos_tridiag vs the model's three-term recurrence in ℚ")
    for c in sq:
        ctx.case(c, c["n"] >= 2)
        ctx.stat(f"slq:n={c['n']},probes={c['n_samples']},{'callable' if c['callable'] else 'matrix'}")
        res = oracle(c)
        if res is not None:
            ctx.counterexample(c, *res)
    for c in wf:
        m = next(outs)
        ctx.case(c, True)
        ctx.stat("welford")
        res = oracle(c)
        if res is not None:
            ctx.counterexample(c, *res)
        r = safe(_real_welford, c)
        if m["merged"] != m["direct"]:
            ctx.broke("correspondence", "model welford", f"{m}")
        if not is_err(r):
            mm = [float(fr(m["merged"][k])) for k in ("mean", "m2", "n")]
            if not allclose(r[0], mm, 1.0, 1e-12):
                ctx.disagree(c, r[0], mm, "class T: _welford_merge vs model")
    _batches(ctx, bt, outs)
    for c in el:
        m = next(outs)
        ctx.case(c, c["n"] >= 2)
        ctx.stat(f"elbo:n={c['n']},m={c['m']},shift={'yes' if any(fr(x) != 0 for x in c['shift']) else 'no'}")
        res = oracle(c)
        if res is not None:
            ctx.counterexample(c, *res)
        r = real_elbo(c)
        if is_err(m):
            ctx.broke("correspondence", "model elbo", f"{m}")
            continue
        if not m["dets_equal"]:
            ctx.broke("correspondence", "model sylvester", "signal/data determinants differ in exact arithmetic")
        if is_err(r):
            ctx.disagree(c, r, "value", "elbo raised")
            continue
        # model: closed-form ELBO from its exact logdet and the recorded sample energies; log-evidence
        logdet, logev = float(fr(m["logdet"])), float(fr(m["log_evidence"]))
        closed = -0.5 * logdet + c["n"] / 2 - float(np.mean(r["H"]))
        D, mean, Hm = _np_model(c)
        shift = r["pos"] - np.array([float(fr(x)) for x in m["mean"]])
        expected = r["elbo_mean"] + float(np.mean([0.5 * x @ D @ x for x in r["res"]])) - c["n"] / 2
        sc = max(1.0, abs(closed))
        if not (abs(r["elbo_mean"] - closed) <= 1e-9 * sc and expected <= logev + 1e-8 * sc
                and abs(expected - (logev - 0.5 * shift @ D @ shift)) <= 1e-8 * sc):
            ctx.disagree(c, dict(elbo=r["elbo_mean"], expected=expected), dict(closed=closed, log_evidence=logev),
                         "class T: ELBO vs the model's closed form / log-evidence")


def _batches(ctx, bt, outs):
    """the real `_eigsh` batch plan, observed through a recording stand-in for scipy's eigsh"""
    import scipy.sparse.linalg as ssl
    jax_setup()
    from nifty.re import evidence_lower_bound as elb
    for c in bt:
        m = next(outs)
        ctx.case(c, True)
        ctx.stat("batches")
        n = c["n_eig"] + 2
        evals = np.arange(n, 0, -1, dtype=float) + 1.0
        A = np.diag(evals)
        asked = []
        orig = elb.ssl.eigsh

        def rec(op, k, **kw):
            asked.append(int(k))
            return orig(op, k=k, **kw)

        def go():
            elb.ssl.eigsh = rec
            try:
                linop = ssl.aslinearoperator(A)
                sk = c["skip"]
                kw = {}
                if sk:
                    kw = dict(resume_eigenvalues=evals[:sk], resume_eigenvectors=np.eye(n)[:, :sk])
                ev, _ = elb._eigsh(linop, n, c["n_eig"], tot_dofs=n, min_lh_eval=0.0, n_batches=c["n_batches"],
                                   early_stop=False, verbose=False, output_directory=None, **kw)
                return list(np.asarray(ev, dtype=float))
            finally:
                elb.ssl.eigsh = orig
        r = safe(go)
        if is_err(r):
            ctx.disagree(c, r, m, "_eigsh raised")
            continue
        if asked != m["resumed"]:
            ctx.disagree(c, dict(batches=asked), dict(batches=m["resumed"]), "class E: _eigsh batch plan vs resumeBatches")
        if not allclose(r, evals[:c["n_eig"]], 1.0, 1e-8):
            ctx.counterexample(c, f"_eigsh resumed with {c['skip']} eigenpairs returns {r}, expected the prefix ++ new list "
                               f"{evals[:c['n_eig']].tolist()}", dict(sub="batches", what="resume_concat"))


def search(ctx):
    rng = ctx.rng
    for _ in range(ctx.n(20, 100)):
        for g in (gen_lanczos, gen_slq, gen_elbo):
            c = g(rng, True)
            r = oracle(c)
            if r is not None:
                ctx.counterexample(c, *r)
                return
