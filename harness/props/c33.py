"""C33 — Pytree vector arithmetic and custom maps match flat-array semantics (DESIGN.md §5 C33, design.d/C33.md).

Correspondence (class E, integer leaves): generated nested dict/tuple/list pytrees; every operator overload of
`Vector` with tree/tree, scalar/tree, tree/scalar operands (plus a structure-mismatch stream), unary operators,
reductions (`sum/min/max/size/vdot/dot/norm` for ord 1, 2, inf), `where`; and `smap`/`lmap` on generated functions and
axis specifications (ints, negative ints, `None` on inputs and outputs, pytree-valued `in_axes`) — compared with the
Lean model (Driver/C33.lean: `binaryOp`, `PTree.map`, reductions, `whereOp`, `smap`, `vmapSpec`).
Oracle (real code only): the result of every operation equals the same NumPy operation on the concatenated flat
arrays; `smap(f)(...)` and `lmap(f)(...)` equal `jax.vmap(f)(...)`.
"""
import glob
import json
import operator
import os

import warnings

import numpy as np

from core.ctx import VERIF

warnings.filterwarnings("ignore", message=".*nifty.re.dot.*")

ID = "C33"
LEAN_MODULES = ["NiftyVerif.Core.Proto", "NiftyVerif.Props.C33"]
DRIVER = "Driver/C33.lean"
OBLIGATIONS = ["NiftyVerif.C33." + t for t in (
    "flatten_map₂", "binary_flat", "flatten_broadcast_scalar", "unary_flat", "size_flat", "sum_flat", "max_flat",
    "min_flat", "vdot_flat", "mean_flat", "vdot_flat_complex", "sum_flat_complex", "where_flat", "norm_flat_1", "norm_flat_inf", "norm_flat_2", "slices_moveaxis", "stack_moveaxis",
    "reord_inverse", "smap_eq_vmap", "asFound_none_returns_input", "lscan_eq_scan")]
RULE = ("pytrees: nested dict/tuple/list, depth<=3, 1-6 leaves of shape () .. 3-D with integer entries; operators: all "
        "binary/unary overloads of Vector with tree/tree, scalar/tree, tree/scalar and mismatching operands; reductions; where; "
        "smap/lmap: 1-4 argument leaves (flat or nested, pytree-valued in_axes), axes int / negative / None, 1-3 outputs with "
        "out_axes int / negative / None; non-trivial = at least two leaves (operators) resp. a mapped axis != 0 or a None "
        "entry (maps); distinct by canonical case")
TRUSTED_BASE = ["Lean 4.33 kernel; axioms propext/Classical.choice/Quot.sound only (audited every run)",
                "Model/Pytree.lean, Model/Smap.lean are hand-written; tied by exact differential comparison on integer "
                "leaves; jax.tree_util flattening order (sorted dict keys) and jnp entry-wise operators are executed, not proved",
                "jax.vmap is the reference for the maps (vmapSpec in the model is its specification)"]
ASSUMPTIONS = ["integer leaves (class E); norm(ord=2) compared through its square with relative tolerance 1e-12 (class T)",
               "complex leaves are Gaussian integers (exact in complex128) and are sent to the model (GInt)"]

BINOPS = {"add": operator.add, "sub": operator.sub, "mul": operator.mul, "floordiv": operator.floordiv,
          "mod": operator.mod, "pow": operator.pow, "lshift": operator.lshift, "rshift": operator.rshift,
          "lt": operator.lt, "le": operator.le, "eq": operator.eq, "ne": operator.ne, "ge": operator.ge, "gt": operator.gt,
          "and": operator.and_, "or": operator.or_, "xor": operator.xor,
          "truediv": operator.truediv,
          "divmod": divmod}                     # (v // w, v % w): oracle only, compared part by part          # float result: oracle only, class T (XLA may multiply by a reciprocal)
UNOPS = {"neg": operator.neg, "pos": operator.pos, "abs": operator.abs, "invert": operator.invert,
         "conj": lambda v: v.conj(), "real": lambda v: v.real, "imag": lambda v: v.imag}


def _jax():
    import jax
    jax.config.update("jax_enable_x64", True)
    # optional persistent XLA cache (pure speed-up; content-addressed)
    try:
        d = os.path.join(os.environ.get("TMPDIR", "/tmp"), "nifty_verif_jaxcache")
        os.makedirs(d, exist_ok=True)
        jax.config.update("jax_compilation_cache_dir", d)
        jax.config.update("jax_persistent_cache_min_compile_time_secs", 0.0)
        jax.config.update("jax_persistent_cache_min_entry_size_bytes", 0)
    except Exception:
        pass
    return jax


# ---- pytrees <-> JSON -----------------------------------------------------------------------------------------------
def to_py(t, dtype=np.int64):
    """JSON tree -> python pytree of jnp arrays"""
    import jax.numpy as jnp
    if "leaf" in t:
        sh, vals = t["leaf"]
        return jnp.asarray(np.array(vals, dtype=dtype).reshape(sh))
    tag, cs = t["node"]
    kids = [to_py(c, dtype) for c in cs]
    if tag.startswith("dict:"):
        keys = tag[5:].split(",") if tag[5:] else []
        return dict(zip(keys, kids))
    if tag == "tuple":
        return tuple(kids)
    return list(kids)


def from_py(p):
    """python pytree (result of the real code) -> JSON tree with integer entries (bools -> 0/1)"""
    from nifty.re.tree_math.vector import Vector
    if isinstance(p, Vector):
        return from_py(p.tree)
    if isinstance(p, dict):
        ks = sorted(p.keys())
        return {"node": ["dict:" + ",".join(ks), [from_py(p[k]) for k in ks]]}
    if isinstance(p, tuple):
        return {"node": ["tuple", [from_py(c) for c in p]]}
    if isinstance(p, list):
        return {"node": ["list", [from_py(c) for c in p]]}
    a = np.asarray(p)
    return {"leaf": [list(a.shape), _ints(a)]}


def _ints(a):
    a = np.asarray(a)
    out = []
    for v in a.reshape(-1):
        if isinstance(v, (bool, np.bool_)):
            out.append(int(v))
        elif np.iscomplexobj(v):
            out.append(repr(complex(v)))
        else:
            fv = float(v)
            out.append(int(fv) if fv == int(fv) and abs(fv) < 2 ** 62 else repr(fv))
    return out


def flat(p):
    """the concatenated flat array of a python pytree"""
    from jax.tree_util import tree_leaves
    lv = [np.asarray(x).reshape(-1) for x in tree_leaves(p)]
    return np.concatenate(lv) if lv else np.zeros(0)


# ---- generators --------------------------------------------------------------------------------------------------
def gen_shape(rng):
    return rng.choice([[], [1], [2], [3], [2, 2], [3, 2], [2, 1, 2], [4]])


def gen_tree(rng, depth, lo=-9, hi=9, nonzero=False, nonempty=True):
    def leaf():
        sh = gen_shape(rng)
        n = int(np.prod(sh)) if sh else 1
        vals = []
        for _ in range(n):
            v = rng.randint(lo, hi)
            while nonzero and v == 0:
                v = rng.randint(lo, hi)
            vals.append(v)
        return {"leaf": [sh, vals]}
    if depth == 0 or rng.random() < 0.3:
        return leaf()
    kind = rng.choice(["dict", "dict", "tuple", "list"])
    n = rng.randint(1, 3)
    kids = [gen_tree(rng, depth - 1, lo, hi, nonzero) for _ in range(n)]
    if kind == "dict":
        keys = sorted(rng.sample(["a", "b", "c", "d", "x1", "k"], n))
        return {"node": ["dict:" + ",".join(keys), kids]}
    return {"node": [kind, kids]}


def same_struct(rng, t, lo=-9, hi=9, nonzero=False):
    if "leaf" in t:
        sh, vals = t["leaf"]
        out = []
        for _ in vals:
            v = rng.randint(lo, hi)
            while nonzero and v == 0:
                v = rng.randint(lo, hi)
            out.append(v)
        return {"leaf": [sh, out]}
    tag, cs = t["node"]
    return {"node": [tag, [same_struct(rng, c, lo, hi, nonzero) for c in cs]]}


def mutate_struct(rng, t):
    """a container-level mismatch (keys / arity / container type); leaf shapes are left alone"""
    if "leaf" in t:
        return {"node": ["tuple", [t]]}
    tag, cs = t["node"]
    r = rng.random()
    if r < 0.3 and tag.startswith("dict:"):
        keys = tag[5:].split(",")
        keys[-1] = keys[-1] + "z"
        return {"node": ["dict:" + ",".join(sorted(keys)), cs]}
    if r < 0.6 and tag in ("tuple", "list"):
        return {"node": ["list" if tag == "tuple" else "tuple", cs]}
    if r < 0.8 and tag in ("tuple", "list"):
        return {"node": [tag, cs + [cs[0]]]}
    return {"node": [tag, [mutate_struct(rng, cs[0])] + cs[1:]]}


def num_leaves(t):
    return 1 if "leaf" in t else sum(num_leaves(c) for c in t["node"][1])


def operand_ranges(f):
    """value ranges that keep every operation exact and defined (no division by zero, small shifts / exponents)"""
    if f in ("floordiv", "mod", "truediv", "divmod"):
        return dict(lo=-9, hi=9), dict(lo=-5, hi=5, nonzero=True)
    if f == "pow":
        return dict(lo=-4, hi=4), dict(lo=0, hi=3)
    if f in ("lshift", "rshift"):
        return dict(lo=-20, hi=20), dict(lo=0, hi=4)
    if f in ("and", "or", "xor"):
        return dict(lo=0, hi=1), dict(lo=0, hi=1)
    return dict(lo=-9, hi=9), dict(lo=-9, hi=9)


def gen_binop(rng):
    f = rng.choice(list(BINOPS))
    ra, rb = operand_ranges(f)
    mode = rng.choice(["tt", "tt", "tt", "st", "ts", "mismatch"])
    a = gen_tree(rng, rng.choice([1, 2, 3]), **ra)
    if mode == "tt":
        return dict(op="binop", f=f, lhs={"tree": a}, rhs={"tree": same_struct(rng, a, **rb)})
    if mode == "mismatch":
        b = mutate_struct(rng, same_struct(rng, a, **rb))
        return dict(op="binop", f=f, lhs={"tree": a}, rhs={"tree": b})
    sc = rng.randint(rb["lo"], rb["hi"])
    if mode == "ts":
        while rb.get("nonzero") and sc == 0:
            sc = rng.randint(rb["lo"], rb["hi"])
        return dict(op="binop", f=f, lhs={"tree": a}, rhs={"scalar": sc}, how=rng.randrange(2))
    b = same_struct(rng, a, **rb)
    sa = rng.randint(ra["lo"], ra["hi"])
    return dict(op="binop", f=f, lhs={"scalar": sa}, rhs={"tree": b}, how=rng.randrange(2))


# ---- real side: operators ------------------------------------------------------------------------------------------
def _operand(o, boolean):
    import jax.numpy as jnp
    from nifty.re.tree_math.vector import Vector
    dt = np.bool_ if boolean else np.int64
    if "scalar" in o:
        return bool(o["scalar"]) if boolean else int(o["scalar"])
    return Vector(to_py(o["tree"], dt))


def real_binop(case):
    import jax.numpy as jnp
    boolean = case["f"] in ("and", "or", "xor")
    a, b = _operand(case["lhs"], boolean), _operand(case["rhs"], boolean)
    if case.get("how") == 1:       # 0-d array instead of a python scalar
        if "scalar" in case["lhs"]:
            a = jnp.asarray(a)
        if "scalar" in case["rhs"]:
            b = jnp.asarray(b)
    try:
        r = BINOPS[case["f"]](a, b)
    except Exception as e:
        return {"error": type(e).__name__}, None
    return {"tree": from_py(r)}, r


def flat_expect_binop(case):
    """NumPy on the concatenated flat arrays"""
    boolean = case["f"] in ("and", "or", "xor")
    dt = np.bool_ if boolean else np.int64

    def fl(o):
        if "scalar" in o:
            return dt(o["scalar"])
        return flat(to_py(o["tree"], dt))
    return np.asarray(BINOPS[case["f"]](fl(case["lhs"]), fl(case["rhs"])))


def oracle_binop(case):
    if case["f"] == "divmod":
        # divmod(a, b) == (a // b, a % b), each with flat semantics
        for part, f2 in enumerate(("floordiv", "mod")):
            boolean = False
            a, b = _operand(case["lhs"], boolean), _operand(case["rhs"], boolean)
            try:
                got = divmod(a, b)[part]
            except Exception as e:
                same = not ("tree" in case["lhs"] and "tree" in case["rhs"]) or \
                    json.dumps(_struct(case["lhs"]["tree"])) == json.dumps(_struct(case["rhs"]["tree"]))
                return (f"divmod raised {type(e).__name__} on compatible operands", dict(op="binop", f="divmod", what="raised")) if same else None
            exp = flat_expect_binop(dict(case, f=f2))
            if not np.array_equal(flat(got), exp):
                return ("divmod(v, w) differs from (v // w, v % w) on the flat arrays", dict(op="binop", f="divmod", what="value"))
        return None
    res, r = real_binop(case)
    if r is None:
        # an error is only acceptable when the operands really differ in structure
        if "tree" in case["lhs"] and "tree" in case["rhs"]:
            if json.dumps(_struct(case["lhs"]["tree"])) != json.dumps(_struct(case["rhs"]["tree"])):
                return None
        return (f"Vector operator {case['f']} raised {res['error']} on compatible operands",
                dict(op="binop", f=case["f"], what="raised"))
    if "tree" in case["lhs"] and "tree" in case["rhs"] and \
            json.dumps(_struct(case["lhs"]["tree"])) != json.dumps(_struct(case["rhs"]["tree"])):
        return (f"Vector operator {case['f']} accepted operands of different structure", dict(op="binop", f=case["f"], what="accepted"))
    exp = flat_expect_binop(case)
    got = flat(r)
    if case["f"] == "truediv":
        # class T: XLA strength-reduces a division by a constant to a multiplication by the reciprocal (1 ulp off NumPy)
        same = got.shape == exp.shape and np.allclose(got, exp, rtol=1e-13, atol=0)
    else:
        same = got.shape == exp.shape and np.array_equal(got, exp)
    if not same:
        return (f"Vector operator {case['f']}: result differs from the operation on the concatenated flat arrays",
                dict(op="binop", f=case["f"], what="value"))
    return None


def _struct(t):
    if "leaf" in t:
        return {"leaf": t["leaf"][0]}
    return {"node": [t["node"][0], [_struct(c) for c in t["node"][1]]]}


def real_unary(case):
    from nifty.re.tree_math.vector import Vector
    v = Vector(to_py(case["x"]))
    try:
        r = UNOPS[case["f"]](v)
    except Exception as e:
        return {"error": type(e).__name__}, None
    return {"tree": from_py(r)}, r


def oracle_unary(case):
    res, r = real_unary(case)
    if r is None:
        return (f"Vector.{case['f']} raised {res['error']}", dict(op="unary", f=case["f"], what="raised"))
    x = flat(to_py(case["x"]))
    exp = {"neg": -x, "pos": x, "abs": np.abs(x), "invert": ~x, "conj": np.conj(x), "real": np.real(x), "imag": np.imag(x)}[case["f"]]
    if not np.array_equal(flat(r), exp):
        return (f"Vector.{case['f']} differs from the flat-array operation", dict(op="unary", f=case["f"], what="value"))
    return None


def real_reduce(case):
    import nifty.re as jft
    from nifty.re.tree_math.vector import Vector
    t = to_py(case["x"])
    v = Vector(t)
    use_vec = case.get("how", 0) == 1
    x = v if use_vec else t
    out = {}

    def put(k, fn, conv=int):
        try:
            out[k] = conv(fn())
        except Exception as e:
            out[k] = {"error": type(e).__name__}
    put("size", lambda: (len(v) if use_vec else jft.size(x)))
    put("sum", lambda: (v.sum() if use_vec else jft.sum(x)))
    put("max", lambda: (v.max() if use_vec else jft.max(x)))
    put("min", lambda: (v.min() if use_vec else jft.min(x)))
    put("norm1", lambda: jft.norm(x, ord=1), lambda z: int(round(float(z))) if float(z) == round(float(z)) else float(z))
    put("normInf", lambda: jft.norm(x, ord=np.inf), lambda z: int(round(float(z))) if float(z) == round(float(z)) else float(z))
    put("norm2", lambda: jft.norm(x, ord=2), float)
    out["flat"] = _ints(flat(t))
    return out


def oracle_reduce(case):
    import nifty.re as jft
    r = real_reduce(case)
    x = flat(to_py(case["x"]))
    sig = dict(op="reduce")
    if isinstance(r["size"], dict) or r["size"] != x.size:
        return ("size(tree) differs from the length of the flat array", dict(sig, what="size"))
    exp = dict(sum=int(x.sum()), norm1=int(np.abs(x).sum()))
    if x.size:
        exp.update(max=int(x.max()), min=int(x.min()), normInf=int(np.abs(x).max()))
    for k, v in exp.items():
        if r[k] != v:
            return (f"{k}(tree) = {r[k]} differs from the flat-array value {v}", dict(sig, what=k))
    # any / all / shape / Vector.size / Vector.shape: structure helpers with flat semantics
    from nifty.re.tree_math.vector import Vector
    t = to_py(case["x"])
    try:
        extra = dict(any=bool(jft.any(t)), all=bool(jft.all(t)), shape=tuple(jft.shape(t)), vsize=Vector(t).size, vshape=Vector(t).shape)
    except Exception as e:
        return (f"any/all/shape raised {type(e).__name__}", dict(sig, what="helpers-raised"))
    want = dict(any=bool(x.any()), all=bool(x.all()) if x.size else True, shape=(x.size,), vsize=x.size, vshape=(x.size,))
    if x.size:
        for k_, v_ in want.items():
            if extra[k_] != v_:
                return (f"{k_}(tree) = {extra[k_]} differs from the flat-array value {v_}", dict(sig, what=k_))
    n2 = float(np.sqrt(float((x.astype(np.int64) ** 2).sum())))
    if isinstance(r["norm2"], dict) or abs(r["norm2"] - n2) > 1e-12 * (1 + n2):
        return (f"norm(tree, 2) = {r['norm2']} differs from the flat-array value {n2}", dict(sig, what="norm2"))
    return None


def real_vdot(case):
    import nifty.re as jft
    from nifty.re.tree_math.vector import Vector
    a, b = to_py(case["a"]), to_py(case["b"])
    how = case.get("how", 0)
    try:
        if how == 1:
            import warnings
            with warnings.catch_warnings(record=True):
                warnings.simplefilter("ignore")
                r = jft.dot(a, b)
        elif how == 2:
            import warnings
            with warnings.catch_warnings(record=True):
                warnings.simplefilter("ignore")
                r = Vector(a) @ Vector(b)
        else:
            r = jft.vdot(a, b)
        fr = float(r)
        return int(fr) if fr == int(fr) else fr
    except Exception as e:
        return {"error": type(e).__name__}


def oracle_vdot(case):
    r = real_vdot(case)
    same = json.dumps(_struct(case["a"])) == json.dumps(_struct(case["b"]))
    if isinstance(r, dict):
        return None if not same else ("vdot raised on equally structured trees", dict(op="vdot", what="raised"))
    if not same:
        return ("vdot accepted trees of different structure", dict(op="vdot", what="accepted"))
    exp = int(np.vdot(flat(to_py(case["a"])), flat(to_py(case["b"]))))
    if r != exp:
        return (f"vdot = {r} differs from the flat-array value {exp}", dict(op="vdot", what="value"))
    return None


def real_where(case):
    import nifty.re as jft
    from nifty.re.tree_math.vector import Vector

    def opd(o, boolean=False):
        if "scalar" in o:
            return bool(o["scalar"]) if boolean else int(o["scalar"])
        t = to_py(o["tree"], np.bool_ if boolean else np.int64)
        return Vector(t) if case.get("how", 0) == 1 else t
    try:
        r = jft.where(opd(case["c"], True), opd(case["x"]), opd(case["y"]))
    except Exception as e:
        return {"error": type(e).__name__}, None
    return {"tree": from_py(r)}, r


def oracle_where(case):
    res, r = real_where(case)
    if r is None:
        return None      # broadcasting failures are compared with the model, the flat semantics says nothing about them

    def fl(o, n, boolean=False):
        if "scalar" in o:
            return np.full(n, bool(o["scalar"]) if boolean else int(o["scalar"]))
        return flat(to_py(o["tree"], np.bool_ if boolean else np.int64))
    n = flat(r).size
    exp = np.where(fl(case["c"], n, True), fl(case["x"], n), fl(case["y"], n))
    if not np.array_equal(flat(r), exp):
        return ("where(c, x, y) differs from np.where on the concatenated flat arrays", dict(op="where", what="value"))
    return None


def gen_where(rng):
    base = gen_tree(rng, rng.choice([1, 2]))
    c = {"tree": same_struct(rng, base, 0, 1)}
    x = {"tree": same_struct(rng, base)}
    y = {"tree": same_struct(rng, base)}
    r = rng.random()
    if r < 0.25:
        x = {"scalar": rng.randint(-9, 9)}
    elif r < 0.5:
        y = {"scalar": rng.randint(-9, 9)}
    elif r < 0.6:
        x = {"scalar": rng.randint(-9, 9)}
        y = {"scalar": rng.randint(-9, 9)}
    elif r < 0.7:
        c = {"scalar": rng.randint(0, 1)}
    if "leaf" in base:
        # a bare array is a one-node tree: keep all three operands trees (broadcasting of bare arrays is not modelled)
        c, x, y = {"tree": same_struct(rng, base, 0, 1)}, {"tree": same_struct(rng, base)}, {"tree": same_struct(rng, base)}
    return dict(op="where", c=c, x=x, y=y, how=rng.randrange(2))


# ---- sequential maps ------------------------------------------------------------------------------------------------
def gen_smap(rng):
    L = rng.choice([1, 2, 3, 4])
    nargs = rng.choice([1, 2, 2, 3, 4])
    args = []
    mapped_any = False
    for j in range(nargs):
        mapped = rng.random() < 0.65 or (j == nargs - 1 and not mapped_any)
        if mapped:
            nd = rng.choice([1, 2, 2, 3])
            ax = rng.randrange(nd)
            shape = [rng.choice([1, 2, 3]) for _ in range(nd)]
            shape[ax] = L
            mapped_any = True
            axis = ax if rng.random() < 0.6 else ax - nd
        else:
            shape = rng.choice([[], [], [2], [2, 3]])
            axis = None
        n = int(np.prod(shape)) if shape else 1
        args.append(dict(shape=shape, vals=[rng.randint(-5, 5) for _ in range(n)], axis=axis))

    def slice_shape(a):
        if a["axis"] is None:
            return list(a["shape"])
        ax = a["axis"] % len(a["shape"])
        return a["shape"][:ax] + a["shape"][ax + 1:]
    sshape = [slice_shape(a) for a in args]
    outs = []
    for _ in range(rng.choice([1, 2, 2, 3])):
        r = rng.random()
        j = rng.randrange(nargs)
        if r < 0.3:
            e, shp, batched = ["arg", j], sshape[j], args[j]["axis"] is not None
        elif r < 0.45:
            e, shp, batched = ["const", rng.randint(-9, 9)], [], False
        elif r < 0.6:
            e, shp, batched = ["sumall", ["arg", j]], [], args[j]["axis"] is not None
        elif r < 0.8:
            e, shp, batched = ["add", ["arg", j], ["const", rng.randint(-3, 3)]], sshape[j], args[j]["axis"] is not None
        else:
            ks = [k for k in range(nargs) if sshape[k] == [] or sshape[k] == sshape[j]]
            k = rng.choice(ks)
            shp = sshape[j] if sshape[j] != [] else sshape[k]
            e, batched = ["mul", ["arg", j], ["arg", k]], (args[j]["axis"] is not None or args[k]["axis"] is not None)
        nd_out = len(shp) + 1
        if not batched and rng.random() < 0.6:
            axis = None
        else:
            o = rng.randrange(nd_out)
            axis = o if rng.random() < 0.6 else o - nd_out
        outs.append(dict(expr=e, axis=axis, ndim=nd_out))
    # how the flat argument leaves are grouped into positional arguments (pytree-valued in_axes)
    group = rng.choice(["flat", "flat", "nested", "dict"])
    case = dict(op="smap", args=args, outs=outs, len=L, group=group, int_axes=rng.random() < 0.25, jit=rng.random() < 0.3,
                unroll=rng.choice([1, 1, 1, 2, 3]))
    if case["int_axes"] and rng.random() < 0.6:
        # make an integer specification possible: every argument mapped along the same axis, every output along the same axis
        k_ = rng.choice([0, 1, -1])
        for a in case["args"]:
            nd = rng.choice([2, 3])
            shape = [rng.choice([1, 2, 3]) for _ in range(nd)]
            shape[k_] = L
            a.update(shape=shape, vals=[rng.randint(-5, 5) for _ in range(int(np.prod(shape)))], axis=k_)
        j_ = rng.randrange(len(case["args"]))
        sh = list(case["args"][j_]["shape"])
        del sh[k_ % len(sh)]
        case["outs"] = [dict(expr=["arg", j_], axis=rng.choice([0, 1, -1]), ndim=len(sh) + 1)]
        case["group"] = "flat"
    return case


def _eval_expr(e, leaves):
    import jax.numpy as jnp
    k = e[0]
    if k == "arg":
        return leaves[e[1]]
    if k == "const":
        return jnp.asarray(e[1], dtype=jnp.int64)
    if k == "sumall":
        return jnp.sum(_eval_expr(e[1], leaves))
    a, b = _eval_expr(e[1], leaves), _eval_expr(e[2], leaves)
    return a + b if k == "add" else a * b


def build_smap_call(case):
    """-> (f, positional args, in_axes, out_axes)"""
    import jax.numpy as jnp
    from jax.tree_util import tree_leaves
    arrs = [jnp.asarray(np.array(a["vals"], dtype=np.int64).reshape(a["shape"])) for a in case["args"]]
    axes = [a["axis"] for a in case["args"]]
    if case["group"] == "nested" and len(arrs) >= 2:
        # first positional argument: a tuple of the first two leaves (pytree-valued in_axes entry); the rest positional.
        pos = [(arrs[0], arrs[1])] + arrs[2:]
        in_axes = tuple([(axes[0], axes[1])] + axes[2:])
    elif case["group"] == "dict" and len(arrs) >= 2:
        # dict-valued in_axes entry (jax.vmap and lmap accept it; smap must too)
        pos = [{"p": arrs[0], "q": arrs[1]}] + arrs[2:]
        in_axes = tuple([{"p": axes[0], "q": axes[1]}] + axes[2:])
    else:
        pos = list(arrs)
        in_axes = tuple(axes)
    outs = case["outs"]

    def f(*xs):
        lv = tree_leaves(xs)
        return tuple(_eval_expr(o["expr"], lv) for o in outs)
    out_axes = tuple(o["axis"] for o in outs)
    if case.get("int_axes") and len(set(axes)) == 1 and axes[0] is not None and case["group"] == "flat":
        in_axes = axes[0]                  # one integer for all arguments
    if case.get("int_axes") and len(set(out_axes)) == 1 and out_axes[0] is not None:
        out_axes = out_axes[0]
    return f, pos, in_axes, out_axes


def _arr(a):
    a = np.asarray(a)
    return dict(shape=list(a.shape), vals=_ints(a))


def real_maps(case):
    jax = _jax()
    from nifty.re.custom_map import lmap, smap
    f, pos, in_axes, out_axes = build_smap_call(case)
    res = {}
    for name, m in (("smap", smap), ("lmap", lmap), ("vmap", jax.vmap)):
        try:
            kw = dict(unroll=case["unroll"]) if (name == "smap" and case.get("unroll", 1) != 1) else {}
            g = m(f, in_axes=in_axes, out_axes=out_axes, **kw)
            if case.get("jit"):
                g = jax.jit(g)          # the maps are used under an outer jit by optimize_kl (kl_map / residual_map)
            r = g(*pos)
            res[name] = [_arr(x) for x in r]
        except Exception as e:
            res[name] = {"error": type(e).__name__}
    return res


def oracle_smap(case):
    r = real_maps(case)
    if isinstance(r["vmap"], dict):
        return None          # jax.vmap itself rejects the specification: nothing to compare with
    none_out = any(o["axis"] is None for o in case["outs"])
    for name in ("smap", "lmap"):
        if r[name] != r["vmap"]:
            return (f"{name}(f, in_axes, out_axes) differs from jax.vmap(f, in_axes, out_axes)",
                    dict(op="smap", map=name, none_out=none_out, jit=bool(case.get("jit")),
                         what="raised" if isinstance(r[name], dict) else "value"))
    return None


# ---- complex leaves (Gaussian integers: exact in complex128): oracle only ------------------------------------------------
def _ctree(case, k):
    from jax.tree_util import tree_map
    re_, im_ = to_py(case[k], np.float64), to_py(case[k + "i"], np.float64)
    return tree_map(lambda x, y: x + 1j * y, re_, im_)


def oracle_cplx(case):
    import nifty.re as jft
    from nifty.re.tree_math.vector import Vector
    a, b = _ctree(case, "a"), _ctree(case, "b")
    fa, fb = flat(a), flat(b)
    sig = dict(op="cplx")
    try:
        v = complex(jft.vdot(a, b))
        if v != complex(np.vdot(fa, fb)):
            return (f"vdot of complex trees = {v}, flat arrays give {complex(np.vdot(fa, fb))} (first argument must be conjugated)",
                    dict(sig, what="vdot"))
        va = Vector(a)
        for nm, got, exp in (("conj", va.conj(), np.conj(fa)), ("real", va.real, fa.real), ("imag", va.imag, fa.imag),
                             ("conjugate", jft.conj(a), np.conj(fa)), ("neg", -va, -fa), ("mul", va * Vector(b), fa * fb),
                             ("sub", va - Vector(b), fa - fb), ("rsub", (2 + 1j) - va, (2 + 1j) - fa)):
            if not np.array_equal(flat(got), exp):
                return (f"Vector.{nm} on complex leaves differs from the flat-array operation", dict(sig, what=nm))
        n2 = float(jft.norm(a, ord=2))
        e2 = float(np.sqrt((np.abs(fa) ** 2).sum()))
        if abs(n2 - e2) > 1e-12 * (1 + e2):
            return (f"norm(complex tree, 2) = {n2}, flat arrays give {e2}", dict(sig, what="norm2"))
        n1 = float(jft.norm(a, ord=1))
        e1 = float(np.abs(fa).sum())
        if abs(n1 - e1) > 1e-12 * (1 + e1):
            return (f"norm(complex tree, 1) = {n1}, flat arrays give {e1}", dict(sig, what="norm1"))
        s_ = complex(jft.sum(a))
        if s_ != complex(fa.sum()):
            return ("sum of a complex tree differs from the flat sum", dict(sig, what="sum"))
    except Exception as e:
        return (f"tree_math raised {type(e).__name__} on complex leaves: {str(e)[:100]}", dict(sig, what="raised"))
    return None


def _ctree_json(case, k):
    """complex JSON tree with [re, im] leaves from the two integer trees of a cplx case"""
    def go(a, b):
        if "leaf" in a:
            return {"leaf": [a["leaf"][0], [[x, y] for x, y in zip(a["leaf"][1], b["leaf"][1])]]}
        return {"node": [a["node"][0], [go(x, y) for x, y in zip(a["node"][1], b["node"][1])]]}
    return go(case[k], case[k + "i"])


def _cfrom_py(p):
    from nifty.re.tree_math.vector import Vector
    if isinstance(p, Vector):
        return _cfrom_py(p.tree)
    if isinstance(p, dict):
        ks = sorted(p.keys())
        return {"node": ["dict:" + ",".join(ks), [_cfrom_py(p[k]) for k in ks]]}
    if isinstance(p, (tuple, list)):
        return {"node": ["tuple" if isinstance(p, tuple) else "list", [_cfrom_py(c) for c in p]]}
    a = np.asarray(p)
    flat_ = a.reshape(-1)
    return {"leaf": [list(a.shape), [[int(np.real(z)), int(np.imag(z))] if float(np.real(z)) == int(np.real(z)) and
                                     float(np.imag(z)) == int(np.imag(z)) else [repr(complex(z)), 0] for z in flat_]]}


def cplx_request(case):
    cop = case.get("cop", "cvdot")
    if cop == "cvdot":
        return dict(op="cvdot", a=_ctree_json(case, "a"), b=_ctree_json(case, "b"))
    if cop.startswith("bin:"):
        return dict(op="cbinop", f=cop[4:], lhs={"tree": _ctree_json(case, "a")}, rhs={"tree": _ctree_json(case, "b")})
    if cop.startswith("sbin:"):
        return dict(op="cbinop", f=cop[5:], lhs={"scalar": [2, 1]}, rhs={"tree": _ctree_json(case, "a")})
    return dict(op="cunary", f=cop[3:], x=_ctree_json(case, "a"))


def cplx_real(case):
    import nifty.re as jft
    from nifty.re.tree_math.vector import Vector
    a, b = _ctree(case, "a"), _ctree(case, "b")
    cop = case.get("cop", "cvdot")
    try:
        if cop == "cvdot":
            v, s_ = complex(jft.vdot(a, b)), complex(jft.sum(a))
            n2 = float(jft.norm(a, ord=2))
            return dict(vdot=[int(v.real), int(v.imag)], sum=[int(s_.real), int(s_.imag)], _norm2=n2)
        va, vb = Vector(a), Vector(b)
        if cop.startswith("bin:"):
            r = {"add": va + vb, "sub": va - vb, "mul": va * vb}[cop[4:]]
        elif cop.startswith("sbin:"):
            r = {"add": (2 + 1j) + va, "sub": (2 + 1j) - va, "mul": (2 + 1j) * va}[cop[5:]]
        else:
            r = {"neg": -va, "pos": +va, "conj": va.conj(), "real": va.real, "imag": va.imag}[cop[3:]]
        return {"tree": _cfrom_py(r)}
    except Exception as e:
        return {"error": type(e).__name__}


# ---- forests (tuples of equally structured trees): oracle only ---------------------------------------------------------------
def oracle_forest(case):
    import nifty.re as jft
    from nifty.re.tree_math import forest_math as fm
    from nifty.re.tree_math.vector import Vector
    trees = [to_py(t, np.float64) for t in case["trees"]]
    flats = np.stack([flat(t) for t in trees])
    sig = dict(op="forest")
    try:
        forest = tuple(Vector(t) for t in trees) if case.get("how") == 1 else tuple(trees)
        m = fm.mean(forest)
        if not np.allclose(flat(m), flats.mean(axis=0), rtol=1e-12, atol=1e-12):
            return ("mean(forest) differs from the mean of the flat arrays", dict(sig, what="mean"))
        if len(trees) > 1:
            m2, sd = fm.mean_and_std(forest, correct_bias=True)
            if not np.allclose(flat(m2), flats.mean(axis=0), rtol=1e-12, atol=1e-12) or \
                    not np.allclose(flat(sd), flats.std(axis=0, ddof=1), rtol=1e-9, atol=1e-9):
                return ("mean_and_std(forest) differs from the flat-array statistics", dict(sig, what="mean_and_std"))
        st = fm.stack(tuple(trees))
        back = fm.unstack(st)
        if len(back) != len(trees) or any(not np.array_equal(flat(a), flat(b)) for a, b in zip(back, trees)):
            return ("unstack(stack(forest)) is not the forest", dict(sig, what="stack-unstack"))
        if not np.array_equal(flat(jft.zeros_like(trees[0])), np.zeros(flats.shape[1])) or \
                not np.array_equal(flat(jft.ones_like(trees[0])), np.ones(flats.shape[1])):
            return ("zeros_like / ones_like differ from the flat arrays of zeros / ones", dict(sig, what="like"))
    except Exception as e:
        return (f"forest_math raised {type(e).__name__}: {str(e)[:100]}", dict(sig, what="raised"))
    return None


# ---- dispatch ---------------------------------------------------------------------------------------------------------
def oracle(case):
    _jax()
    k = case["op"]
    if k == "binop":
        return oracle_binop(case)
    if k == "unary":
        return oracle_unary(case)
    if k == "reduce":
        return oracle_reduce(case)
    if k == "vdot":
        return oracle_vdot(case)
    if k == "where":
        return oracle_where(case)
    if k == "smap":
        return oracle_smap(case)
    if k == "cplx":
        return oracle_cplx(case)
    if k == "forest":
        return oracle_forest(case)
    return None


def shrink(case):
    if case["op"] == "smap":
        if len(case["outs"]) > 1:
            for i in range(len(case["outs"])):
                yield dict(case, outs=case["outs"][:i] + case["outs"][i + 1:])
        if case.get("group") == "nested":
            yield dict(case, group="flat")
        return
    # operators: replace subtrees by their first child
    def cuts(t):
        if "node" in t:
            tag, cs = t["node"]
            for c in cs:
                yield c
            if len(cs) > 1 and not tag.startswith("dict:"):
                yield {"node": [tag, cs[:1]]}
    if case["op"] == "binop" and "tree" in case["lhs"] and "tree" in case["rhs"]:
        for a, b in zip(cuts(case["lhs"]["tree"]), cuts(case["rhs"]["tree"])):
            yield dict(case, lhs={"tree": a}, rhs={"tree": b})
    elif case["op"] in ("unary", "reduce"):
        for a in cuts(case["x"]):
            yield dict(case, x=a)


def _corpus():
    out = []
    for p in sorted(glob.glob(os.path.join(VERIF, "corpus", ID, "*.json"))):
        try:
            d = json.load(open(p))
            out.append(d.get("case", d))
        except Exception:
            pass
    return out


def model_request(case):
    if case["op"] == "smap":
        return dict(op="smap", cfg="fixed", args=case["args"], outs=case["outs"], len=case["len"])
    if case["op"] == "binop" and case["f"] in ("truediv", "divmod"):
        t = case["lhs"].get("tree") or case["rhs"].get("tree")
        return dict(op="reduce", x=t)                # float division is not modelled: placeholder request
    if case["op"] == "cplx":
        return cplx_request(case)
    if case["op"] == "forest":
        return dict(op="mean", trees=case["trees"])
    return {k: v for k, v in case.items() if k != "how"}


def run(ctx):
    _jax()
    rng = ctx.rng
    cases = _corpus()
    for _ in range(ctx.n(100, 1500)):
        cases.append(gen_binop(rng))
    for _ in range(ctx.n(30, 250)):
        cases.append(dict(op="unary", f=rng.choice(list(UNOPS)), x=gen_tree(rng, rng.choice([1, 2, 3]))))
    for _ in range(ctx.n(30, 250)):
        cases.append(dict(op="reduce", x=gen_tree(rng, rng.choice([0, 1, 2, 3])), how=rng.randrange(2)))
    for _ in range(ctx.n(30, 250)):
        a = gen_tree(rng, rng.choice([1, 2, 3]))
        b = same_struct(rng, a) if rng.random() < 0.85 else mutate_struct(rng, same_struct(rng, a))
        cases.append(dict(op="vdot", a=a, b=b, how=rng.randrange(3)))
    for _ in range(ctx.n(30, 250)):
        cases.append(gen_where(rng))
    for _ in range(ctx.n(24, 300)):
        cases.append(gen_smap(rng))
    for _ in range(ctx.n(25, 200)):
        a = gen_tree(rng, rng.choice([1, 2, 3]), -5, 5)
        cop = rng.choice(["cvdot", "cvdot", "bin:add", "bin:sub", "bin:mul", "sbin:sub", "sbin:mul", "un:conj", "un:real", "un:imag", "un:neg"])
        cases.append(dict(op="cplx", cop=cop, a=a, ai=same_struct(rng, a, -5, 5), b=same_struct(rng, a, -5, 5), bi=same_struct(rng, a, -5, 5)))
    for _ in range(ctx.n(20, 150)):
        a = gen_tree(rng, rng.choice([1, 2, 3]))
        cases.append(dict(op="forest", trees=[a] + [same_struct(rng, a) for _ in range(rng.randrange(0, 4))], how=rng.randrange(2)))
    outs = ctx.model(DRIVER, [model_request(c) for c in cases])
    for c, m in zip(cases, outs):
        k = c["op"]
        ctx.stat("op:" + k + (":" + c["f"] if "f" in c else ""))
        try:
            if k == "cplx":
                impl = cplx_real(c)
                n2 = impl.pop("_norm2", None)
                if n2 is not None and isinstance(m.get("norm2sq"), int):
                    if abs(n2 - m["norm2sq"] ** 0.5) > 1e-12 * (1 + m["norm2sq"] ** 0.5):
                        ctx.disagree(c, n2, m["norm2sq"], "C33 norm(complex tree, 2) vs sqrt of the model's sum |z|^2 (class T)")
                    m = {kk: m.get(kk) for kk in impl}
                ctx.compare(c, impl, m, note="C33 complex (Gaussian-integer) leaves: real tree_math vs Lean model",
                            nontrivial=num_leaves(c["a"]) >= 2)
                ctx.stat("cplx:" + c.get("cop", "cvdot"))
                r = oracle(c)
                if r:
                    ctx.counterexample(c, *r)
                continue
            if k in ("forest",):
                from nifty.re.tree_math import forest_math as fm
                from fractions import Fraction
                trees = [to_py(t, np.float64) for t in c["trees"]]
                got = flat(fm.mean(tuple(trees)))
                exp = [float(Fraction(x)) for x in m.get("flat", [])]
                ctx.case(c, num_leaves(c["trees"][0]) >= 2)
                if len(exp) != got.size or not np.allclose(got, exp, rtol=1e-13, atol=1e-13):
                    ctx.disagree(c, got.tolist(), m, "C33 forest mean vs exact rational mean of the model (class T)")
                r = oracle(c)
                if r:
                    ctx.counterexample(c, *r)
                continue
            if k == "binop" and c["f"] in ("truediv", "divmod"):
                ctx.case(c, True)
                r = oracle(c)
                if r:
                    ctx.counterexample(c, *r)
                continue
            if k == "binop":
                impl, _ = real_binop(c)
                if "error" in impl and impl["error"] in ("TypeError",):
                    impl = {"error": "ValueError"}
                mode = ("s" if "scalar" in c["lhs"] else "t") + ("s" if "scalar" in c["rhs"] else "t")
                ctx.stat("binop-operands:" + mode + (":error" if "error" in impl else ""))
                nontriv = num_leaves(c["lhs"].get("tree", c["rhs"].get("tree"))) >= 2
            elif k == "unary":
                impl, _ = real_unary(c)
                nontriv = num_leaves(c["x"]) >= 2
            elif k == "reduce":
                r = real_reduce(c)
                impl = {kk: r[kk] for kk in ("size", "sum", "max", "min", "norm1", "normInf", "flat")}
                for kk in ("sum", "max", "min"):
                    if isinstance(impl[kk], dict):
                        impl[kk] = {"error": "ValueError"}
                n2 = r["norm2"]
                msq = m.get("norm2sq")
                if isinstance(n2, float) and isinstance(msq, int) and abs(n2 - msq ** 0.5) > 1e-12 * (1 + msq ** 0.5):
                    ctx.disagree(c, n2, msq, "C33 norm(ord=2) vs sqrt of the model's sum of squares (class T)")
                m = {kk: m.get(kk) for kk in impl}
                nontriv = num_leaves(c["x"]) >= 2
            elif k == "vdot":
                impl = real_vdot(c)
                if isinstance(impl, dict):
                    impl = {"error": "ValueError"}
                nontriv = num_leaves(c["a"]) >= 2
            elif k == "where":
                impl, _ = real_where(c)
                if "error" in impl:
                    impl = {"error": "ValueError"}
                nontriv = True
            else:
                r = real_maps(c)
                for nm in ("smap", "lmap"):
                    ctx.compare(dict(c, map=nm), r[nm], m.get("smap"), note=f"C33 {nm} vs model smap (repaired out_axes=None)",
                                nontrivial=any(a["axis"] not in (0,) for a in c["args"]) or any(o["axis"] != 0 for o in c["outs"]))
                ctx.stat("smap:none-out" if any(o["axis"] is None for o in c["outs"]) else "smap:all-out-mapped")
                ctx.stat("smap:" + c["group"])
                ctx.stat("smap:jit" if c.get("jit") else "smap:eager")
                if any(a["axis"] is not None and a["axis"] < 0 for a in c["args"]):
                    ctx.stat("smap:negative-in-axis")
                impl, m = r["vmap"], m.get("vmap")
                if isinstance(impl, dict):
                    ctx.stat("smap:vmap-rejects:" + impl["error"])
                    ctx.case(c, False)
                    r2 = oracle(c)
                    if r2:
                        ctx.counterexample(c, *r2)
                    continue
                nontriv = True
            ctx.compare(c, impl, m, note=f"C33 {k}: real tree_math/custom_map vs Lean model", nontrivial=nontriv)
        except Exception as e:      # a crash of the real code on a generated case is a disagreement, not a harness failure
            ctx.compare(c, {"error": "harness:" + type(e).__name__ + ":" + str(e)[:80]}, m, note=f"C33 {k}: real code raised unexpectedly")
        r = oracle(c)
        if r:
            ctx.counterexample(c, *r)


def search(ctx):
    for _ in range(400):
        c = gen_smap(ctx.rng) if ctx.rng.random() < 0.5 else gen_binop(ctx.rng)
        r = oracle(c)
        if r:
            ctx.counterexample(c, *r)
            return
